"""Loops: concrete unrolling when the trip count is a literal, otherwise cut at the loop head with the
invariants of the side-car contract (initiation, preservation, use at exit; variant for termination)."""
import ast
import z3
from . import values as V
from .values import (Ref, TupleV, UNBOUND, MaybeUnbound, ToolLimit, is_sym, is_num, z, arith, compare, truth,
                     b_not, b_and, b_or, ite)
from .interp import ArrRec, ObjRec, TableRec, RangeV, assigned_in, Opaque

MAX_UNROLL = 24


def loop_spec(I, node):
    lab = I.ctx.loop_labels.get(id(node))
    spec = None
    if I.ctx.cur_func == I.ctx.contract.name:
        spec = I.ctx.contract.loops.get(lab)
    else:
        # inlined callee: loops keyed "callee:L1"
        callee = I.ctx.cur_func.split(">")[-1]
        spec = I.ctx.contract.loops.get("%s:%s" % (callee, lab))
    return lab, spec


def exec_concrete_loop(I, s, st, is_for):
    """concrete mode: the loop is simply executed"""
    outs = []
    cur = st
    count = 0
    if is_for:
        it = I.ev(s.iter, cur)
        if isinstance(it, RangeV):
            items = list(range(int(it.lo), int(it.hi)))
        elif isinstance(it, TupleV):
            items = list(it.items)
        else:
            raise ToolLimit("concrete for over %r" % (it,))
    while True:
        if is_for:
            if count >= len(items):
                break
            I.assign(s.target, items[count], cur, s)
        else:
            c = truth(I.ev(s.test, cur))
            if not isinstance(c, bool):
                raise ToolLimit("non-concrete loop guard in concrete mode")
            if not c:
                break
        count += 1
        if count > 200000:
            raise ToolLimit("concrete loop does not terminate")
        res = I.exec_block(s.body, cur)
        nxt = None
        for k, s2, v in res:
            if k in ("fall", "cont"):
                nxt = s2
            elif k == "brk":
                return [("fall", s2, None)]
            else:
                return [(k, s2, v)]
        if nxt is None:
            return []
        cur = nxt
    return [("fall", cur, None)]


def exec_for(I, s, st):
    if s.orelse:
        raise ToolLimit("for/else")
    if I.ctx.concrete:
        return exec_concrete_loop(I, s, st, True)
    it = I.ev(s.iter, st)
    if isinstance(it, Opaque):
        # iteration over an opaque iterable (np.sort(np.unique(..))): body is executed zero or more times; havoc what it assigns
        return exec_opaque_for(I, s, st, it)
    if isinstance(it, TupleV):
        outs = []
        cur = [st]
        for item in it.items:
            nxt = []
            for c in cur:
                I.assign(s.target, item, c, s)
                for k, s2, v in I.exec_block(s.body, c):
                    if k in ("fall", "cont"):
                        nxt.append(s2)
                    elif k == "brk":
                        outs.append(("fall", s2, None))
                    else:
                        outs.append((k, s2, v))
            cur = I.merge_states(nxt)
        return [("fall", c, None) for c in cur] + outs
    if not isinstance(it, RangeV):
        raise ToolLimit("for over %r (line %s)" % (it, s.lineno))
    lo, hi = it.lo, it.hi
    if is_num(lo) and not isinstance(lo, int):
        lo = int(lo)
    if is_num(hi) and not isinstance(hi, int):
        hi = int(hi)
    lab, spec = loop_spec(I, s)
    if isinstance(lo, int) and isinstance(hi, int) and hi - lo <= MAX_UNROLL and spec is None:
        outs = []
        cur = [st]
        for i in range(lo, hi):
            nxt = []
            for c in cur:
                I.assign(s.target, i, c, s)
                for k, s2, v in I.exec_block(s.body, c):
                    if k in ("fall", "cont"):
                        nxt.append(s2)
                    elif k == "brk":
                        outs.append(("fall", s2, None))
                    else:
                        outs.append((k, s2, v))
            cur = I.merge_states(nxt)
        return [("fall", c, None) for c in cur] + outs
    if spec is None:
        raise ToolLimit("loop %s of %s (line %s) has a symbolic trip count and no invariant in the contract" % (lab, I.ctx.cur_func, s.lineno))
    if not isinstance(s.target, ast.Name):
        raise ToolLimit("for target")
    tname = s.target.id
    counter = "$" + lab
    st.locals[counter] = lo
    old_target = st.locals.get(tname, UNBOUND)
    # cond: counter < hi ; at head the target name denotes the counter
    hi_name = "$hi" + lab
    st.locals[hi_name] = hi

    def cond(state):
        return compare("<", state.locals[counter], state.locals[hi_name])

    def pre_body(state):
        state.locals[tname] = state.locals[counter]

    def post_body(state):
        state.locals[counter] = arith("+", state.locals[counter], 1)

    def at_head(state):
        state.locals[tname] = state.locals[counter]

    auto_inv = lambda state: b_and(compare("<=", lo, state.locals[counter]),
                                   compare("<=", state.locals[counter], V.v_max(lo, hi)))

    def on_exit(state):
        # Python leaves the target at its last value
        c = state.locals[counter]
        ran = compare(">", hi, lo)
        last = arith("-", hi, 1)
        if ran is True:
            state.locals[tname] = last
        elif ran is False:
            state.locals[tname] = old_target
        else:
            if old_target is UNBOUND:
                state.locals[tname] = MaybeUnbound(ran, last)
            else:
                try:
                    state.locals[tname] = ite(ran, last, old_target)
                except ToolLimit:
                    state.locals[tname] = MaybeUnbound(ran, last)

    variant = lambda state: arith("-", state.locals[hi_name], state.locals[counter])
    return cut_loop(I, s, st, lab, spec, cond, pre_body, post_body, at_head, auto_inv, on_exit, variant, extra_havoc={counter, tname})


def exec_opaque_for(I, s, st, it):
    names, subs, attrs, calls = assigned_in(s.body)
    tn = []
    if isinstance(s.target, ast.Name):
        names.add(s.target.id)
    for n in names:
        cur = st.locals.get(n, UNBOUND)
        so = V.sort_of(cur) if cur is not UNBOUND and not isinstance(cur, MaybeUnbound) else None
        if so in ("Int", "Real"):
            st.locals[n] = I.ctx.fresh(n, "Real" if so == "Real" else "Int")
        else:
            st.locals[n] = Opaque("havoc:" + n)
    if subs or attrs:
        raise ToolLimit("opaque-iterable loop with heap stores (line %s)" % s.lineno)
    I.ctx.tool_notes.append("loop at line %d iterates an opaque iterable: locals %s havocked, no heap effect (checked syntactically)" % (s.lineno, sorted(names)))
    return [("fall", st, None)]


def exec_while(I, s, st):
    if s.orelse:
        raise ToolLimit("while/else")
    if I.ctx.concrete:
        return exec_concrete_loop(I, s, st, False)
    lab, spec = loop_spec(I, s)

    def cond(state):
        return truth(I.ev(s.test, state))

    c0 = None
    if spec is None:
        # no contract for this loop: accepted only if the guard is false on entry (dead loop)
        s0 = st.copy()
        try:
            c0 = cond(s0)
        except ToolLimit:
            c0 = None
        if c0 is False:
            return [("fall", st, None)]
        if c0 is not None and c0 is not True:
            from .solve import quick_unsat
            if quick_unsat(st.pc + [z(c0)]):
                I.ctx.tool_notes.append("while at line %d: guard proved false on entry (dead loop)" % s.lineno)
                st.pc.append(z3.Not(z(c0)))
                return [("fall", st, None)]
        raise ToolLimit("while loop %s of %s (line %s) has no invariant in the contract" % (lab, I.ctx.cur_func, s.lineno))
    return cut_loop(I, s, st, lab, spec, cond, None, None, None, None, None, None, extra_havoc=set())


def cut_loop(I, s, st, lab, spec, cond, pre_body, post_body, at_head, auto_inv, on_exit, auto_variant, extra_havoc):
    from .spec import eval_clause
    ctx = I.ctx
    invs = list(spec.get("invariant", []))
    tags = tuple(spec.get("tags", ()))
    entry_snapshot = st.copy()
    used_ghosts = ctx.contract.__dict__.setdefault("_ghost_names", None)
    if used_ghosts is None:
        import re
        txt = repr(ctx.contract.loops) + repr(ctx.contract.ensures) + repr(ctx.contract.options)
        used_ghosts = ctx.contract.__dict__["_ghost_names"] = set(re.findall(r"entry_L[0-9_]+_[A-Za-z_][A-Za-z_0-9]*", txt))
    for n, v in entry_snapshot.locals.items():
        gname = "entry_%s_%s" % (lab.replace(".", "_"), n)
        if gname in used_ghosts:
            st.locals[gname] = v.val if isinstance(v, MaybeUnbound) else v
    # ---- initiation
    if at_head:
        at_head(st)
    if auto_inv:
        ctx.oblige("inv_init", auto_inv(st), st, s, lab + ".range", tags)
    seq = st.copy()     # invariants are asserted in order; each may use the ones before it (all are proved, so this is sound)
    for ia, text in enumerate(spec.get("init_asserts", ())):
        _oblige_conjuncts(I, "init_assert", text, seq, s, "%s.a%d" % (lab, ia), tags)
    for i, inv in enumerate(invs):
        iid, text = inv if isinstance(inv, tuple) else ("inv%d" % i, inv)
        _oblige_conjuncts(I, "inv_init", text, seq, s, "%s.%s" % (lab, iid), tags)
    for oid, rec in seq.heap.items():
        if oid not in st.heap:
            st.heap[oid] = rec
    # ---- havoc
    names, subs, attrs, calls = assigned_in(s.body)
    stable_refs = []
    names |= set(extra_havoc)
    names |= set(spec.get("havoc_locals", ()))
    hv = st
    for n in sorted(names):
        cur = hv.locals.get(n, UNBOUND)
        if cur is UNBOUND:
            continue
        was_mu = isinstance(cur, MaybeUnbound)
        val = cur.val if was_mu else cur
        so = V.sort_of(val)
        if so is None:
            if isinstance(val, Ref):
                continue       # reference re-binding inside loops is not supported; stores are havocked below
            if isinstance(val, Opaque):
                continue
            # a local that is None / a string at the loop head and is assigned in the body: keeping the entry value for every iteration would
            # be unsound (e.g. `last = None` ... `if x != last: last = x; <recompute>` caches values across iterations), and its sort is unknown
            raise ToolLimit("loop %s: local %s is %r at the loop head and is assigned in the body (loop-carried value of unknown sort)" % (lab, n, val))
        if so == "Int" and n not in extra_havoc and not int_preserving(s.body, n):
            so = "Real"        # e.g. `HIest = 0` before the loop but real values assigned inside: the havocked value must be a real
        nv = ctx.fresh(n, so)
        hv.locals[n] = MaybeUnbound(cur.cond, nv) if was_mu else nv
    for base in subs:
        try:
            b = I.ev(base, hv.copy())
        except ToolLimit:
            continue
        rec = I.arr(hv, b)
        if rec is not None:
            hv.heap[b.oid] = rec.with_term(z3.Array("%s!%d" % (rec.name.split("#")[0], next(ctx.counter)), z3.IntSort(),
                                                     z3.RealSort() if rec.elem == "Real" else z3.IntSort()))
        elif isinstance(b, Ref) and isinstance(hv.heap.get(b.oid), TableRec):
            raise ToolLimit("table write inside a contract-cut loop")
    for base, attr in attrs:
        try:
            b = I.ev(base, hv.copy())
        except ToolLimit:
            continue
        if isinstance(b, Ref) and isinstance(hv.heap.get(b.oid), ObjRec):
            cur = I.read_field(hv, b, attr)
            so = V.sort_of(cur)
            if so is None:
                if isinstance(cur, Ref):
                    # reference-valued field assigned in the body: accepted only if every iteration re-binds it to the SAME object
                    # (checked at the end of the body); the object's own fields are havocked through their own stores / callee frames
                    stable_refs.append((b.oid, attr, cur.oid))
                    continue
                raise ToolLimit("loop %s: attribute store %s of non-scalar" % (lab, attr))
            hv.heap[b.oid] = hv.heap[b.oid].with_field(attr, ctx.fresh("%s.%s" % (hv.heap[b.oid].name, attr), so))
    for hx in spec.get("havoc_arrays", ()):
        b = I.ev(ast.parse(hx, mode="eval").body, hv.copy())
        rec = I.arr(hv, b)
        hv.heap[b.oid] = rec.with_term(z3.Array("%s!%d" % (rec.name.split("#")[0], next(ctx.counter)), z3.IntSort(),
                                                 z3.RealSort() if rec.elem == "Real" else z3.IntSort()))
    for cnode in calls:
        # calls to contract functions with assigns inside the loop body
        if isinstance(cnode.func, ast.Name) and cnode.func.id in ctx.imports:
            rel, fname = ctx.imports[cnode.func.id]
            cc = ctx.registry.lookup(rel, fname)
            if cc is not None and cc.assigns:
                raise ToolLimit("call with assigns clause inside a contract-cut loop (%s)" % fname)
    if at_head:
        at_head(hv)
    gc_pc(I, hv)
    # ghost: values at loop entry, readable in invariants as at_loop_entry names  ($entry_<name>)
    # ---- assume invariants
    if auto_inv:
        a = auto_inv(hv)
        if a is not True:
            hv.pc.append(z(a))
    for i, inv in enumerate(invs):
        iid, text = inv if isinstance(inv, tuple) else ("inv%d" % i, inv)
        h = eval_clause(I, text, hv, -1)
        if h is not True:
            hv.pc.append(z(h))
    # ---- split on the guard
    head = hv
    c = cond(head)      # evaluated on the head state itself: facts introduced by the guard (round(), first-index witnesses) stay available
    outs = []
    # exit path
    ex = head.copy()
    if c is not True:
        if c is not False:
            # re-evaluate the guard in this state so that obligations raised by the guard itself are recorded once
            ex.pc.append(z3.Not(z(c)))
        if on_exit:
            on_exit(ex)
        for lem in spec.get("exit_lemmas", ()):
            h = eval_clause(I, lem, ex, 0)
            if h is not True:
                ex.pc.append(z(h))
        _strip_ghosts(ex)
        outs.append(("fall", ex, None))
    # body path
    if c is not False:
        bd = head.copy()
        if c is not True:
            bd.pc.append(z(c))
        var_before = None
        vtext = spec.get("decreases")
        if vtext is not None:
            var_before = _eval_term(I, vtext, bd)
        elif auto_variant is not None:
            var_before = auto_variant(bd)
        if pre_body:
            pre_body(bd)
        results = I.exec_block(s.body, bd)
        ends = []
        for k, s2, v in results:
            if k in ("fall", "cont"):
                ends.append(s2)
            elif k == "brk":
                _strip_ghosts(s2)
                outs.append(("fall", s2, None))
            else:
                _strip_ghosts(s2)
                outs.append((k, s2, v))
        ends = I.merge_states(ends)
        for e in ends:
            for (ooid, attr_, roid) in stable_refs:
                nowv = e.heap[ooid].fields.get(attr_)
                if not (isinstance(nowv, Ref) and nowv.oid == roid):
                    raise ToolLimit("loop %s: the body re-binds %s to a different object" % (lab, attr_))
            for lem in spec.get("end_lemmas", ()):
                h = eval_clause(I, lem, e, 0)
                if h is not True:
                    e.pc.append(z(h))
            if post_body:
                post_body(e)
            if at_head:
                at_head(e)
            if auto_inv:
                ctx.oblige("inv_pres", auto_inv(e), e, s, lab + ".range", tags)
            seq_e = e.copy()
            for ia, text in enumerate(spec.get("pres_asserts", ())):
                _oblige_conjuncts(I, "pres_assert", text, seq_e, s, "%s.a%d" % (lab, ia), tags)
            for i, inv in enumerate(invs):
                iid, text = inv if isinstance(inv, tuple) else ("inv%d" % i, inv)
                _oblige_conjuncts(I, "inv_pres", text, seq_e, s, "%s.%s" % (lab, iid), tags)
            if var_before is not None:
                if vtext is not None:
                    var_after = _eval_term(I, vtext, e)
                else:
                    var_after = auto_variant(e)
                step = spec.get("decreases_step", 1)
                ctx.oblige("variant", b_and(compare(">=", var_before, 0), compare("<=", var_after, arith("-", var_before, V.num_const(step)))),
                           e, s, lab, ("C16",), note="termination: variant %s decreases by at least %s and is bounded below" % (vtext or "hi-i", step))
            else:
                ctx.oblige("variant_missing", False, e, s, lab, ("C16",), note="no variant given: termination not shown")
    return outs


def _syms(t, out, seen):
    stack = [t]
    while stack:
        x = stack.pop()
        i = x.get_id()
        if i in seen:
            continue
        seen.add(i)
        if z3.is_quantifier(x):
            stack.append(x.body())
        elif z3.is_app(x):
            if x.num_args() == 0:
                if x.decl().kind() == z3.Z3_OP_UNINTERPRETED:
                    out.add(x.decl().name())
            else:
                stack.extend(x.children())


def _val_syms(v, out, seen):
    if isinstance(v, z3.ExprRef):
        _syms(v, out, seen)
    elif isinstance(v, MaybeUnbound):
        _val_syms(v.cond, out, seen)
        _val_syms(v.val, out, seen)
    elif isinstance(v, TupleV):
        for x in v.items:
            _val_syms(x, out, seen)


def gc_pc(I, st):
    """Drop path-condition facts about dead symbols (symbols no live value refers to: old versions of havocked locals and arrays).
    Dead symbols are existentially quantified, so dropping every fact that mentions one is a sound weakening."""
    live, seen = set(), set()
    states = [st] + ([st.old] if st.old is not None else []) + ([I.ctx.entry] if I.ctx.entry is not None else [])
    for s_ in states:
        for v in s_.locals.values():
            _val_syms(v, live, seen)
        for rec in s_.heap.values():
            if isinstance(rec, ArrRec):
                _val_syms(rec.term, live, seen)
                _val_syms(rec.length, live, seen)
            elif isinstance(rec, ObjRec):
                for v in rec.fields.values():
                    _val_syms(v, live, seen)
            elif isinstance(rec, TableRec):
                for (row, sl, v) in rec.writes:
                    _val_syms(row, live, seen)
                    _val_syms(v, live, seen)
    keep = []
    cache = {}
    dropped = 0
    for f in st.pc:
        if not isinstance(f, z3.ExprRef):
            keep.append(f)
            continue
        k = f.get_id()
        if k not in cache:
            out = set()
            _syms(f, out, set())
            cache[k] = out
        syms = cache[k]
        dead = [n for n in syms if n not in live and "!" in n and not n.startswith("sk_")]
        if dead:
            dropped += 1
            continue
        keep.append(f)
    st.pc = keep
    I.ctx.__dict__["gc_dropped"] = I.ctx.__dict__.get("gc_dropped", 0) + dropped


def int_preserving(body, name):
    """Is every assignment to `name` inside the loop body syntactically integer valued?  (literal ints, name +/- int literal,
    int(...), len(...), np.sum(mask), another name that is itself a loop counter).  Anything else makes the local a real."""
    def is_int_expr(e):
        if isinstance(e, ast.Constant):
            return isinstance(e.value, int) and not isinstance(e.value, bool)
        if isinstance(e, ast.Name):
            return True if e.id == name else None       # unknown
        if isinstance(e, ast.BinOp) and isinstance(e.op, (ast.Add, ast.Sub, ast.Mult, ast.FloorDiv, ast.Mod)):
            a, b = is_int_expr(e.left), is_int_expr(e.right)
            return (a is True or a is None) and (b is True or b is None) and not (a is None and b is None and False)
        if isinstance(e, ast.Call):
            f = e.func
            if isinstance(f, ast.Name) and f.id in ("int", "len", "round") and (f.id != "round" or len(e.args) == 1):
                return True
            if isinstance(f, ast.Attribute) and f.attr in ("sum",) and e.args and isinstance(e.args[0], ast.Compare):
                return True
            return False
        if isinstance(e, ast.Subscript):
            return None
        if isinstance(e, ast.UnaryOp) and isinstance(e.op, ast.USub):
            return is_int_expr(e.operand)
        return False
    for stmt in body:
        for n in ast.walk(stmt):
            if isinstance(n, ast.Assign):
                for t in n.targets:
                    if isinstance(t, ast.Name) and t.id == name:
                        r = is_int_expr(n.value)
                        if r is False:
                            return False
                        if r is None and not isinstance(n.value, ast.Subscript):
                            # a bare other name / unknown: be conservative unless it looks like an index computation
                            if not (isinstance(n.value, ast.Name)):
                                return False
                    elif isinstance(t, (ast.Tuple, ast.List)) and any(isinstance(x, ast.Name) and x.id == name for x in t.elts):
                        return False
            elif isinstance(n, ast.AugAssign) and isinstance(n.target, ast.Name) and n.target.id == name:
                r = is_int_expr(n.value)
                if r is False or isinstance(n.op, ast.Div):
                    return False
    return True


def _split_and(text):
    node = ast.parse(text.strip(), mode="eval").body
    if isinstance(node, ast.BoolOp) and isinstance(node.op, ast.And):
        return [ast.unparse(v) for v in node.values]
    return [text]


def _oblige_conjuncts(I, kind, text, seq, node, detail, tags):
    """Assert the clause conjunct by conjunct on `seq`; each proved conjunct becomes a hypothesis for the following ones."""
    from .spec import eval_clause
    parts = _split_and(text)
    for k, part in enumerate(parts):
        g = eval_clause(I, part, seq, +1)
        I.ctx.oblige(kind, g, seq, node, detail if len(parts) == 1 else "%s.%d" % (detail, k), tags, note=part)
        h = eval_clause(I, part, seq, -1)
        if h is not True:
            seq.pc.append(z(h))


def _strip_ghosts(st):
    return


def _eval_term(I, text, st):
    node = ast.parse(text.strip(), mode="eval").body
    s = st.copy()
    s.spec = True
    return I.ev(node, s)
