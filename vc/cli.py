import sys
import os
import argparse


def main():
    ap = argparse.ArgumentParser()
    ap.add_argument("what")
    ap.add_argument("arg", nargs="?")
    ap.add_argument("--tier", default=os.environ.get("VERIF_TIER", "quick"))
    a = ap.parse_args()
    seed = int(os.environ.get("VERIF_SEED", "0") or 0)
    if a.what == "replay":
        from vc import e3bridge
        sys.exit(e3bridge.rerun_replay(a.arg))
    from vc import runner
    try:
        rc = runner.run_check(a.what, a.tier, seed)
    except SystemExit:
        raise
    except BaseException as e:     # a crash of the checker is never a violation
        import traceback
        traceback.print_exc()
        print("CHECKER-ERROR: %r" % (e,))
        rc = 3
    sys.exit(rc)


if __name__ == "__main__":
    main()
