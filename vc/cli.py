import sys
import os
import argparse


def main():
    ap = argparse.ArgumentParser()
    ap.add_argument("what")
    ap.add_argument("arg", nargs="?")
    ap.add_argument("--tier", default=os.environ.get("VERIF_TIER", "quick"))
    a = ap.parse_args()
    seed = int(os.environ.get("VERIF_SEED", "0") or 0)
    if a.what == "replay":
        from vc import e3bridge
        sys.exit(e3bridge.rerun_replay(a.arg))
    if a.what == "crosscheck":
        from vc import crosscheck
        import json
        rep, bad, limits = crosscheck.main(per_func=25 if a.tier == "thorough" else 10, seed=seed)
        os.makedirs("evidence", exist_ok=True)
        json.dump(dict(report=rep, disagreements=bad, functions_with_tool_limit=limits), open("evidence/_crosscheck.json", "w"), indent=1)
        for k, v in rep.items():
            print("%-28s agree %d/%d%s" % (k, v["agree"], v["samples"], ("  TOOL LIMIT: " + v["tool_limit"]) if v["tool_limit"] else ""))
        print("ENGINE-CROSS-CHECK: %d disagreement(s) with CPython" % bad)
        sys.exit(3 if bad else 0)
    from vc import runner
    try:
        rc = runner.run_check(a.what, a.tier, seed)
    except SystemExit:
        raise
    except BaseException as e:     # a crash of the checker is never a violation
        import traceback
        traceback.print_exc()
        print("CHECKER-ERROR: %r" % (e,))
        rc = 3
    sys.exit(rc)


if __name__ == "__main__":
    main()
