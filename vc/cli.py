import sys
import os
import argparse


def main():
    ap = argparse.ArgumentParser()
    ap.add_argument("what")
    ap.add_argument("arg", nargs="?")
    ap.add_argument("--tier", default=os.environ.get("VERIF_TIER", "quick"))
    a = ap.parse_args()
    seed = int(os.environ.get("VERIF_SEED", "0") or 0)
    if a.what == "replay":
        from vc import e3bridge
        sys.exit(e3bridge.rerun_replay(a.arg))
    from vc import runner
    sys.exit(runner.run_check(a.what, a.tier, seed))


if __name__ == "__main__":
    main()
