"""Symbolic executor / VC generator for the Python subset aquacrop's process functions are written in.

Reads the *current* source of /repo with ast on every run, executes a function body
forwards over symbolic values (z3 terms), merges the fall-through states of if/else
diamonds into ite terms, cuts loops at their heads with the invariants given in the
side-car contract, uses callee contracts at calls (modular), and emits one obligation
(hypotheses => goal) per safety condition, per loop-invariant clause and per ensures clause.
"""
import ast
import os
import itertools
from fractions import Fraction
import z3

from . import values as V
from .values import (Ref, TupleV, UNBOUND, MaybeUnbound, Opaque, ToolLimit, is_sym, is_num, z,
                     arith, compare, truth, b_not, b_and, b_or, b_implies, ite, same_value)

REPO = os.environ.get("VERIF_REPO", "/repo")


# ----------------------------------------------------------------------------- heap records
class ArrRec:
    __slots__ = ("term", "length", "elem", "writable", "fresh", "name", "conc")

    def __init__(self, term, length, elem="Real", writable=True, fresh=False, name="", conc=None):
        self.term, self.length, self.elem, self.writable, self.fresh, self.name = term, length, elem, writable, fresh, name
        self.conc = conc

    def with_term(self, t):
        return ArrRec(t, self.length, self.elem, self.writable, self.fresh, self.name)

    def with_conc(self, lst):
        return ArrRec(None, len(lst), self.elem, self.writable, self.fresh, self.name, conc=list(lst))


class ObjRec:
    __slots__ = ("cls", "fields", "name", "lazy", "writable", "fresh")

    def __init__(self, cls, fields=None, name="", lazy=False, writable=True, fresh=False):
        self.cls, self.fields, self.name, self.lazy, self.writable, self.fresh = cls, dict(fields or {}), name, lazy, writable, fresh

    def with_field(self, f, v):
        o = ObjRec(self.cls, self.fields, self.name, self.lazy, self.writable, self.fresh)
        o.fields[f] = v
        return o


class TableRec:
    """Ghost model of an output table: the sequence of row writes (row index term, column slice, values)."""
    __slots__ = ("name", "writes")

    def __init__(self, name, writes=()):
        self.name, self.writes = name, list(writes)


class State:
    __slots__ = ("locals", "heap", "pc", "spec", "old", "polarity", "bound")

    def __init__(self):
        self.locals = {}
        self.heap = {}
        self.pc = []
        self.spec = False
        self.old = None
        self.polarity = 0
        self.bound = {}

    def copy(self):
        s = State()
        s.locals = dict(self.locals)
        s.heap = dict(self.heap)
        s.pc = list(self.pc)
        s.spec, s.old, s.polarity, s.bound = self.spec, self.old, self.polarity, self.bound
        return s


class Obligation:
    def __init__(self, name, kind, func, hyps, goal, lineno=None, tags=(), note=""):
        self.name, self.kind, self.func, self.hyps, self.goal = name, kind, func, list(hyps), goal
        self.lineno, self.tags, self.note = lineno, tuple(tags), note
        self.trivial = False


class ConcreteError(Exception):
    """an exception CPython would raise at this point (concrete mode only)"""


class ModV:
    def __init__(self, name):
        self.name = name


class FuncV:
    """A callable: numpy / builtin / repo function / bound method."""

    def __init__(self, kind, name, recv=None):
        self.kind, self.name, self.recv = kind, name, recv


class RangeV:
    def __init__(self, lo, hi):
        self.lo, self.hi = lo, hi


class MaskV:
    """a <op> x over a whole array (only consumed by argwhere / np.sum / boolean indexing)."""

    def __init__(self, arr_ref, op, rhs):
        self.arr, self.op, self.rhs = arr_ref, op, rhs


class MaskedV:
    """a[a <op> x]: only its length (.shape[0]) is ever used"""

    def __init__(self, mask, node):
        self.mask, self.node = mask, node


class IdxSetV:
    """np.argwhere(mask).flatten()"""

    def __init__(self, mask):
        self.mask = mask


# ----------------------------------------------------------------------------- source access
_SRC_CACHE = {}


def load_module(relpath):
    path = os.path.join(REPO, relpath)
    if path not in _SRC_CACHE:
        with open(path, "r") as f:
            src = f.read()
        _SRC_CACHE[path] = (src, ast.parse(src, filename=path))
    return _SRC_CACHE[path]


def find_function(relpath, qualname):
    src, tree = load_module(relpath)
    parts = qualname.split(".")
    body = tree.body
    node = None
    for i, p in enumerate(parts):
        node = None
        for n in body:
            if isinstance(n, (ast.FunctionDef, ast.ClassDef)) and n.name == p:
                node = n
        if node is None:
            raise ToolLimit("function %s not found in %s" % (qualname, relpath))
        body = node.body
    if not isinstance(node, ast.FunctionDef):
        raise ToolLimit("%s in %s is not a function" % (qualname, relpath))
    return node


def module_imports(relpath):
    """name -> (relpath, funcname) for `from .x import y` style imports (incl. those nested in if/else)."""
    src, tree = load_module(relpath)
    out = {}
    pkgdir = os.path.dirname(relpath)
    for n in ast.walk(tree):
        if isinstance(n, ast.ImportFrom) and n.module:
            if n.level > 0:
                base = pkgdir
                for _ in range(n.level - 1):
                    base = os.path.dirname(base)
                modpath = os.path.join(base, *n.module.split("."))
            else:
                modpath = os.path.join(*n.module.split("."))
            for a in n.names:
                cand = modpath + ".py"
                if os.path.exists(os.path.join(REPO, cand)):
                    out[a.asname or a.name] = (cand, a.name)
        elif isinstance(n, ast.Import):
            for a in n.names:
                if a.name == "numpy":
                    out[a.asname or "numpy"] = ("<numpy>", None)
    return out


def strip_docstring(body):
    if body and isinstance(body[0], ast.Expr) and isinstance(body[0].value, ast.Constant) and isinstance(body[0].value.value, str):
        return body[1:]
    return body


def label_loops(fn):
    """pre-order labels: top level L1, L2 ..; nested L1.1 ..  -> {id(node): label}"""
    labels = {}

    def walk(stmts, prefix):
        k = 0
        for s in stmts:
            for node in _loops_in_stmt(s):
                k += 1
                lab = (prefix + "." if prefix else "L") + str(k) if prefix else "L" + str(k)
                labels[id(node)] = lab
                walk(node.body, lab)
        return k

    def _loops_in_stmt(s):
        # loops directly nested in s (not inside another loop)
        if isinstance(s, (ast.For, ast.While)):
            return [s]
        out = []
        for fld in ("body", "orelse", "finalbody"):
            for c in getattr(s, fld, []) or []:
                if isinstance(c, ast.stmt):
                    out.extend(_loops_in_stmt(c))
        return out

    walk(fn.body, "")
    return labels


def assigned_in(stmts):
    """Syntactic scan of what a loop body may assign: (local names, subscript-store base exprs, attribute-store (base expr, attr))."""
    names, subs, attrs, calls = set(), [], [], []

    def tgt(t):
        if isinstance(t, ast.Name):
            names.add(t.id)
        elif isinstance(t, (ast.Tuple, ast.List)):
            for e in t.elts:
                tgt(e)
        elif isinstance(t, ast.Subscript):
            subs.append(t.value)
        elif isinstance(t, ast.Attribute):
            attrs.append((t.value, t.attr))
        elif isinstance(t, ast.Starred):
            tgt(t.value)

    for s in stmts:
        for n in ast.walk(s):
            if isinstance(n, ast.Assign):
                for t in n.targets:
                    tgt(t)
            elif isinstance(n, (ast.AugAssign, ast.AnnAssign)):
                tgt(n.target)
            elif isinstance(n, ast.For):
                tgt(n.target)
            elif isinstance(n, ast.Call):
                calls.append(n)
    return names, subs, attrs, calls


# ----------------------------------------------------------------------------- the executor
class Ctx:
    def __init__(self, registry, contract, relpath, fn):
        self.registry = registry
        self.contract = contract
        self.relpath = relpath
        self.fn = fn
        self.imports = module_imports(relpath) if not contract.options.get("harness_src") else {}
        self.obligations = []
        self.counter = itertools.count()
        self.oid_counter = itertools.count(1)
        self.named = {}
        self.loop_labels = label_loops(fn)
        self.paths = 0
        self.merges = 0
        self.dropped = []
        self.dead_paths = 0
        self.merge_enabled = contract.options.get("merge", True)
        self.entry = None
        self.names_seen = {}
        self.call_depth = 0
        self.concrete = False          # concrete mode (engine-vs-CPython cross-check): every value is a Python number, loops are executed
        self.cur_func = contract.name
        self.tool_notes = []

    def fresh(self, prefix, sort):
        n = "%s!%d" % (prefix, next(self.counter))
        if sort == "Int":
            return z3.Int(n)
        if sort == "Real":
            return z3.Real(n)
        if sort == "Bool":
            return z3.Bool(n)
        raise ToolLimit("fresh of sort %s" % sort)

    def new_oid(self):
        return next(self.oid_counter)

    def entry_for_reads(self, st):
        """state in which a read-guard is evaluated: entry values of the parameters, current path condition"""
        e = self.entry.copy()
        e.pc = st.pc
        e.heap = dict(st.heap)
        return e

    def named_oid(self, name):
        if name not in self.named:
            self.named[name] = self.new_oid()
        return self.named[name]

    def oblige(self, kind, goal, st, node=None, detail="", tags=(), note=""):
        if st.spec:
            return
        if goal is True:
            return
        if self.concrete:
            if goal is False:
                raise ConcreteError(kind)
            return
        tb = self.contract.options.get("tier_b_kinds")
        if tb and kind in tb:
            # clause kinds this contract does not claim (served by the bounded stand-in only); counted, never registered
            self.tier_b_skipped = getattr(self, "tier_b_skipped", 0) + 1
            return
        tbs = self.contract.options.get("tier_b_sites")
        if tbs and isinstance(node, ast.AST):
            try:
                src = ast.unparse(node)
            except Exception:
                src = ""
            if any(kind == k and frag in src for k, frag in tbs):
                # a single site this contract does not claim (it depends on a fact the contract does not establish); counted, never registered
                self.tier_b_skipped = getattr(self, "tier_b_skipped", 0) + 1
                return
        ln = getattr(node, "lineno", None)
        col = getattr(node, "col_offset", None)
        base = "%s.%s%s@%s:%s" % (self.cur_func, kind, ("." + detail) if detail else "", ln, col)
        k = self.names_seen.get(base, 0)
        self.names_seen[base] = k + 1
        name = base if k == 0 else "%s#%d" % (base, k)
        g = z(goal) if not isinstance(goal, z3.ExprRef) else goal
        gid = g.get_id()
        ob = Obligation(name, kind, self.cur_func, st.pc, g, ln, tags, note)
        for h in st.pc:
            if isinstance(h, z3.ExprRef) and h.get_id() == gid:
                ob.trivial = True        # the goal is literally one of the hypotheses: discharged without a solver call
                break
        self.obligations.append(ob)


SAFETY_TAG = ("C16",)


class Interp:
    def __init__(self, ctx):
        self.ctx = ctx

    # ------------------------------------------------------------------ heap helpers
    def get_obj(self, st, ref):
        return st.heap[ref.oid]

    def read_field(self, st, ref, attr, node=None):
        rec = st.heap.get(ref.oid)
        if isinstance(rec, ArrRec):
            if attr == "shape":
                return TupleV([len(rec.conc) if rec.conc is not None else rec.length])
            if attr == "size":
                return len(rec.conc) if rec.conc is not None else rec.length
            return FuncV("arrmethod", attr, ref)
        if isinstance(rec, TableRec):
            if attr in ("loc", "iloc"):
                return ref
            raise ToolLimit("table attribute ." + attr)
        if not isinstance(rec, ObjRec):
            raise ToolLimit("attribute .%s of %r" % (attr, rec))
        if rec.cls.startswith("List[") and attr in ("loc", "iloc"):
            return ref
        if attr in rec.fields:
            v = rec.fields[attr]
            if isinstance(v, MaybeUnbound):
                self.ctx.oblige("attr_defined", v.cond, st, node, attr, SAFETY_TAG)
                return v.val
            return v
        phi = self.ctx.__dict__.get("phi", {}).get(ref.oid)
        if phi is not None:
            c, a, b = phi
            va, vb = self.read_field(st, a, attr, node), self.read_field(st, b, attr, node)
            if isinstance(va, Ref) and isinstance(vb, Ref) and va.oid != vb.oid:
                v = self.phi_object(st, c, va, vb)
            else:
                v = ite(c, va, vb)
            st.heap[ref.oid] = st.heap[ref.oid].with_field(attr, v)
            return v
        if rec.lazy:
            if self.ctx.registry.lookup(self.ctx.relpath, "%s.%s" % (rec.cls, attr)) is not None:
                return FuncV("method", attr, ref)
            v = self.lazy_field(st, ref, rec, attr)
            return v
        self.ctx.oblige("attr_defined", False, st, node, attr, SAFETY_TAG)
        raise ToolLimit("attribute %s.%s is not defined" % (rec.cls, attr))

    def lazy_field(self, st, ref, rec, attr):
        from .spec import field_type
        ty = field_type(rec.cls, attr)
        name = "%s.%s" % (rec.name, attr)
        v = self.make_input(st, name, ty, writable=self.ctx.contract.field_writable(rec.name, attr))
        # the initial value is a function of the name only, so it is the same in every fork
        st.heap[ref.oid] = rec.with_field(attr, v)
        if st.old is not None and ref.oid in st.old.heap and attr not in st.old.heap[ref.oid].fields:
            st.old.heap[ref.oid] = st.old.heap[ref.oid].with_field(attr, v)
            if isinstance(v, Ref) and v.oid not in st.old.heap:
                st.old.heap[v.oid] = st.heap[v.oid]
        return v

    def make_input(self, st, name, ty, writable=True):
        """Create the symbolic initial value for a parameter / lazily read field."""
        if isinstance(ty, str):
            if ty == "PosReal":
                v = z3.Real(name)
                st.pc.append(v > 0)        # data assumption stated by the type (e.g. CO2 concentrations are positive)
                return v
            if ty == "Real":
                return z3.Real(name)
            if ty == "Int":
                return z3.Int(name)
            if ty == "Bool":
                return z3.Bool(name)
            if ty == "Opaque":
                return Opaque(name)
            if ty == "None":
                return None
            raise ToolLimit("type %s" % ty)
        kind = ty[0]
        if kind == "Arr":
            elem = ty[1]
            length = ty[2] if len(ty) > 2 else None
            oid = self.ctx.named_oid(name)
            if oid not in st.heap:
                if length is None:
                    ln = z3.Int("len(%s)" % name)
                elif isinstance(length, int):
                    ln = length
                else:
                    ln = z3.Int(length)
                sort = z3.RealSort() if elem == "Real" else z3.IntSort()
                st.heap[oid] = ArrRec(z3.Array(name, z3.IntSort(), sort), ln, elem, writable=writable, name=name)
            return Ref(oid)
        if kind == "Obj":
            oid = self.ctx.named_oid(name)
            if oid not in st.heap:
                st.heap[oid] = ObjRec(ty[1], {}, name=name, lazy=True, writable=writable)
            return Ref(oid)
        if kind == "Table":
            oid = self.ctx.named_oid(name)
            if oid not in st.heap:
                st.heap[oid] = TableRec(name)
            return Ref(oid)
        if kind == "Const":
            return ty[1]
        if kind == "Tuple":
            return TupleV([self.make_input(st, "%s[%d]" % (name, i), t, writable) for i, t in enumerate(ty[1])])
        raise ToolLimit("type %r" % (ty,))

    def alloc_array(self, st, term, length, elem="Real", name="fresh", conc=None):
        oid = self.ctx.new_oid()
        st.heap[oid] = ArrRec(term, length, elem, writable=True, fresh=True, name="%s#%d" % (name, oid), conc=conc)
        return Ref(oid)

    def conc_mask(self, st, mask):
        """concrete evaluation of a mask a <op> x : list of bools"""
        rec = st.heap[mask.arr.oid]
        import operator
        f = {"<": operator.lt, "<=": operator.le, ">": operator.gt, ">=": operator.ge, "==": operator.eq, "!=": operator.ne}[mask.op]
        return [bool(f(v, mask.rhs)) for v in rec.conc]

    def arr(self, st, v):
        if isinstance(v, Ref):
            r = st.heap.get(v.oid)
            if isinstance(r, ArrRec):
                return r
        return None

    # ------------------------------------------------------------------ expressions
    def ev(self, node, st):
        m = getattr(self, "ev_" + type(node).__name__, None)
        if m is None:
            raise ToolLimit("expression %s (line %s)" % (type(node).__name__, getattr(node, "lineno", "?")))
        return m(node, st)

    def ev_Constant(self, node, st):
        return V.num_const(node.value)

    def ev_Name(self, node, st):
        n = node.id
        if n in st.bound:
            return st.bound[n]
        if n in st.locals:
            v = st.locals[n]
            ro = self.ctx.contract.options.get("reads_only_if")
            if ro and n in ro and not st.spec and self.ctx.cur_func.split("[")[0] == self.ctx.contract.name:
                from .spec import eval_clause
                g = eval_clause(self, ro[n], self.ctx.entry_for_reads(st), +1)
                self.ctx.oblige("reads", g, st, node, n, ("C20",), note="%s may be read only if %s" % (n, ro[n]))
            if isinstance(v, MaybeUnbound):
                self.ctx.oblige("defined", v.cond, st, node, n, SAFETY_TAG,
                                note="local '%s' must be assigned on every path reaching this read (UnboundLocalError)" % n)
                if not st.spec:
                    # after the check the read value is usable; keep the knowledge
                    st.pc.append(z(v.cond))
                    st.locals[n] = v.val
                return v.val
            if v is UNBOUND:
                self.ctx.oblige("defined", False, st, node, n, SAFETY_TAG, note="local '%s' is never assigned on this path" % n)
                raise ToolLimit("read of unbound local %s" % n)
            return v
        if n in ("True", "False", "None"):
            return {"True": True, "False": False, "None": None}[n]
        if n in self.ctx.imports:
            rel, fname = self.ctx.imports[n]
            if rel == "<numpy>":
                return ModV("np")
            return FuncV("repo", n)
        if n in BUILTINS:
            return FuncV("builtin", n)
        if self.same_module_function(n):
            self.ctx.imports[n] = (self.ctx.relpath, n)
            return FuncV("repo", n)
        mc = self.module_constant(n)
        if mc is not None:
            return mc[0]
        if n in ("np", "numpy"):
            return ModV("np")
        if n == "time":
            return ModV("time")
        if n in ("pd", "pandas"):
            return ModV("pd")
        if st.spec:
            from .spec import SPEC_FUNCS
            if n in SPEC_FUNCS:
                return FuncV("spec", n)
        # assigned somewhere in the function but not on this path -> UnboundLocalError
        self.ctx.oblige("defined", False, st, node, n, SAFETY_TAG, note="name '%s' is not bound on this path" % n)
        raise ToolLimit("unbound name %s" % n)

    def module_constant(self, n):
        """a module-level name of the same file bound exactly once to a literal (number, string, tuple/list of those): its value"""
        if self.ctx.relpath.startswith("<"):
            return None
        src, tree = load_module(self.ctx.relpath)
        hits = [x for x in tree.body if isinstance(x, ast.Assign) and len(x.targets) == 1 and isinstance(x.targets[0], ast.Name) and x.targets[0].id == n]
        if len(hits) != 1:
            return None
        try:
            val = ast.literal_eval(hits[0].value)
        except Exception:
            return None
        def conv(v):
            if isinstance(v, (tuple, list)):
                return TupleV([conv(e) for e in v])
            if isinstance(v, bool) or isinstance(v, str) or v is None:
                return v
            if isinstance(v, (int, float)):
                return V.num_const(v)
            raise ValueError
        try:
            return (conv(val),)
        except ValueError:
            return None

    def same_module_function(self, n):
        if self.ctx.relpath.startswith("<"):
            return False
        src, tree = load_module(self.ctx.relpath)
        return any(isinstance(x, ast.FunctionDef) and x.name == n for x in tree.body)

    def ev_Attribute(self, node, st):
        base = self.ev(node.value, st)
        a = node.attr
        if isinstance(base, ModV) and base.name == "pd":
            return Opaque("pd." + a)
        if isinstance(base, ModV):
            if base.name == "np" and a == "pi":
                import math
                return math.pi if V.FLOATMODE else V.PI
            return FuncV(base.name, a)
        if isinstance(base, Ref):
            return self.read_field(st, base, a, node)
        if isinstance(base, TupleV) and a == "shape":
            return TupleV([len(base.items)])
        if isinstance(base, TupleV) and a in ("sum", "flatten"):
            return FuncV("tuplemethod", a, base)
        if isinstance(base, IdxSetV):
            return FuncV("idxmethod", a, base)
        if isinstance(base, MaskedV):
            if a == "shape":
                return TupleV([self.count_mask(base.mask, st, node)])
            raise ToolLimit("attribute .%s of a masked array" % a)
        if isinstance(base, FuncV):
            return FuncV(base.kind + "." + base.name, a, base.recv)
        if isinstance(base, Opaque):
            return Opaque(base.tag + "." + a)
        raise ToolLimit("attribute .%s on %r (line %s)" % (a, base, node.lineno))

    def ev_Tuple(self, node, st):
        return TupleV([self.ev(e, st) for e in node.elts])

    def ev_List(self, node, st):
        return TupleV([self.ev(e, st) for e in node.elts], "list")

    def ev_UnaryOp(self, node, st):
        v = self.ev(node.operand, st)
        if isinstance(node.op, ast.USub):
            return V.neg(v)
        if isinstance(node.op, ast.UAdd):
            return v
        if isinstance(node.op, ast.Not):
            if st.spec:
                st2 = st.copy()
                st2.polarity = -st.polarity
                v = self.ev(node.operand, st2)
            return b_not(truth(v))
        raise ToolLimit("unary op")

    def ev_BoolOp(self, node, st):
        # short circuit: later operands are evaluated under the assumption of the earlier ones
        vals = []
        cur = st
        is_and = isinstance(node.op, ast.And)
        for e in node.values:
            v = truth(self.ev(e, cur))
            if isinstance(v, bool):
                if is_and and not v:
                    return False
                if (not is_and) and v:
                    return True
                continue
            vals.append(v)
            if not st.spec:
                cur = cur.copy()
                cur.pc.append(v if is_and else z3.Not(v))
        return b_and(*vals) if is_and else b_or(*vals)

    def ev_Compare(self, node, st):
        left = self.ev(node.left, st)
        res = []
        for op, rhs_n in zip(node.ops, node.comparators):
            right = self.ev(rhs_n, st)
            o = OPS[type(op)]
            if o in ("in", "not in"):
                if not isinstance(right, TupleV):
                    raise ToolLimit("`in` over non-literal")
                r = b_or(*[compare("==", left, it) for it in right.items])
                res.append(r if o == "in" else b_not(r))
            elif self.arr(st, left) is not None and not isinstance(right, Ref):
                return MaskV(left, o, right)
            else:
                res.append(compare(o, left, right))
            left = right
        return b_and(*res)

    def ev_IfExp(self, node, st):
        c = truth(self.ev(node.test, st))
        if isinstance(c, bool):
            return self.ev(node.body if c else node.orelse, st)
        s1 = st.copy()
        s1.pc.append(c)
        s2 = st.copy()
        s2.pc.append(z3.Not(c))
        a, b = self.ev(node.body, s1), self.ev(node.orelse, s2)
        if isinstance(a, Ref) and isinstance(b, Ref) and a.oid != b.oid:
            for s_ in (s1, s2):            # objects first touched while evaluating a branch exist in the main state too
                for o_, r_ in s_.heap.items():
                    st.heap.setdefault(o_, r_)
            return self.phi_object(st, c, a, b)
        return ite(c, a, b)

    def phi_object(self, st, c, a, b):
        """`x if c else y` over two objects of the same record class: a read-only object whose fields are ite(c, x.f, y.f), built on demand."""
        ra, rb = st.heap.get(a.oid), st.heap.get(b.oid)
        if not (isinstance(ra, ObjRec) and isinstance(rb, ObjRec) and ra.cls == rb.cls):
            raise ToolLimit("conditional expression over two different non-record objects")
        phis = self.ctx.__dict__.setdefault("phi", {})
        oid = self.ctx.named_oid("phi(%s|%s|%s)" % (c.get_id() if hasattr(c, "get_id") else c, ra.name, rb.name))
        phis[oid] = (c, a, b)
        if oid not in st.heap:
            st.heap[oid] = ObjRec(ra.cls, {}, name="ite(%s, %s)" % (ra.name, rb.name), lazy=True, writable=False)
        return Ref(oid)

    def ev_BinOp(self, node, st):
        a = self.ev(node.left, st)
        b = self.ev(node.right, st)
        op = OPS[type(node.op)]
        return self.binop(op, a, b, st, node)

    def binop(self, op, a, b, st, node):
        ra, rb = self.arr(st, a), self.arr(st, b)
        if ra is not None or rb is not None:
            return self.array_binop(op, a, b, ra, rb, st, node)
        if isinstance(a, TupleV) and op == "*" and isinstance(b, int):
            return TupleV(a.items * b, a.kind)
        if isinstance(a, TupleV) and isinstance(b, TupleV) and op == "+":
            return TupleV(a.items + b.items, a.kind)
        if op in ("/", "//", "%"):
            nz = compare("!=", b, 0)
            self.ctx.oblige("div_nonzero", nz, st, node, "", SAFETY_TAG, note="ZeroDivisionError / inf")
            if not st.spec and not isinstance(nz, bool):
                pass
        if op == "**":
            if isinstance(b, int) and not isinstance(b, bool) and 0 <= b <= 8:
                return arith("**", a, b)
            if is_num(b) and Fraction(b).denominator == 1 and 0 <= int(b) <= 8:
                return arith("**", a, int(b))
            self.ctx.oblige("pow_base_nonneg", compare(">=", a, 0), st, node, "", SAFETY_TAG, note="nan from a negative base")
            return V.v_pow(a, b)
        return arith(op, a, b)

    def array_binop(self, op, a, b, ra, rb, st, node):
        # `x * 1`, `x * 1.0`: a fresh copy (numpy allocates); general elementwise only for concrete lengths
        r = ra or rb
        other = b if ra is not None else a
        if (ra is None or ra.conc is not None) and (rb is None or rb.conc is not None) and r.conc is not None:
            if ra is not None and rb is not None:
                vals = [arith(op, x, y) for x, y in zip(ra.conc, rb.conc)]
            elif ra is not None:
                vals = [arith(op, x, other) for x in ra.conc]
            else:
                vals = [arith(op, other, x) for x in rb.conc]
            return self.alloc_array(st, None, None, "Real", "elementwise", conc=[float(v) for v in vals])
        if ra is not None and rb is not None:
            n = ra.length
            if not isinstance(n, int) or not isinstance(rb.length, int) or n != rb.length:
                raise ToolLimit("elementwise array op on symbolic lengths (line %s)" % node.lineno)
            t = z3.K(z3.IntSort(), z3.RealVal(0))
            for i in range(n):
                t = z3.Store(t, i, z(arith(op, select_term(ra.term, z3.IntVal(i)), select_term(rb.term, z3.IntVal(i))), True))
            return self.alloc_array(st, t, n, "Real", "elementwise")
        if op == "*" and is_num(other) and other == 1:
            return self.alloc_array(st, r.term, r.length, r.elem if isinstance(other, int) else "Real", "copy")
        if isinstance(r.length, int):
            n = r.length
            t = z3.K(z3.IntSort(), z3.RealVal(0))
            for i in range(n):
                e = select_term(r.term, z3.IntVal(i))
                val = arith(op, e, other) if ra is not None else arith(op, other, e)
                t = z3.Store(t, i, z(val, True))
            return self.alloc_array(st, t, n, "Real", "elementwise")
        raise ToolLimit("array arithmetic on symbolic length (line %s)" % node.lineno)

    def ev_Subscript(self, node, st):
        base = self.ev(node.value, st)
        sl = node.slice
        if isinstance(base, TupleV):
            idx = self.ev(sl, st)
            if isinstance(idx, int):
                if not (-len(base.items) <= idx < len(base.items)):
                    self.ctx.oblige("index", False, st, node, "", SAFETY_TAG)
                    raise ToolLimit("tuple index out of range")
                return base.items[idx]
            # symbolic index into a literal tuple: ite chain with bounds obligation
            n = len(base.items)
            self.ctx.oblige("index", b_and(compare(">=", idx, 0), compare("<", idx, n)), st, node, "", SAFETY_TAG, note="IndexError")
            r = base.items[n - 1]
            for i in range(n - 2, -1, -1):
                r = ite(compare("==", idx, i), base.items[i], r)
            return r
        if isinstance(base, RangeV):
            idx = self.ev(sl, st)
            if idx == -1:
                if not st.spec:
                    self.ctx.oblige("index", compare(">", base.hi, base.lo), st, node, "range", SAFETY_TAG, note="IndexError: range object index out of range")
                return arith("-", base.hi, 1)
            raise ToolLimit("range subscript %r" % (idx,))
        if isinstance(base, IdxSetV) and st.heap[base.mask.arr.oid].conc is not None:
            m = self.conc_mask(st, base.mask)
            lst = [i for i, b in enumerate(m) if b]
            idx = self.ev(sl, st)
            if not (-len(lst) <= idx < len(lst)):
                raise ConcreteError("IndexError")
            return lst[idx]
        if isinstance(base, IdxSetV):
            idx = self.ev(sl, st)
            if idx == 0:
                return self.first_index(base.mask, st, node)
            raise ToolLimit("index %r into argwhere result" % (idx,))
        rec = self.arr(st, base)
        if rec is not None and rec.conc is not None:
            if isinstance(sl, ast.Slice):
                if sl.lower is None and sl.upper is None and sl.step is None:
                    return base
                raise ToolLimit("array slice (line %s)" % node.lineno)
            idx = self.ev(sl, st)
            if isinstance(idx, MaskV):
                m = self.conc_mask(st, idx)
                return self.alloc_array(st, None, None, rec.elem, "masked", conc=[v for v, b in zip(rec.conc, m) if b])
            if isinstance(idx, TupleV):
                return TupleV([rec.conc[int(i)] for i in idx.items])
            if isinstance(idx, IdxSetV):
                m = self.conc_mask(st, idx.mask)
                return TupleV([rec.conc[i] for i, b in enumerate(m) if b])
            if isinstance(idx, float) and idx == int(idx):
                idx = int(idx)
            if not isinstance(idx, int) or isinstance(idx, bool):
                raise ToolLimit("concrete array index %r" % (idx,))
            if not (-len(rec.conc) <= idx < len(rec.conc)):
                raise ConcreteError("IndexError")
            return rec.conc[idx]
        if rec is not None:
            if isinstance(sl, ast.Slice):
                if sl.lower is None and sl.upper is None and sl.step is None:
                    return base      # a[:] is a view: same storage
                raise ToolLimit("array slice (line %s)" % node.lineno)
            idx = self.ev(sl, st)
            if isinstance(idx, MaskV):
                return self.masked(base, idx, st, node)
            idx = self.norm_index(idx, rec, st, node)
            return select_term(rec.term, z(idx))
        if isinstance(base, Ref) and isinstance(st.heap.get(base.oid), TableRec):
            raise ToolLimit("read from an output table (line %s)" % node.lineno)
        if isinstance(base, Ref) and isinstance(st.heap.get(base.oid), ObjRec) and st.heap[base.oid].cls.startswith("List["):
            # a list of record objects indexed by a (symbolic) position: element k is the lazily created object "<list>[k]"
            idx = self.ev(sl, st)
            if isinstance(idx, Opaque):
                key = "[%s]" % idx.tag
            else:
                key = "[%s]" % (str(z3.simplify(z(idx))) if is_sym(idx) else str(idx))
            return self.read_field(st, base, key, node)
        if isinstance(base, Opaque):
            return Opaque(base.tag + "[...]")
        raise ToolLimit("subscript of %r (line %s)" % (base, node.lineno))

    def norm_index(self, idx, rec, st, node):
        if isinstance(idx, bool) or not (isinstance(idx, int) or (is_sym(idx) and z3.is_int(idx))):
            if is_num(idx) and Fraction(idx).denominator == 1:
                idx = int(idx)
            else:
                raise ToolLimit("non-integer array index %r (line %s)" % (idx, node.lineno))
        if isinstance(idx, int) and idx < 0:
            idx = arith("+", rec.length, idx)
        if not st.spec:
            ok = b_and(compare(">=", idx, 0), compare("<", idx, rec.length))
            self.ctx.oblige("index", ok, st, node, rec.name.split("#")[0], SAFETY_TAG, note="IndexError")
        return idx

    def first_index(self, mask, st, node):
        """np.argwhere(a >= x).flatten()[0]: the first index satisfying the mask.
        Safety: a witness must exist; we demand the sufficient condition that the LAST element satisfies the mask
        (necessary as well when the array is non-decreasing, which holds for dzsum / zMid)."""
        rec = st.heap[mask.arr.oid]
        if rec.conc is not None:
            m = self.conc_mask(st, mask)
            if True not in m:
                raise ConcreteError("IndexError")
            return m.index(True)
        n = rec.length
        last = z3.Select(rec.term, z(arith("-", n, 1)))
        self.ctx.oblige("argwhere_witness", b_and(compare(">", n, 0), compare(mask.op, last, mask.rhs)), st, node, "", SAFETY_TAG,
                        note="np.argwhere(...)[0] raises IndexError when no element satisfies the mask")
        k = self.ctx.fresh("first", "Int")
        j = z3.Int("j!q")
        st.pc.append(z3.And(k >= 0, k < z(n), z(compare(mask.op, z3.Select(rec.term, k), mask.rhs))))
        st.pc.append(z3.ForAll([j], z3.Implies(z3.And(j >= 0, j < k), z3.Not(z(compare(mask.op, z3.Select(rec.term, j), mask.rhs))))))
        return k

    def count_mask(self, mask, st, node):
        """np.sum(a <op> x) / a[a <op> x].shape[0]: number of elements satisfying the mask (fresh Int c, 0<=c<=n,
        characterised through sortedness when the contract provides it: see spec function count_*)."""
        rec = st.heap[mask.arr.oid]
        if rec.conc is not None:
            return sum(1 for b in self.conc_mask(st, mask) if b)
        n = rec.length
        rz = z(mask.rhs, True)
        if z3.is_app(rz) and rz.decl().kind() == z3.Z3_OP_ITE:
            # lift an if-then-else threshold out of the count (keeps counts of merged states syntactically tied to those of the branches)
            a = self.count_mask(MaskV(mask.arr, mask.op, rz.arg(1)), st, node)
            b = self.count_mask(MaskV(mask.arr, mask.op, rz.arg(2)), st, node)
            return z3.If(rz.arg(0), z(a), z(b))
        key = (rec.term.get_id(), mask.op, z(mask.rhs, True).get_id())
        cache = self.ctx.__dict__.setdefault("count_cache", {})
        if key in cache:
            c = cache[key][0]
        else:
            c = self.ctx.fresh("count", "Int")
            cache[key] = (c, rec.term, z(mask.rhs, True))      # keep the terms alive: ids are only unique among live terms
        j = z3.Int("j!q")
        body = z(compare(mask.op, z3.Select(rec.term, j), mask.rhs))
        # for a non-decreasing array and an order mask the satisfying set is a prefix or a suffix
        if mask.op in ("<", "<="):
            shape = z3.And(z3.ForAll([j], z3.Implies(z3.And(j >= 0, j < c), body)),
                           z3.ForAll([j], z3.Implies(z3.And(j >= c, j < z(n)), z3.Not(body))))
        elif mask.op in (">", ">="):
            shape = z3.And(z3.ForAll([j], z3.Implies(z3.And(j >= 0, j < z(n) - c), z3.Not(body))),
                           z3.ForAll([j], z3.Implies(z3.And(j >= z(n) - c, j < z(n)), body)))
        else:
            raise ToolLimit("count of == mask")
        rng = z3.And(c >= 0, c <= z(n))
        if st.spec:
            # in a specification the characterisation is only available under the (quantified) sortedness premise
            mono = z3.ForAll([j], z3.Implies(z3.And(j >= 0, j < z(n) - 1), z3.Select(rec.term, j) <= z3.Select(rec.term, j + 1)))
            st.pc.append(rng)
            st.pc.append(z3.Implies(mono, shape))
            return c
        # in code: the characterisation is assumed together with an obligation that the array is non-decreasing
        jj = self.ctx.fresh("jm", "Int")
        self.ctx.oblige("count_mask_sorted", z3.Implies(z3.And(jj >= 0, jj < z(n) - 1), z3.Select(rec.term, jj) <= z3.Select(rec.term, jj + 1)),
                        st, node, "", (), note="prefix/suffix characterisation of a mask count needs a non-decreasing array")
        st.pc.append(rng)
        st.pc.append(shape)
        return c

    def masked(self, base, mask, st, node):
        if not (isinstance(base, Ref) and base.oid == mask.arr.oid):
            raise ToolLimit("boolean mask over a different array (line %s)" % node.lineno)
        return MaskedV(mask, node)

    # ------------------------------------------------------------------ calls
    def ev_Call(self, node, st):
        # spec-only forms first (they bind variables)
        if st.spec and isinstance(node.func, ast.Name):
            from . import spec as S
            r = S.spec_call(self, node, st)
            if r is not S.NOT_SPEC:
                return r
        f = self.ev(node.func, st)
        if isinstance(f, Opaque):
            for a in node.args:
                self.ev(a, st)
            return Opaque(f.tag + "()")
        if not isinstance(f, FuncV):
            raise ToolLimit("call of %r (line %s)" % (f, node.lineno))
        if node.keywords and f.kind not in ("repo",):
            kw = {k.arg: self.ev(k.value, st) for k in node.keywords}
        else:
            kw = {k.arg: self.ev(k.value, st) for k in node.keywords}
        args = [self.ev(a, st) for a in node.args]
        from . import calls
        return calls.dispatch(self, f, args, kw, st, node)

    # ------------------------------------------------------------------ statements
    def exec_block(self, stmts, st):
        outs = []
        cur = [st]
        for s in stmts:
            nxt = []
            for c in cur:
                try:
                    res = self.exec_stmt(s, c)
                except ToolLimit as e:
                    if self.path_dead(c):
                        self.ctx.dead_paths += 1
                        continue
                    raise
                for (k, s2, v) in res:
                    if k == "fall":
                        nxt.append(s2)
                    else:
                        outs.append((k, s2, v))
            cur = self.merge_states(nxt)
            if not cur:
                break
        return [("fall", c, None) for c in cur] + outs

    def path_dead(self, st):
        from .solve import quick_unsat
        return quick_unsat(st.pc)

    def apply_cuts(self, s, st):
        """assert / havoc / assume cut placed by the contract before a statement (identified by the prefix of its source text):
        the listed clauses are proved on the current state, the listed locations are then forgotten and only the clauses are kept."""
        cuts = self.ctx.contract.options.get("cuts")
        if not cuts or self.ctx.cur_func.split("[")[0] != self.ctx.contract.name:
            return
        txt = None
        for ci, cut in enumerate(cuts):
            if txt is None:
                txt = ast.unparse(s)
            if cut.get("before_re"):
                import re as _re
                if not _re.match(cut["before_re"], txt):
                    continue
            elif not txt.startswith(cut["before"]):
                continue
            if st.locals.get("$cut%d" % ci):
                continue               # a cut fires once per path: at the FIRST statement matching its anchor
            st.locals["$cut%d" % ci] = True
            used = self.ctx.__dict__.setdefault("cuts_used", set())
            used.add(ci)
            from .loops import _oblige_conjuncts
            from .spec import eval_clause
            seq = st.copy()
            for k, clause in enumerate(cut["assert"]):
                _oblige_conjuncts(self, "cut_assert", clause, seq, s, "cut%d.%d" % (ci, k), ())
            for loc in cut["havoc"]:
                node = ast.parse(loc, mode="eval").body
                cur = self.ev(node, st.copy())
                so = V.sort_of(cur)
                if so is None:
                    raise ToolLimit("cut: cannot havoc %s" % loc)
                nv = self.ctx.fresh("cut_" + loc.replace(".", "_"), so)
                tgt = ast.parse(loc, mode="eval").body
                tgt.ctx = ast.Store()
                self.assign(tgt, nv, st, s)
            for clause in cut["assert"]:
                h = eval_clause(self, clause, st, -1)
                if h is not True:
                    st.pc.append(z(h))

    def exec_stmt(self, s, st):
        self.apply_cuts(s, st)
        m = getattr(self, "st_" + type(s).__name__, None)
        if m is None:
            raise ToolLimit("statement %s (line %s)" % (type(s).__name__, s.lineno))
        return m(s, st)

    def st_Pass(self, s, st):
        return [("fall", st, None)]

    def st_Import(self, s, st):
        return [("fall", st, None)]

    st_ImportFrom = st_Import

    def st_Expr(self, s, st):
        if isinstance(s.value, ast.Constant):
            return [("fall", st, None)]
        if isinstance(s.value, ast.Call) and isinstance(s.value.func, ast.Name) and s.value.func.id in ("print", "pprint"):
            self.ctx.dropped.append("print call at line %d" % s.lineno)
            return [("fall", st, None)]
        self.ev(s.value, st)
        return [("fall", st, None)]

    def st_Assert(self, s, st):
        c = truth(self.ev(s.test, st))
        self.ctx.oblige("assert", c, st, s, "", SAFETY_TAG, note="AssertionError")
        if c is False:
            return []
        if not isinstance(c, bool):
            st.pc.append(c)
        return [("fall", st, None)]

    def st_Raise(self, s, st):
        allowed = self.ctx.contract.options.get("allowed_raises", ())
        tag = ast.unparse(s.exc) if s.exc is not None else "re-raise"
        if not any(a in tag for a in allowed):
            self.ctx.oblige("raise_unreachable", False, st, s, "", SAFETY_TAG, note="raise " + tag)
        return [("raise", st, tag)]

    def st_Return(self, s, st):
        v = self.ev(s.value, st) if s.value is not None else None
        return [("ret", st, v)]

    def st_Break(self, s, st):
        return [("brk", st, None)]

    def st_Continue(self, s, st):
        return [("cont", st, None)]

    def st_Assign(self, s, st):
        if isinstance(s.value, (ast.DictComp, ast.ListComp, ast.SetComp, ast.GeneratorExp)) and self.dead_targets(s):
            # a comprehension whose value is never read anywhere in the function: dropped (comprehensions have no side effects here)
            self.ctx.dropped.append("dead assignment `%s = <comprehension>` at line %d (target never read in the function)"
                                    % (ast.unparse(s.targets[0]), s.lineno))
            return [("fall", st, None)]
        v = self.ev(s.value, st)
        for t in s.targets:
            self.assign(t, v, st, s)
        return [("fall", st, None)]

    def dead_targets(self, s):
        names = []
        for t in s.targets:
            if not isinstance(t, ast.Name):
                return False
            names.append(t.id)
        fn = self.ctx.fn
        for n in ast.walk(fn):
            if isinstance(n, ast.Name) and isinstance(n.ctx, ast.Load) and n.id in names:
                return False
        return True

    def st_AnnAssign(self, s, st):
        if s.value is not None:
            self.assign(s.target, self.ev(s.value, st), st, s)
        return [("fall", st, None)]

    def st_AugAssign(self, s, st):
        load = ast.copy_location(_as_load(s.target), s)
        cur = self.ev(load, st)
        v = self.binop(OPS[type(s.op)], cur, self.ev(s.value, st), st, s)
        self.assign(s.target, v, st, s)
        return [("fall", st, None)]

    def assign(self, t, v, st, node):
        if isinstance(t, ast.Name):
            st.locals[t.id] = v
            return
        if isinstance(t, (ast.Tuple, ast.List)):
            if isinstance(v, Opaque):
                for k, e in enumerate(t.elts):
                    self.assign(e, Opaque("%s[%d]" % (v.tag, k)), st, node)
                return
            if not isinstance(v, TupleV) or len(v.items) != len(t.elts):
                raise ToolLimit("tuple unpack mismatch at line %s" % node.lineno)
            for e, x in zip(t.elts, v.items):
                self.assign(e, x, st, node)
            return
        if isinstance(t, ast.Attribute):
            base = self.ev(t.value, st)
            if not isinstance(base, Ref) or not isinstance(st.heap.get(base.oid), ObjRec):
                raise ToolLimit("attribute store on %r (line %s)" % (base, node.lineno))
            rec = st.heap[base.oid]
            self.check_store_allowed(rec, t.attr, st, node)
            st.heap[base.oid] = rec.with_field(t.attr, v)
            return
        if isinstance(t, ast.Subscript):
            base = self.ev(t.value, st)
            rec = self.arr(st, base)
            if rec is not None and rec.conc is not None:
                idx = self.ev(t.slice, st)
                if isinstance(idx, float) and idx == int(idx):
                    idx = int(idx)
                if not (-len(rec.conc) <= idx < len(rec.conc)):
                    raise ConcreteError("IndexError")
                if not (rec.fresh or rec.writable):
                    raise ConcreteError("ValueError: assignment destination is read-only")
                new = list(rec.conc)
                new[idx] = float(v) if rec.elem == "Real" else v
                st.heap[base.oid] = ArrRec(None, len(new), rec.elem, rec.writable, rec.fresh, rec.name, conc=new)
                return
            if rec is not None:
                if isinstance(t.slice, ast.Slice):
                    raise ToolLimit("slice store (line %s)" % node.lineno)
                idx = self.ev(t.slice, st)
                idx = self.norm_index(idx, rec, st, node)
                if not (rec.fresh or rec.writable):
                    self.ctx.oblige("frame", False, st, node, rec.name, ("C12",),
                                    note="store into %s, which the contract's assigns clause does not allow" % rec.name)
                want_real = rec.elem == "Real"
                st.heap[base.oid] = rec.with_term(z3.Store(rec.term, z(idx), z(V.bool_as_num(v), want_real)))
                return
            if isinstance(base, Ref) and isinstance(st.heap.get(base.oid), ObjRec) and st.heap[base.oid].cls.startswith("List["):
                idx = self.ev(t.slice, st)
                key = "[%s]" % (idx.tag if isinstance(idx, Opaque) else (str(z3.simplify(z(idx))) if is_sym(idx) else str(idx)))
                lrec = st.heap[base.oid]
                self.check_store_allowed(lrec, key, st, node)
                st.heap[base.oid] = lrec.with_field(key, v)
                return
            if isinstance(base, Ref) and isinstance(st.heap.get(base.oid), TableRec):
                tr = st.heap[base.oid]
                sl = t.slice
                if isinstance(sl, ast.Tuple):
                    row = self.ev(sl.elts[0], st)
                    colslice = ast.unparse(sl.elts[1])
                else:
                    row = self.ev(sl, st)
                    colslice = ":"
                st.heap[base.oid] = TableRec(tr.name, tr.writes + [(row, colslice, v)])
                return
            raise ToolLimit("subscript store on %r (line %s)" % (base, node.lineno))
        raise ToolLimit("assignment target %s" % type(t).__name__)

    def check_store_allowed(self, rec, attr, st, node):
        if rec.name.startswith("ite("):
            raise ToolLimit("store through a conditional object (%s)" % rec.name)
        if rec.fresh or not rec.lazy:
            return
        if self.ctx.contract.field_writable(rec.name, attr):
            return
        self.ctx.oblige("frame", False, st, node, "%s.%s" % (rec.name, attr), ("C12",),
                        note="store into %s.%s, which the contract's assigns clause does not allow" % (rec.name, attr))

    def opaque_block(self, s):
        blocks = self.ctx.contract.options.get("opaque_blocks")
        if not blocks or self.ctx.cur_func.split("[")[0] != self.ctx.contract.name:
            return None
        txt = ast.unparse(s.test)
        for bi, b in enumerate(blocks):
            if txt.startswith(b["test_prefix"]):
                self.ctx.__dict__.setdefault("opaque_used", set()).add(bi)
                return b
        return None

    def st_If(self, s, st):
        ob = self.opaque_block(s)
        if ob is not None:
            # the body of this `if` is NOT verified (trusted block): its declared frame is havocked under the condition
            c = truth(self.ev(s.test, st))
            if c is False:
                return [("fall", st, None)]
            s1 = st.copy()
            if c is not True:
                s1.pc.append(c)
            for loc in ob["havoc"]:
                tgt = ast.parse(loc, mode="eval").body
                cur = self.ev(tgt, s1.copy())
                so = V.sort_of(cur)
                if so is None:
                    raise ToolLimit("opaque block: cannot havoc %s" % loc)
                tgt.ctx = ast.Store()
                self.assign(tgt, self.ctx.fresh("opaque_" + loc.replace(".", "_"), so), s1, s)
            self.ctx.tool_notes.append("the body of `if %s` (line %d) is a TRUSTED block: not verified, frame %s havocked" % (ast.unparse(s.test)[:50], s.lineno, ob["havoc"]))
            if c is True:
                return [("fall", s1, None)]
            s2 = st.copy()
            s2.pc.append(z3.Not(c))
            m = merge_two(c, s1, s2, len(st.pc))
            return [("fall", m, None)] if m is not None else [("fall", s1, None), ("fall", s2, None)]
        c = truth(self.ev(s.test, st))
        if isinstance(c, bool):
            return self.exec_block(s.body if c else s.orelse, st)
        s1 = st.copy()
        s1.pc.append(c)
        s2 = st.copy()
        s2.pc.append(z3.Not(c))
        k = len(st.pc)
        res = []
        for blk, ss in ((s.body, s1), (s.orelse, s2)):
            try:
                res.append(self.exec_block(blk, ss))
            except ToolLimit:
                if self.path_dead(ss):
                    self.ctx.dead_paths += 1
                    res.append([])
                    continue
                raise
        falls_t = [o for o in res[0] if o[0] == "fall"]
        falls_f = [o for o in res[1] if o[0] == "fall"]
        others = [o for o in res[0] + res[1] if o[0] != "fall"]
        if self.ctx.merge_enabled and len(falls_t) == 1 and len(falls_f) == 1 and self.small_enough(s):
            ft, ff = falls_t[0][1], falls_f[0][1]
            m = merge_two(c, ft, ff, k)
            if m is not None:
                self.ctx.merges += 1
                return [("fall", m, None)] + others
        return falls_t + falls_f + others

    def small_enough(self, s):
        lim = self.ctx.contract.options.get("merge_limit")
        if lim is None:
            return True
        n = sum(1 for x in ast.walk(s) if isinstance(x, ast.stmt))
        return n <= lim

    # ---- loops
    def st_For(self, s, st):
        from . import loops
        return loops.exec_for(self, s, st)

    def st_While(self, s, st):
        from . import loops
        return loops.exec_while(self, s, st)

    # ------------------------------------------------------------------ merging
    def merge_states(self, states):
        if len(states) <= 1 or not self.ctx.merge_enabled or self.ctx.contract.options.get("merge_limit") is not None:
            return states
        m = try_merge(states)
        if m is None:
            return states
        self.ctx.merges += 1
        return [m]


def select_term(a, j):
    """select pushed through store / ite / constant arrays at construction time (keeps terms small)."""
    if z3.is_app(a):
        k = a.decl().kind()
        if k == z3.Z3_OP_STORE:
            i, v = a.arg(1), a.arg(2)
            if i.eq(j):
                return v
            if z3.is_int_value(i) and z3.is_int_value(j):
                return select_term(a.arg(0), j)
            d = z3.simplify(i - j)
            if z3.is_int_value(d):
                return v if d.as_long() == 0 else select_term(a.arg(0), j)
            return z3.If(i == j, v, select_term(a.arg(0), j))
        if k == z3.Z3_OP_ITE:
            x, y = select_term(a.arg(1), j), select_term(a.arg(2), j)
            return x if x.eq(y) else z3.If(a.arg(0), x, y)
        if k == z3.Z3_OP_CONST_ARRAY:
            return a.arg(0)
    return z3.Select(a, j)


def merge_two(c, ft, ff, k):
    """Join of the two fall-through states of `if c:`.  The common part of the two path conditions is found by identity
    (a loop cut inside a branch may have garbage-collected facts, so positions are not reliable)."""
    kk = common_prefix_len([ft.pc, ff.pc])
    nc = z3.Not(c)
    et = [f for f in ft.pc[kk:] if not (f is c or (isinstance(f, z3.ExprRef) and f.eq(c)))]
    ef = [f for f in ff.pc[kk:] if not (isinstance(f, z3.ExprRef) and f.eq(nc))]
    # facts present in both tails (same object) stay unconditional
    ids_t = {f.get_id() for f in et if isinstance(f, z3.ExprRef)}
    both = [f for f in ef if isinstance(f, z3.ExprRef) and f.get_id() in ids_t]
    ids_b = {f.get_id() for f in both}
    et = [f for f in et if not (isinstance(f, z3.ExprRef) and f.get_id() in ids_b)]
    ef = [f for f in ef if not (isinstance(f, z3.ExprRef) and f.get_id() in ids_b)]
    m = try_merge([ft, ff], conds_override=[c, nc], prefix_len=kk)
    if m is None:
        return None
    pc = list(ft.pc[:kk]) + both
    if et:
        pc.append(z3.Implies(c, z3.And(*et) if len(et) > 1 else et[0]))
    if ef:
        pc.append(z3.Implies(nc, z3.And(*ef) if len(ef) > 1 else ef[0]))
    m.pc = pc
    return m


def common_prefix_len(pcs):
    n = min(len(p) for p in pcs)
    k = 0
    while k < n:
        e = pcs[0][k]
        if all(p[k] is e or (isinstance(p[k], z3.ExprRef) and p[k].eq(e)) for p in pcs[1:]):
            k += 1
        else:
            break
    return k


def try_merge(states, conds_override=None, prefix_len=None):
    pcs = [s.pc for s in states]
    k = common_prefix_len(pcs) if prefix_len is None else prefix_len
    conds = []
    for s in states:
        rest = s.pc[k:]
        conds.append(z3.And(*rest) if len(rest) > 1 else (rest[0] if rest else z3.BoolVal(True)))
    if conds_override is not None:
        conds = conds_override
    out = states[0].copy()
    out.pc = list(states[0].pc[:k]) + [z3.Or(*conds) if len(conds) > 1 else conds[0]]
    try:
        names = []
        for s in states:
            for n in s.locals:
                if n not in names:
                    names.append(n)
        for n in names:
            out.locals[n] = merge_vals([s.locals.get(n, UNBOUND) for s in states], conds)
        oids = []
        for s in states:
            for o in s.heap:
                if o not in oids:
                    oids.append(o)
        for o in oids:
            recs = [s.heap.get(o) for s in states]
            present = [r for r in recs if r is not None]
            if len(present) < len(recs):
                # allocated (or lazily created) in some branches only
                if all(isinstance(r, ObjRec) and r.lazy for r in present) or all(isinstance(r, ArrRec) and not r.fresh for r in present):
                    base = present[0]
                    if isinstance(base, ObjRec):
                        recs = [r if r is not None else ObjRec(base.cls, {}, base.name, True, base.writable) for r in recs]
                    else:
                        init = ArrRec(z3.Array(base.name, z3.IntSort(), z3.RealSort() if base.elem == "Real" else z3.IntSort()),
                                      base.length, base.elem, base.writable, False, base.name)
                        recs = [r if r is not None else init for r in recs]
                else:
                    out.heap[o] = present[0]
                    if len(present) > 1 and not all(p is present[0] for p in present):
                        return None
                    continue
            r0 = recs[0]
            if all(r is r0 for r in recs):
                out.heap[o] = r0
                continue
            if isinstance(r0, ArrRec):
                t = recs[-1].term
                for r, c in zip(reversed(recs[:-1]), reversed(conds[:-1])):
                    t = r.term if r.term.eq(t) else z3.If(c, r.term, t)
                ln = r0.length
                if not all(same_value(r.length, ln) for r in recs):
                    return None
                out.heap[o] = r0.with_term(t)
            elif isinstance(r0, ObjRec):
                fields = []
                for r in recs:
                    for f in r.fields:
                        if f not in fields:
                            fields.append(f)
                nf = {}
                for f in fields:
                    vals = []
                    for r in recs:
                        if f in r.fields:
                            vals.append(r.fields[f])
                        elif r.lazy:
                            vals.append(LAZY)
                        else:
                            vals.append(UNBOUND)
                    if any(v is LAZY for v in vals):
                        # a lazy (input) field first touched in some branch only: its value there is the initial constant,
                        # unless it was written; initial constants are functions of the name, so re-create it
                        init = None
                        for v in vals:
                            if v is not LAZY and not isinstance(v, MaybeUnbound):
                                pass
                        init = _lazy_init(r0, f, states, o)
                        vals = [init if v is LAZY else v for v in vals]
                    nf[f] = merge_vals(vals, conds)
                o2 = ObjRec(r0.cls, nf, r0.name, r0.lazy, r0.writable, r0.fresh)
                out.heap[o] = o2
            elif isinstance(r0, TableRec):
                if all(len(r.writes) == len(r0.writes) for r in recs):
                    ws = []
                    for i in range(len(r0.writes)):
                        rows = [r.writes[i][0] for r in recs]
                        sl = r0.writes[i][1]
                        if not all(r.writes[i][1] == sl for r in recs):
                            return None
                        ws.append((merge_vals(rows, conds), sl, merge_vals([r.writes[i][2] for r in recs], conds)))
                    out.heap[o] = TableRec(r0.name, ws)
                else:
                    return None
            else:
                return None
    except _NoMerge:
        return None
    return out


class _Lazy:
    pass


LAZY = _Lazy()


class _NoMerge(Exception):
    pass


def _lazy_init(rec, f, states, oid):
    from .spec import field_type
    ty = field_type(rec.cls, f)
    name = "%s.%s" % (rec.name, f)
    if ty == "Real":
        return z3.Real(name)
    if ty == "Int":
        return z3.Int(name)
    if ty == "Bool":
        return z3.Bool(name)
    # reference-typed lazy field touched (possibly re-bound) in some branch only: the untouched branches still denote the INITIAL
    # object, which this function cannot name -> do not merge these states
    raise _NoMerge()


def merge_vals(vals, conds):
    v0 = vals[0]
    if all(same_value(v, v0) for v in vals[1:]) and not isinstance(v0, (MaybeUnbound, V.Unbound)):
        return v0
    if all(v is UNBOUND for v in vals):
        return UNBOUND
    # tuples: element-wise
    if all(isinstance(v, TupleV) for v in vals):
        n = len(v0.items)
        if all(len(v.items) == n for v in vals):
            return TupleV([merge_vals([v.items[i] for v in vals], conds) for i in range(n)], v0.kind)
        raise _NoMerge()
    bound_conds, bvals, bconds = [], [], []
    for v, c in zip(vals, conds):
        if v is UNBOUND:
            continue
        if isinstance(v, MaybeUnbound):
            bound_conds.append(z3.And(c, z(v.cond)))
            bvals.append(v.val)
            bconds.append(c)
        else:
            bound_conds.append(c)
            bvals.append(v)
            bconds.append(c)
    partial = len(bvals) < len(vals) or any(isinstance(v, MaybeUnbound) for v in vals)
    r = bvals[-1]
    for v, c in zip(reversed(bvals[:-1]), reversed(bconds[:-1])):
        if same_value(v, r):
            continue
        if isinstance(v, (Ref, Opaque, FuncV, ModV)) or isinstance(r, (Ref, Opaque, FuncV, ModV)) or v is None or r is None \
                or isinstance(v, str) or isinstance(r, str) or isinstance(v, TupleV) or isinstance(r, TupleV):
            raise _NoMerge()
        r = ite(c, v, r)
    if partial:
        return MaybeUnbound(z3.Or(*bound_conds) if len(bound_conds) > 1 else bound_conds[0], r)
    return r


def _as_load(t):
    t2 = ast.parse(ast.unparse(t), mode="eval").body
    return t2


OPS = {ast.Add: "+", ast.Sub: "-", ast.Mult: "*", ast.Div: "/", ast.FloorDiv: "//", ast.Mod: "%", ast.Pow: "**",
       ast.Eq: "==", ast.NotEq: "!=", ast.Lt: "<", ast.LtE: "<=", ast.Gt: ">", ast.GtE: ">=", ast.Is: "is", ast.IsNot: "is not",
       ast.In: "in", ast.NotIn: "not in"}

BUILTINS = {"min", "max", "abs", "round", "int", "float", "len", "range", "bool", "print", "sum", "str", "isinstance", "list", "tuple", "setattr"}
