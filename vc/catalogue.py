"""Catalogue obligation: the static clauses of valid_crop (the crop preconditions the step contract assumes) are evaluated
concretely for every built-in crop of crop_params.py (a pure dict literal, read with ast.literal_eval on every run) completed with the
defaults Crop.__init__ assigns.  Exhaustive over the 37 crops.  Clauses over fields computed at initialisation (calendar in days,
HIGC, fCO2 ...) are skipped and counted."""
import ast
import os
import json
import sys

from . import values as V
from .values import Ref, ToolLimit
from .interp import Ctx, Interp, State, ArrRec, ObjRec, find_function, REPO
from .spec import Contract, REGISTRY, eval_clause

COMPUTED = {"MaxCanopyCD", "HIstartCD", "FloweringCD", "YldFormCD", "HIGC", "tLinSwitch", "dHILinear", "fCO2", "MaturityCD", "CanopyDevEndCD", "HIendCD"}


def crop_defaults():
    fn = find_function("aquacrop/entities/crop.py", "Crop.__init__")
    d = {}
    for st in fn.body:
        if isinstance(st, ast.Assign) and len(st.targets) == 1 and isinstance(st.targets[0], ast.Attribute) and isinstance(st.value, (ast.Constant, ast.BinOp, ast.UnaryOp)):
            try:
                d[st.targets[0].attr] = eval(compile(ast.Expression(st.value), "<d>", "eval"), {})
            except Exception:
                pass
    return d


def main():
    V.FLOATMODE = True
    import importlib
    sys.path.insert(0, os.path.dirname(os.path.dirname(os.path.abspath(__file__))))
    from contracts import step
    src = open(os.path.join(REPO, "aquacrop/entities/crops/crop_params.py")).read()
    tree = ast.parse(src)
    params = None
    for n in tree.body:
        if isinstance(n, ast.Assign) and isinstance(n.targets[0], ast.Name) and n.targets[0].id == "crop_params":
            params = ast.literal_eval(n.value)
    defaults = crop_defaults()
    clauses = [c.format(c="C") for c in step.VALID_CROP("{c}")]
    c = Contract("<catalogue>", "catalogue", params={}, options={"harness_src": "def f():\n pass"})
    ctx = Ctx(REGISTRY, c, "<catalogue>", ast.parse("def f():\n pass").body[0])
    ctx.concrete = True
    I = Interp(ctx)
    report = {}
    skipped = set()
    nviol = 0
    for name, p in sorted(params.items()):
        vals = dict(defaults)
        vals.update(p)
        vals["CC0"] = vals["PlantPop"] * vals["SeedSize"] * 1e-8
        if vals.get("CalendarType") == 1:
            # calendar-day crops: compute_crop_calendar takes the canopy rates from the *_CD entries
            vals["CGC"] = vals.get("CGC_CD", vals["CGC"])
            vals["CDC"] = vals.get("CDC_CD", vals["CDC"])
        st = State()
        fields = {}
        for k, v in vals.items():
            if isinstance(v, (int, float)) and not isinstance(v, bool):
                fields[k] = v
        for arr, keys in (("p_up", ["p_up1", "p_up2", "p_up3", "p_up4"]), ("p_lo", ["p_lo1", "p_lo2", "p_lo3", "p_lo4"]), ("fshape_w", ["fshape_w1", "fshape_w2", "fshape_w3", "fshape_w4"])):
            oid = ctx.new_oid()
            st.heap[oid] = ArrRec(None, 4, "Real", conc=[float(vals[k]) for k in keys], name=arr)
            fields[arr] = Ref(oid)
        oid = ctx.new_oid()
        st.heap[oid] = ObjRec("Crop", fields, name="C", lazy=False)
        st.locals["C"] = Ref(oid)
        bad = []
        for cl in clauses:
            if any(("C." + f) in cl for f in COMPUTED):
                skipped.add(cl)
                continue
            try:
                ok = eval_clause(I, cl, st, 0)
            except Exception as e:
                ok = "error %r" % (e,)
            if ok is not True:
                bad.append(cl if ok is False else "%s -> %s" % (cl, ok))
        report[name] = bad
        nviol += len(bad)
    return dict(crops=len(params), clauses_checked=len(clauses) - len(skipped), clauses_skipped_computed_at_init=sorted(skipped), violations=report, n_violations=nviol)


if __name__ == "__main__":
    r = main()
    for k, v in r["violations"].items():
        if v:
            print(k, v)
    print("crops", r["crops"], "clauses", r["clauses_checked"], "violations", r["n_violations"])
