"""Lemma library about the spec sum  wsum(d, a, k) = sum_{j<k} 1000*d[j]*a[j],  each proved here by induction on k
(base + step VCs discharged by z3 on every run; the induction rule over the naturals is the only meta-step).

  sum_update : wsum(d, store(a,i,v), k) = wsum(d,a,k) + (1000*d[i]*(v-a[i]) if 0<=i<k else 0)      [used as a rewrite in solve.expand_arrays]
  sum_le     : (forall j in [0,k): d[j] >= 0 and a[j] <= b[j])  =>  wsum(d,a,k) <= wsum(d,b,k)       [spec function sum_le(d,a,b,k)]
  sum_ext    : (forall j in [0,k): a[j] == b[j])  =>  wsum(d,a,k) == wsum(d,b,k)                     [spec function sum_ext(d,a,b,k)]
"""
import z3

A = z3.ArraySort(z3.IntSort(), z3.RealSort())
W = z3.Function("wsum", A, A, z3.IntSort(), z3.RealSort())
M = z3.RealVal(1000)


def _defn(d, a, k):
    """the recursive definition instantiated at k (k >= 0): wsum(d,a,k+1) = wsum(d,a,k) + 1000 d[k] a[k];  wsum(d,a,0)=0"""
    return z3.And(W(d, a, 0) == 0, z3.Implies(k >= 0, W(d, a, k + 1) == W(d, a, k) + M * d[k] * a[k]))


def prove(name, hyps, goal, timeout=20000):
    s = z3.Solver()
    s.set("timeout", timeout)
    s.add(*hyps)
    s.add(z3.Not(goal))
    r = s.check()
    return (name, str(r))


def check_all():
    d, a, b = z3.Array("d", z3.IntSort(), z3.RealSort()), z3.Array("a", z3.IntSort(), z3.RealSort()), z3.Array("b", z3.IntSort(), z3.RealSort())
    k, i, j = z3.Int("k"), z3.Int("i"), z3.Int("j")
    v = z3.Real("v")
    out = []
    # ---- sum_update
    a2 = z3.Store(a, i, v)
    rhs = lambda kk: W(d, a, kk) + z3.If(z3.And(i >= 0, i < kk), M * d[i] * (v - a[i]), 0)
    out.append(prove("sum_update.base", [_defn(d, a, k), _defn(d, a2, k)], W(d, a2, 0) == rhs(z3.IntVal(0))))
    out.append(prove("sum_update.step", [k >= 0, _defn(d, a, k), _defn(d, a2, k), W(d, a2, k) == rhs(k)], W(d, a2, k + 1) == rhs(k + 1)))
    # ---- sum_le
    P = lambda kk: z3.ForAll([j], z3.Implies(z3.And(j >= 0, j < kk), z3.And(d[j] >= 0, a[j] <= b[j])))
    out.append(prove("sum_le.base", [_defn(d, a, k), _defn(d, b, k)], W(d, a, 0) <= W(d, b, 0)))
    out.append(prove("sum_le.step", [k >= 0, _defn(d, a, k), _defn(d, b, k), z3.Implies(P(k), W(d, a, k) <= W(d, b, k)), P(k + 1)],
                     W(d, a, k + 1) <= W(d, b, k + 1)))
    # ---- sum_ext
    Q = lambda kk: z3.ForAll([j], z3.Implies(z3.And(j >= 0, j < kk), a[j] == b[j]))
    out.append(prove("sum_ext.base", [_defn(d, a, k), _defn(d, b, k)], W(d, a, 0) == W(d, b, 0)))
    out.append(prove("sum_ext.step", [k >= 0, _defn(d, a, k), _defn(d, b, k), z3.Implies(Q(k), W(d, a, k) == W(d, b, k)), Q(k + 1)],
                     W(d, a, k + 1) == W(d, b, k + 1)))
    # ---- ite over arrays distributes (used by the rewrite): trivial congruence, checked for completeness
    c = z3.Bool("c")
    out.append(prove("wsum_ite", [], W(d, z3.If(c, a, b), k) == z3.If(c, W(d, a, k), W(d, b, k))))
    return out


if __name__ == "__main__":
    for n, r in check_all():
        print(n, r)
