"""E2 store scan (syntactic, whole package): every heap store site (attribute / subscript assignment, augmented assignment, in-place
method such as .append/.update/.loc[...]=) of every function in /repo/aquacrop is classified by the root name of its target:
  local      - a name bound inside the function to a fresh object (constructor call, literal, copy) or to a loop variable
  self       - the function's own instance
  param:<p>  - an object reachable from parameter p            (allowed only if the declared frame of the function lists p)
  global:<g> - a module-level name / imported object           (never allowed: shared state between runs and instances)
  default    - a parameter whose default is a mutable literal and which is stored into or kept by reference (never allowed)
"""
import ast
import os

_LIB_MODULES = {"np", "numpy", "pd", "pandas", "os", "math", "sys", "datetime", "warnings", "logging", "time", "typing"}
MUTATING_METHODS = {"append", "extend", "insert", "pop", "remove", "clear", "update", "setdefault", "sort", "reverse", "fill", "__setattr__", "__setitem__"}


def root_name(node):
    while isinstance(node, (ast.Attribute, ast.Subscript, ast.Call)):
        node = node.value if not isinstance(node, ast.Call) else node.func
    return node.id if isinstance(node, ast.Name) else None


def scan_function(fn, module_names):
    params = [a.arg for a in fn.args.args + fn.args.kwonlyargs]
    fresh_locals = set()
    fresh_line = {}
    alias_of_param = {}
    alias_of_global = {}     # local name -> module-level object it refers to (x = G[k], x = G.attr, x = G): stores through it hit shared state
    sites = []

    def is_copying_index(v):
        # a[mask] with a boolean-mask / comparison index allocates a copy (numpy); plain slices and integer indices are views
        return isinstance(v, ast.Subscript) and isinstance(v.slice, (ast.Compare, ast.BoolOp, ast.Call))

    # block path of every statement: the enclosing compound statements inside the function (an assignment only "kills" an earlier alias of the
    # same name if it executes on every path that the alias assignment is on, i.e. its block path is a prefix of the alias's block path)
    block_path = {}
    def _walk(body, path):
        for st_ in body:
            block_path[id(st_)] = path
            for fld in ("body", "orelse", "finalbody"):
                sub = getattr(st_, fld, None)
                if isinstance(sub, list) and sub and isinstance(sub[0], ast.stmt):
                    _walk(sub, path + ((id(st_), fld),))
            for h in getattr(st_, "handlers", []) or []:
                _walk(h.body, path + ((id(st_), "handler%d" % id(h)),))
    _walk(fn.body, ())
    class _LoopBind:      # `for x in <objects>`: x is bound to each element in turn (an alias of whatever the elements are rooted in)
        def __init__(self, node, value):
            self.targets, self.value, self.lineno, self.node = [node.target], value, node.lineno, node
    _binds = [n for n in ast.walk(fn) if isinstance(n, ast.Assign) and len(n.targets) == 1 and isinstance(n.targets[0], ast.Name)]
    for n in ast.walk(fn):
        if isinstance(n, ast.For) and isinstance(n.target, ast.Name):
            elts = n.iter.elts if isinstance(n.iter, (ast.Tuple, ast.List)) else [n.iter]
            for e in elts:
                if isinstance(e, (ast.Name, ast.Attribute, ast.Subscript)):
                    lb = _LoopBind(n, e)
                    block_path[id(lb)] = block_path.get(id(n), ())
                    _binds.append(lb)
                    break
    assigns = sorted(_binds, key=lambda x: x.lineno)

    def bindings_before(line):
        """Replay the simple name bindings that precede `line` (source order; loops are not iterated): which local names may still refer to a
        parameter / module-level object, which are bound to fresh objects."""
        alias_of_param, alias_of_global, fresh_locals, fresh_line, alias_path = {}, {}, set(), {}, {}
        for n in assigns:
            if n.lineno >= line:
                break
            t = n.targets[0].id
            v = n.value
            r = root_name(v) if isinstance(v, (ast.Name, ast.Attribute, ast.Subscript)) and not is_copying_index(v) else None
            if r is not None and (r in alias_of_param or (r in params and not (r in fresh_line and fresh_line[r] < n.lineno))):
                alias_of_param[t] = alias_of_param.get(r, r)      # NewCond = InitCond ; prof = Soil.Profile ; view slices
                alias_path[t] = block_path.get(id(n), ())
                alias_of_global.pop(t, None)
            elif r is not None and r not in params and r not in fresh_locals and (r in alias_of_global or (r in module_names and r not in _LIB_MODULES)):
                alias_of_global[t] = alias_of_global.get(r, r)    # params = crop_params[c_name]
                alias_path[t] = block_path.get(id(n), ())
                alias_of_param.pop(t, None)
            else:
                fresh_locals.add(t)
                fresh_line.setdefault(t, n.lineno)
                here = block_path.get(id(n), ())
                ap = alias_path.get(t)
                if ap is None or ap[:len(here)] == here:
                    # this fresh binding executes whenever the alias binding did (same block or an enclosing one): the alias is gone
                    alias_of_param.pop(t, None)
                    alias_of_global.pop(t, None)
                    alias_path.pop(t, None)
                # otherwise (e.g. re-bound only inside an `if`) the name may still refer to the parameter / module-level object afterwards
        return alias_of_param, alias_of_global, fresh_locals, fresh_line

    def classify(target):
        r = root_name(target)
        if r is None:
            return "unknown"
        if r == "self":
            return "self"
        line = getattr(target, "lineno", 10 ** 9)
        alias_of_param, alias_of_global, fresh_locals, fresh_line = bindings_before(line)
        if r in alias_of_param:
            return "param:" + alias_of_param[r]
        if r in alias_of_global:
            return "global:" + alias_of_global[r]
        if r in params and r in fresh_line and fresh_line[r] < line:
            return "local"          # parameter name re-bound to a fresh object (x = x.copy()) before this store
        if r in params:
            return "param:" + r
        if r in fresh_locals:
            return "local"
        if r in module_names:
            return "global:" + r
        return "local"
    for n in ast.walk(fn):
        tgts = []
        if isinstance(n, ast.Assign):
            tgts = n.targets
        elif isinstance(n, (ast.AugAssign, ast.AnnAssign)):
            tgts = [n.target]
        for t in tgts:
            for e in (t.elts if isinstance(t, (ast.Tuple, ast.List)) else [t]):
                if isinstance(e, (ast.Attribute, ast.Subscript)):
                    sites.append((n.lineno, ast.unparse(e)[:60], classify(e)))
        if isinstance(n, ast.Call) and isinstance(n.func, ast.Attribute) and n.func.attr in MUTATING_METHODS \
                and root_name(n.func.value) not in ("np", "numpy", "pd", "pandas", "os", "math"):
            sites.append((n.lineno, ast.unparse(n.func)[:60] + "()", classify(n.func.value)))
    # mutable defaults kept by reference
    defaults = fn.args.defaults
    pos = fn.args.args[len(fn.args.args) - len(defaults):]
    for a, d in zip(pos, defaults):
        if isinstance(d, (ast.List, ast.Dict, ast.Set)):
            for n in ast.walk(fn):
                if isinstance(n, ast.Assign) and isinstance(n.value, ast.Name) and n.value.id == a.arg:
                    sites.append((n.lineno, "%s = %s (mutable default kept by reference)" % (ast.unparse(n.targets[0]), a.arg), "default"))
    return sites


def scan_package(repo):
    out = {}
    root = os.path.join(repo, "aquacrop")
    for dp, dn, fns in os.walk(root):
        for f in sorted(fns):
            if not f.endswith(".py"):
                continue
            path = os.path.join(dp, f)
            rel = os.path.relpath(path, repo)
            tree = ast.parse(open(path).read())
            module_names = set()
            for n in tree.body:
                if isinstance(n, (ast.Import, ast.ImportFrom)):
                    for a in n.names:
                        module_names.add((a.asname or a.name).split(".")[0])
                elif isinstance(n, ast.Assign):
                    for t in n.targets:
                        if isinstance(t, ast.Name):
                            module_names.add(t.id)
            for n in ast.walk(tree):
                if isinstance(n, ast.FunctionDef):
                    sites = scan_function(n, module_names)
                    if sites:
                        out["%s::%s" % (rel, n.name)] = sites
    return out


def summary(repo):
    """function -> sorted list of non-local store classes"""
    res = scan_package(repo)
    out = {}
    for k, sites in res.items():
        cls = sorted({c for _, _, c in sites if c not in ("local", "self")})
        if cls:
            out[k] = cls
    return out


if __name__ == "__main__":
    import sys, collections
    res = scan_package(sys.argv[1] if len(sys.argv) > 1 else "/repo")
    agg = collections.Counter()
    for k, sites in sorted(res.items()):
        cls = sorted({c for _, _, c in sites if c not in ("local", "self")})
        if cls:
            print(k, cls)
        for _, _, c in sites:
            agg[c.split(":")[0]] += 1
    print(agg)
