"""Contract language: side-car contracts attached by file + qualified name to real functions in /repo.

Clauses are Python-syntax expression strings evaluated by the same expression evaluator as the code,
in `spec` mode (no safety obligations), extended with
    old(e)                      value of e in the function's entry state
    forall(j, lo, hi, body)     bounded universal quantifier over Int j in [lo, hi)
    exists(j, lo, hi, body)
    implies(a, b), iff(a, b)
    wsum(dz, a, k)              sum_{j<k} 1000*dz[j]*a[j]   (uninterpreted + instantiated axioms/lemmas)
    exp(x), log(x)              the same uninterpreted functions the code's np.exp/np.log map to
    result                      the return value (tuple components are named by `returns`)
    fresh(a), same(a, b)        reference predicates
"""
import ast
import z3
from . import values as V
from .values import Ref, TupleV, ToolLimit, z, b_and, b_or, b_not, b_implies, compare, truth

NOT_SPEC = object()

F_WSUM = z3.Function("wsum", z3.ArraySort(z3.IntSort(), z3.RealSort()), z3.ArraySort(z3.IntSort(), z3.RealSort()), z3.IntSort(), z3.RealSort())

F_EFAC = z3.Function("efac", z3.RealSort(), z3.ArraySort(z3.IntSort(), z3.RealSort()))

F_FIN = z3.Function("fin", z3.IntSort(), z3.BoolSort())

SPEC_FUNCS = {"only_element_read", "fin", "count_lt", "count_le", "evw", "sum_le", "sum_ext", "old", "forall", "exists", "implies", "iff", "wsum", "exp", "log", "fresh", "same", "ite", "length", "pow", "written", "nwrites", "at_loop_entry", "divides", "is_int", "rdepth"}


class Contract:
    def __init__(self, file, name, params, requires=(), ensures=(), returns=None, loops=None, assigns=(), options=None,
                 cases=None, props=(), ghost=None, trusted=False, note=""):
        self.file, self.name = file, name
        self.params = params            # ordered dict name -> type
        self.requires = list(requires)  # [str] or [(id, str)]
        self.ensures = list(ensures)    # [(id, str)]
        self.returns = returns          # [(name, type)] for tuple results, or [(name,type)] single
        self.loops = loops or {}        # label -> dict(invariant=[...], decreases=..., havoc_extra=[...])
        self.assigns = list(assigns)    # ["NewCond.th[*]", "NewCond.dap", "NewCond.*"]
        self.options = options or {}
        self.cases = cases or [{}]      # concrete parameter instantiations (e.g. string modes)
        self.props = tuple(props)
        self.ghost = ghost or {}
        self.trusted = trusted
        self.note = note

    @property
    def key(self):
        return (self.file, self.name)

    def field_writable(self, objname, attr):
        """Is `objname.attr` (a parameter object's field, dotted path from the parameter) covered by the assigns clause?"""
        full = "%s.%s" % (objname, attr)
        for a in self.assigns:
            a0 = a.replace("[*]", "")
            if a0 == full or a0 == objname + ".*" or full.startswith(a0 + "."):
                return True
            if a0.endswith(".**") and full.startswith(a0[:-3]):
                return True
        return False

    def param_writable(self, pname):
        for a in self.assigns:
            a0 = a.replace("[*]", "")
            if a0 == pname or a0.startswith(pname + ".") or a0 == pname + ".*":
                return True
        return False


class Registry:
    def __init__(self):
        self.by_key = {}
        self.by_name = {}

    def add(self, c):
        self.by_key[c.key] = c
        self.by_name.setdefault(c.name, []).append(c)
        return c

    def lookup(self, relpath, name):
        return self.by_key.get((relpath, name))


REGISTRY = Registry()


def contract(file, name, **kw):
    return REGISTRY.add(Contract(file, name, **kw))


# ----------------------------------------------------------------------------- field typing of the repo's record classes
ARR = lambda elem="Real", length=None: ("Arr", elem, length)
OBJ = lambda cls: ("Obj", cls)

FIELD_TYPES = {}          # cls -> {field: type};  "*" default


def declare_fields(cls, default="Real", **fields):
    d = FIELD_TYPES.setdefault(cls, {"*": default})
    d["*"] = default
    d.update(fields)


def field_type(cls, attr):
    if cls.startswith("List[") and attr.startswith("["):
        inner = cls[5:-1]
        if inner == "WeatherRow":
            return ("Arr", "Real", 5)
        if inner in ("Real", "PosReal"):
            return inner
        return ("Obj", inner) if inner not in ("Opaque", "Real", "Int") else inner
    d = FIELD_TYPES.get(cls)
    if d is None:
        return "Real"
    return d.get(attr, d["*"])


# ----------------------------------------------------------------------------- spec-mode calls
def spec_call(interp, node, st):
    fn = node.func.id
    if fn not in SPEC_FUNCS:
        return NOT_SPEC
    a = node.args
    if fn == "old":
        if st.old is None:
            raise ToolLimit("old() outside a post-state clause")
        so = st.old.copy()
        so.spec = True
        so.bound = st.bound
        so.polarity = st.polarity
        r = interp.ev(a[0], so)
        # lazily created inputs must be visible in both states
        for oid, rec in so.heap.items():
            if oid not in st.heap:
                st.heap[oid] = rec
            if oid not in st.old.heap:
                st.old.heap[oid] = rec
        return r
    if fn in ("forall", "exists"):
        if not isinstance(a[0], ast.Name):
            raise ToolLimit("quantifier variable")
        jn = a[0].id
        lo = interp.ev(a[1], st)
        hi = interp.ev(a[2], st)
        univ = (fn == "forall")
        if interp.ctx.concrete and isinstance(lo, int) and isinstance(hi, int):
            res = []
            for jv in range(lo, hi):
                st3 = st.copy()
                st3.bound = dict(st.bound)
                st3.bound[jn] = jv
                res.append(truth(interp.ev(a[3], st3)))
            return all(res) if univ else any(res)
        pol = st.polarity if univ else -st.polarity
        st2 = st.copy()
        st2.bound = dict(st.bound)
        if pol > 0:
            # goal position: Skolem constant
            j = interp.ctx.fresh("sk_" + jn, "Int")
            st2.bound[jn] = j
            body = truth(interp.ev(a[3], st2))
            _sync_heap(st, st2)
            rng = b_and(compare("<=", lo, j), compare("<", j, hi))
            return b_implies(rng, body) if univ else b_and(rng, body)
        j = z3.Int("%s!q%d" % (jn, next(interp.ctx.counter)))
        st2.bound[jn] = j
        st2.polarity = 0
        body = truth(interp.ev(a[3], st2))
        _sync_heap(st, st2)
        rng = z(b_and(compare("<=", lo, j), compare("<", j, hi)))
        if univ:
            return z3.ForAll([j], z3.Implies(rng, z(body)))
        return z3.Exists([j], z3.And(rng, z(body)))
    if fn == "implies":
        s1 = st.copy()
        s1.polarity = -st.polarity
        p = truth(interp.ev(a[0], s1))
        _sync_heap(st, s1)
        if p is False:
            return True       # the consequent is not evaluated (it may mention e.g. a table write that does not exist on this path)
        q = truth(interp.ev(a[1], st))
        return b_implies(p, q)
    if fn == "iff":
        s1 = st.copy()
        s1.polarity = 0
        p = truth(interp.ev(a[0], s1))
        q = truth(interp.ev(a[1], s1))
        _sync_heap(st, s1)
        if isinstance(p, bool) and isinstance(q, bool):
            return p == q
        return z(p) == z(q)
    if fn == "ite":
        c = truth(interp.ev(a[0], st))
        return V.ite(c, interp.ev(a[1], st), interp.ev(a[2], st))
    if fn == "wsum":
        dz = interp.ev(a[0], st)
        ar = interp.ev(a[1], st)
        k = interp.ev(a[2], st)
        rd, ra = interp.arr(st, dz), interp.arr(st, ar)
        if rd is None or ra is None:
            raise ToolLimit("wsum over non-arrays")
        return F_WSUM(rd.term, ra.term, z(k))
    if fn == "only_element_read":
        # only_element_read(lst, i): of the list-of-records parameter `lst`, the executed path touched no element other than lst[i]
        lst = interp.ev(a[0], st)
        idx = interp.ev(a[1], st)
        rec = st.heap[lst.oid]
        key = "[%s]" % (str(z3.simplify(z(idx))) if V.is_sym(idx) else str(idx))
        return all(k == key for k in rec.fields.keys())
    if fn == "fin":
        # abstract trajectory predicate: fin(k) <=> the model is finished after k performed time steps (the state after k steps
        # is a function of k only: determinism of the step, see C10)
        return F_FIN(z(interp.ev(a[0], st)))
    if fn in ("count_lt", "count_le"):
        from .interp import MaskV
        arr = interp.ev(a[0], st)
        x = interp.ev(a[1], st)
        return interp.count_mask(MaskV(arr, "<" if fn == "count_lt" else "<=", x), st, node)
    if fn == "evw":
        # evw(prof, z): ghost weight array of the evaporation layer of depth z:  evw[j] = factor_j(z) * dz[j]
        #   = dz[j] - (dzsum[j] - z) if dzsum[j] > z else dz[j]      (definitional extension: such an array exists)
        prof = interp.ev(a[0], st)
        zz = z(interp.ev(a[1], st), True)
        dz = interp.arr(st, interp.read_field(st, prof, "dz"))
        dzsum = interp.arr(st, interp.read_field(st, prof, "dzsum"))

        def mk(zt):
            if z3.is_app(zt) and zt.decl().kind() == z3.Z3_OP_ITE:      # lift if-then-else depths out of the weight family
                return z3.If(zt.arg(0), mk(zt.arg(1)), mk(zt.arg(2)))
            term = F_EFAC(zt)
            axc = interp.ctx.__dict__.setdefault("evw_axioms", {})
            if zt.get_id() not in axc:
                j = z3.Int("je!q%d" % next(interp.ctx.counter))
                axc[zt.get_id()] = (z3.ForAll([j], z3.Implies(z3.And(j >= 0, j < z(dz.length)),
                                                              z3.Select(term, j) == z3.If(z3.Select(dzsum.term, j) > zt,
                                                                                          z3.Select(dz.term, j) - (z3.Select(dzsum.term, j) - zt), z3.Select(dz.term, j)))), zt)
            st.pc.append(axc[zt.get_id()][0])
            return term
        term = mk(zz)
        from .interp import ArrRec
        cache = interp.ctx.__dict__.setdefault("evw_cache", {})
        k = zz.get_id()
        if k not in cache:
            cache[k] = (interp.ctx.new_oid(), zz)
        oid = cache[k][0]
        st.heap[oid] = ArrRec(term, dz.length, "Real", writable=False, fresh=False, name="evw")
        return Ref(oid)
    if fn in ("sum_le", "sum_ext"):
        # instances of library lemmas (proved by induction in vc/lemmas.py); only meaningful as hypotheses
        dz, x, y, k = [interp.ev(e, st) for e in a]
        rd, rx, ry = interp.arr(st, dz), interp.arr(st, x), interp.arr(st, y)
        j = z3.Int("jl!q%d" % next(interp.ctx.counter))
        kk = z(k)
        if fn == "sum_le":
            prem = z3.ForAll([j], z3.Implies(z3.And(j >= 0, j < kk), z3.And(z3.Select(rd.term, j) >= 0, z3.Select(rx.term, j) <= z3.Select(ry.term, j))))
            return z3.Implies(prem, F_WSUM(rd.term, rx.term, kk) <= F_WSUM(rd.term, ry.term, kk))
        prem = z3.ForAll([j], z3.Implies(z3.And(j >= 0, j < kk), z3.Select(rx.term, j) == z3.Select(ry.term, j)))
        return z3.Implies(prem, F_WSUM(rd.term, rx.term, kk) == F_WSUM(rd.term, ry.term, kk))
    if fn == "exp":
        return V.v_exp(interp.ev(a[0], st))
    if fn == "log":
        return V.v_log(interp.ev(a[0], st))
    if fn == "pow":
        return V.v_pow(interp.ev(a[0], st), interp.ev(a[1], st))
    if fn == "rdepth":
        return V.F_RDEPTH(z(interp.ev(a[0], st), True), z(interp.ev(a[1], st), True))
    if fn == "length":
        v = interp.ev(a[0], st)
        r = interp.arr(st, v)
        if r is None:
            if isinstance(v, TupleV):
                return len(v.items)
            raise ToolLimit("length of non-array")
        return r.length
    if fn == "fresh":
        v = interp.ev(a[0], st)
        r = interp.arr(st, v)
        if r is None:
            rec = st.heap.get(v.oid) if isinstance(v, Ref) else None
            return bool(rec is not None and getattr(rec, "fresh", False))
        return bool(r.fresh)
    if fn == "same":
        x, y = interp.ev(a[0], st), interp.ev(a[1], st)
        return isinstance(x, Ref) and isinstance(y, Ref) and x.oid == y.oid
    if fn == "is_int":
        v = interp.ev(a[0], st)
        if V.sort_of(v) == "Int":
            return True
        if V.is_num(v):
            from fractions import Fraction
            return Fraction(v).denominator == 1
        return z3.IsInt(z(v, True))
    if fn == "written":
        # written(table, k): the value list of the k-th write into the ghost table
        v = interp.ev(a[0], st)
        k = interp.ev(a[1], st)
        tr = st.heap[v.oid]
        return TupleV([tr.writes[k][0], tr.writes[k][2]])
    if fn == "nwrites":
        v = interp.ev(a[0], st)
        return len(st.heap[v.oid].writes)
    raise ToolLimit("spec function " + fn)


def _sync_heap(dst, src):
    for oid, rec in src.heap.items():
        if oid not in dst.heap:
            dst.heap[oid] = rec
        else:
            d = dst.heap[oid]
            from .interp import ObjRec
            if isinstance(d, ObjRec) and isinstance(rec, ObjRec) and d.lazy:
                for f, v in rec.fields.items():
                    if f not in d.fields:
                        dst.heap[oid] = d = d.with_field(f, v)


def eval_clause(interp, text, st, polarity, old=None, extra=None):
    """Evaluate a clause string in spec mode on (a copy of) state st.  Returns bool / z3 Bool."""
    node = ast.parse(text.strip(), mode="eval").body
    s = st.copy()
    s.spec = True
    s.polarity = polarity
    s.old = old if old is not None else st.old
    if extra:
        s.locals.update(extra)
    npc = len(s.pc)
    v = truth(interp.ev(node, s))
    _sync_heap(st, s)
    # definitional facts introduced while evaluating the clause (count witnesses, ghost weight arrays) are kept
    for extra_fact in s.pc[npc:]:
        st.pc.append(extra_fact)
    return v
