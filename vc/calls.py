"""Call dispatch: builtins, the numpy forms the model uses, array methods, and repo functions
(modular call through the callee's contract, or inlining of small contract-less helpers)."""
import ast
from fractions import Fraction
import z3
from . import values as V
from .values import (Ref, TupleV, UNBOUND, MaybeUnbound, Opaque, ToolLimit, is_sym, is_num, z,
                     arith, compare, truth, b_not, b_and, b_or, b_implies, ite)
from .interp import (select_term, FuncV, ModV, RangeV, MaskV, IdxSetV, ArrRec, ObjRec, TableRec, State, SAFETY_TAG,
                     find_function, strip_docstring, Ctx, label_loops, module_imports)


def dispatch(I, f, args, kw, st, node):
    k, n = f.kind, f.name
    if k == "builtin":
        return builtin(I, n, args, kw, st, node)
    if k == "np":
        return numpy_fn(I, n, args, kw, st, node)
    if k == "arrmethod":
        return arr_method(I, f.recv, n, args, kw, st, node)
    if k == "tuplemethod":
        if n == "sum":
            r = 0
            for it in f.recv.items:
                r = arith("+", r, it)
            return r
        return f.recv
    if k == "idxmethod":
        if n == "flatten":
            return f.recv
        raise ToolLimit("method .%s on argwhere result" % n)
    if k == "masked":
        raise ToolLimit("call on masked array")
    if k == "repo":
        return repo_call(I, n, args, kw, st, node)
    if k == "method":
        return method_call(I, f.recv, n, args, kw, st, node)
    if k == "time" and n == "time":
        I.ctx.dropped.append("time.time() at line %d: modelled as an arbitrary real (wall-clock stamps)" % node.lineno)
        return I.ctx.fresh("walltime", "Real")
    if k == "spec":
        raise ToolLimit("spec function %s used as value" % n)
    raise ToolLimit("call %s.%s (line %s)" % (k, n, node.lineno))


# ----------------------------------------------------------------------------- builtins
F_ROUND = {}


def round_fn(nd):
    """round(x, nd) as an uninterpreted function; the solver front end adds, per application r = round_nd(x):
    |x - r| <= 0.5*10^-nd, r*10^nd integral, and pairwise monotonicity / congruence (round-half-even is monotone)."""
    key = "int" if nd is None else int(nd)
    if key not in F_ROUND:
        if nd is None:
            F_ROUND[key] = z3.Function("round_int", z3.RealSort(), z3.IntSort())
        else:
            F_ROUND[key] = z3.Function("round_%d" % nd, z3.RealSort(), z3.RealSort())
    return F_ROUND[key]


def v_round(I, x, nd, st, node):
    if is_num(x):
        if V.FLOATMODE:
            return round(x) if nd is None else round(x, nd)
        fx = Fraction(x)
        return round(fx) if nd is None else round(fx, nd)
    zx = z(x, True)
    if nd is not None and not isinstance(nd, int):
        raise ToolLimit("round with symbolic digits")
    if nd is not None and not (0 <= nd <= 6):
        raise ToolLimit("round digits %r" % (nd,))
    return round_fn(nd)(zx)


def builtin(I, n, args, kw, st, node):
    if n in ("min", "max"):
        if len(args) == 1 and isinstance(args[0], TupleV):
            args = args[0].items
        r = args[0]
        for a in args[1:]:
            r = V.v_min(r, a) if n == "min" else V.v_max(r, a)
        return r
    if n == "abs":
        return V.v_abs(args[0])
    if n == "round":
        return v_round(I, args[0], args[1] if len(args) > 1 else None, st, node)
    if n == "float":
        a = args[0]
        if isinstance(a, bool):
            return Fraction(int(a))
        if isinstance(a, int):
            return Fraction(a) if not V.FLOATMODE else float(a)
        if is_num(a):
            return a
        if is_sym(a):
            if z3.is_bool(a):
                return z3.If(a, z3.RealVal(1), z3.RealVal(0))
            return z(a, True)
        raise ToolLimit("float(%r)" % (a,))
    if n == "int":
        a = args[0]
        if isinstance(a, bool):
            return int(a)
        if isinstance(a, int):
            return a
        if is_num(a):
            return int(a)      # truncation toward zero, as Python
        if is_sym(a) and z3.is_int(a):
            return a
        if is_sym(a) and z3.is_bool(a):
            return z3.If(a, z3.IntVal(1), z3.IntVal(0))
        if is_sym(a) and z3.is_real(a):
            # int() of a real-sorted term: only accepted when the term is integer valued; obligation + ToInt
            I.ctx.oblige("int_of_integral", z3.IsInt(a), st, node, "", (), note="int(x) truncates; the encoding needs x integral")
            return z3.ToInt(a)
        raise ToolLimit("int(%r)" % (a,))
    if n == "bool":
        return truth(args[0])
    if n == "len":
        a = args[0]
        if isinstance(a, TupleV):
            return len(a.items)
        r = I.arr(st, a)
        if r is not None:
            return len(r.conc) if r.conc is not None else r.length
        from .interp import MaskedV
        if isinstance(a, MaskedV):
            return I.count_mask(a.mask, st, node)
        raise ToolLimit("len(%r)" % (a,))
    if n == "range":
        if len(args) == 1:
            return RangeV(0, args[0])
        if len(args) == 2:
            return RangeV(args[0], args[1])
        raise ToolLimit("range with step")
    if n == "print":
        return None
    if n == "isinstance":
        raise ToolLimit("isinstance")
    if n == "setattr":
        # setattr(obj, "<constant name>", value) is the attribute store obj.<name> = value (frame checks included)
        if len(args) != 3 or not isinstance(args[1], str) or not isinstance(node, ast.Call) or len(node.args) != 3:
            raise ToolLimit("setattr with a non-constant attribute name")
        tgt = ast.Attribute(value=node.args[0], attr=args[1], ctx=ast.Store())
        ast.copy_location(tgt, node)
        I.assign(tgt, args[2], st, node)
        return None
    raise ToolLimit("builtin " + n)


# ----------------------------------------------------------------------------- numpy
def conc_len(I, st, v):
    r = I.arr(st, v)
    if r is not None and isinstance(r.length, int):
        return r
    return None


def numpy_fn(I, n, args, kw, st, node):
    if n == "exp":
        return V.v_exp(args[0])
    if n == "log":
        I.ctx.oblige("log_positive", compare(">", args[0], 0), st, node, "", SAFETY_TAG, note="np.log of a non-positive number gives nan/-inf")
        return V.v_log(args[0])
    if n == "log10":
        I.ctx.oblige("log_positive", compare(">", args[0], 0), st, node, "", SAFETY_TAG, note="np.log10 of a non-positive number gives nan/-inf")
        if V.FLOATMODE and is_num(args[0]):
            import math
            return math.log10(args[0])
        return arith("/", V.v_log(args[0]), V.v_log(10))
    if n == "sin":
        if V.FLOATMODE and is_num(args[0]):
            import math
            return math.sin(args[0])
        return V.F_SIN(z(args[0], True))
    if n == "sqrt":
        I.ctx.oblige("sqrt_nonneg", compare(">=", args[0], 0), st, node, "", SAFETY_TAG)
        return V.v_pow(args[0], Fraction(1, 2))
    if n == "power":
        a, b = args
        if isinstance(b, int) and 0 <= b <= 8:
            return arith("**", a, b)
        I.ctx.oblige("pow_base_nonneg", compare(">=", a, 0), st, node, "", SAFETY_TAG, note="nan from a negative base")
        return V.v_pow(a, b)
    if n in ("zeros", "ones") and I.ctx.concrete:
        ln = args[0]
        if isinstance(ln, TupleV):
            raise ToolLimit("np.%s of a shape tuple" % n)
        return I.alloc_array(st, None, None, "Real", n, conc=[0.0 if n == "zeros" else 1.0] * int(ln))
    if n in ("unique", "sort") and I.ctx.concrete:
        a0 = args[0]
        r0 = I.arr(st, a0)
        vals = list(r0.conc) if r0 is not None else list(a0.items)
        vals = sorted(set(vals)) if n == "unique" else sorted(vals)
        return TupleV([int(v) if float(v) == int(v) and (r0 is None or r0.elem == "Int") else v for v in vals])
    if n in ("zeros", "ones"):
        ln = args[0]
        if isinstance(ln, TupleV):
            raise ToolLimit("np.%s of a shape tuple" % n)
        if is_num(ln) and not isinstance(ln, int):
            ln = int(ln)
        if not st.spec:
            I.ctx.oblige("alloc_nonneg", compare(">=", ln, 0), st, node, "", SAFETY_TAG)
        return I.alloc_array(st, z3.K(z3.IntSort(), z3.RealVal(0 if n == "zeros" else 1)), ln, "Real", n)
    if n in ("maximum", "minimum"):
        a, b = args
        ra, rb = I.arr(st, a), I.arr(st, b)
        if ra is None and rb is None:
            return V.v_max(a, b) if n == "maximum" else V.v_min(a, b)
        if ra is not None and rb is not None and ra.conc is not None and rb.conc is not None:
            f_ = max if n == "maximum" else min
            return I.alloc_array(st, None, None, "Real", n, conc=[f_(x, y) for x, y in zip(ra.conc, rb.conc)])
        if ra is not None and rb is not None and isinstance(ra.length, int) and ra.length == rb.length:
            t = z3.K(z3.IntSort(), z3.RealVal(0))
            for i in range(ra.length):
                x, y = select_term(ra.term, z3.IntVal(i)), select_term(rb.term, z3.IntVal(i))
                t = z3.Store(t, i, z(V.v_max(x, y) if n == "maximum" else V.v_min(x, y), True))
            return I.alloc_array(st, t, ra.length, "Real", n)
        raise ToolLimit("np.%s on arrays of symbolic length" % n)
    if n == "argwhere":
        m = args[0]
        if isinstance(m, MaskV):
            return IdxSetV(m)
        raise ToolLimit("np.argwhere of a non-mask")
    if n == "sum":
        m = args[0]
        if isinstance(m, MaskV):
            return I.count_mask(m, st, node)
        raise ToolLimit("np.sum of a non-mask")
    if n == "array":
        a = args[0]
        if isinstance(a, TupleV):
            return a
        r0 = I.arr(st, a)
        if r0 is not None:
            # np.array(x) copies
            if r0.conc is not None:
                return I.alloc_array(st, None, None, r0.elem, "copy", conc=list(r0.conc))
            return I.alloc_array(st, r0.term, r0.length, r0.elem, "copy")
        return a
    if n in ("float64", "float32"):
        return builtin(I, "float", args, kw, st, node)
    if n in ("int64", "int32"):
        return builtin(I, "int", args, kw, st, node)
    if n == "round":
        return v_round(I, args[0], args[1] if len(args) > 1 else 0, st, node) if len(args) > 1 else v_round(I, args[0], None, st, node)
    if n in ("sort", "unique"):
        return Opaque("np.%s" % n)
    if n == "searchsorted":
        a, x = args[0], args[1]
        side = kw.get("side", args[2] if len(args) > 2 else "left")
        if I.arr(st, a) is None or side not in ("left", "right"):
            raise ToolLimit("np.searchsorted form")
        # insertion point in a sorted array = number of elements < x (left) / <= x (right)
        return I.count_mask(MaskV(a, "<" if side == "left" else "<=", x), st, node)
    if n == "clip":
        x = args[0]
        lo = args[1] if len(args) > 1 else kw.get("a_min", kw.get("min"))
        hi = args[2] if len(args) > 2 else kw.get("a_max", kw.get("max"))
        if I.arr(st, x) is not None:
            raise ToolLimit("np.clip on an array")
        if lo is not None:
            x = V.v_max(x, lo)
        if hi is not None:
            x = V.v_min(x, hi)
        return x
    if n in ("abs", "absolute", "fabs"):
        return V.v_abs(args[0])
    if n == "where" and len(args) == 3 and I.arr(st, args[1]) is None and I.arr(st, args[2]) is None and not isinstance(args[0], MaskV):
        return ite(truth(args[0]), args[1], args[2])
    if n == "square":
        return arith("*", args[0], args[0])
    if n in ("floor", "ceil"):
        x = args[0]
        if is_num(x):
            import math
            return math.floor(x) if n == "floor" else math.ceil(x)
        r = I.ctx.fresh(n, "Int")
        zx = z(x, True)
        if n == "floor":
            st.pc.append(z3.And(z3.ToReal(r) <= zx, zx < z3.ToReal(r) + 1))
        else:
            st.pc.append(z3.And(z3.ToReal(r) >= zx, zx > z3.ToReal(r) - 1))
        return r
    if n == "isnan":
        return False   # reals have no nan (stated assumption)
    raise ToolLimit("np.%s (line %s)" % (n, node.lineno))


def arr_method(I, ref, n, args, kw, st, node):
    rec = st.heap[ref.oid]
    if rec.conc is not None:
        if n in ("copy", "flatten"):
            return I.alloc_array(st, None, None, rec.elem, "copy", conc=list(rec.conc))
        if n == "sum":
            return sum(rec.conc)
        raise ToolLimit("concrete array method .%s" % n)
    if n == "get_loc":
        # pandas DatetimeIndex.get_loc(d) on the simulation calendar (assumed contract on pandas: the position k with index[k] == d;
        # KeyError when absent).  The calendar is a gap-free daily sequence (clock axiom), so k = d - index[0].
        d = args[0]
        k = arith("-", d, z3.Select(rec.term, 0))
        ok = b_and(compare(">=", k, 0), compare("<", k, rec.length), compare("==", z3.Select(rec.term, z(k)), d))
        I.ctx.oblige("get_loc_present", ok, st, node, "", SAFETY_TAG, note="KeyError: date not in the simulation calendar")
        return k
    if n == "copy":
        return I.alloc_array(st, rec.term, rec.length, rec.elem, "copy")
    if n == "flatten":
        return I.alloc_array(st, rec.term, rec.length, rec.elem, "copy")
    raise ToolLimit("array method .%s (line %s)" % (n, node.lineno))


# ----------------------------------------------------------------------------- repo functions
def construct_record(I, rel, fname, args, kw, st, node):
    """Instantiate a plain record class of the repo: a fresh object whose fields are the constants its __init__ assigns."""
    from .interp import load_module
    src, tree = load_module(rel)
    cls = None
    for n in tree.body:
        if isinstance(n, ast.ClassDef) and n.name == fname:
            cls = n
    if cls is None:
        return None
    init = None
    for n in cls.body:
        if isinstance(n, ast.FunctionDef) and n.name == "__init__":
            init = n
    if args or kw or init is None or len(init.args.args) != 1:
        raise ToolLimit("constructor %s(...) with arguments (line %s)" % (fname, node.lineno))
    fields = {}
    for stmt in init.body:
        if (isinstance(stmt, ast.Assign) and len(stmt.targets) == 1 and isinstance(stmt.targets[0], ast.Attribute)
                and isinstance(stmt.targets[0].value, ast.Name) and stmt.targets[0].value.id == "self" and isinstance(stmt.value, ast.Constant)):
            fields[stmt.targets[0].attr] = V.num_const(stmt.value.value)
        elif isinstance(stmt, ast.Expr) and isinstance(stmt.value, ast.Constant):
            continue
        else:
            raise ToolLimit("constructor %s: __init__ is not a list of constant field assignments" % fname)
    oid = I.ctx.new_oid()
    st.heap[oid] = ObjRec(fname, fields, name="%s#%d" % (fname, oid), lazy=False, fresh=True)
    return Ref(oid)


def repo_call(I, name, args, kw, st, node):
    rel, fname = I.ctx.imports[name]
    reg = I.ctx.registry
    if I.ctx.concrete:
        try:
            find_function(rel, fname)
        except ToolLimit:
            r = construct_record(I, rel, fname, args, kw, st, node)
            if r is not None:
                return r
        return inline_call(I, rel, fname, args, kw, st, node)
    if reg.lookup(rel, fname) is None:
        try:
            find_function(rel, fname)
        except ToolLimit:
            r = construct_record(I, rel, fname, args, kw, st, node)
            if r is not None:
                return r
    c = reg.lookup(rel, fname)
    inline = I.ctx.contract.options.get("inline", ())
    if c is not None and fname not in inline:
        return modular_call(I, c, args, kw, st, node)
    if fname in inline or I.ctx.contract.options.get("inline_all"):
        return inline_call(I, rel, fname, args, kw, st, node)
    if rel == I.ctx.relpath and fname != I.ctx.contract.name.split("#")[0]:
        # a helper defined in the SAME file as the function under contract and without a contract of its own (typically a private helper
        # factored out of the function): its body is part of the code under verification and is inlined (recorded in the evidence)
        note = "same-file helper %s() has no contract: inlined into %s" % (fname, I.ctx.contract.name)
        if note not in I.ctx.tool_notes:
            I.ctx.tool_notes.append(note)
        depth = I.ctx.__dict__.get("auto_inline_depth", 0)
        if depth >= 3:
            raise ToolLimit("call to %s (%s): nested automatic inlining deeper than 3" % (fname, rel))
        I.ctx.auto_inline_depth = depth + 1
        try:
            return inline_call(I, rel, fname, args, kw, st, node)
        finally:
            I.ctx.auto_inline_depth = depth
    raise ToolLimit("call to %s (%s): no contract and not declared inline" % (fname, rel))


def method_call(I, recv, name, args, kw, st, node):
    """self.method(...) inside a class of the repo: modular call through the contract registered as Class.method (same file)."""
    rec = st.heap[recv.oid]
    qual = "%s.%s" % (rec.cls, name)
    c = I.ctx.registry.lookup(I.ctx.relpath, qual)
    if c is None:
        raise ToolLimit("call of method %s: no contract" % qual)
    return modular_call(I, c, [recv] + list(args), kw, st, node)


def bind_params(fn, args, kw, node):
    params = [a.arg for a in fn.args.args]
    defaults = fn.args.defaults
    bound = {}
    for p, a in zip(params, args):
        bound[p] = a
    for k2, v in kw.items():
        bound[k2] = v
    return params, bound


def inline_call(I, rel, fname, args, kw, st, node):
    fn = find_function(rel, fname)
    params, bound = bind_params(fn, args, kw, node)
    if len(bound) != len(params):
        raise ToolLimit("inline call %s: defaults not supported" % fname)
    saved_locals, saved_imports, saved_labels, saved_func = st.locals, I.ctx.imports, I.ctx.loop_labels, I.ctx.cur_func
    st.locals = dict(bound)
    I.ctx.imports = module_imports(rel)
    I.ctx.loop_labels = label_loops(fn)
    I.ctx.cur_func = saved_func + ">" + fname
    try:
        outs = I.exec_block(strip_docstring(fn.body), st)
    finally:
        I.ctx.imports, I.ctx.loop_labels, I.ctx.cur_func = saved_imports, saved_labels, saved_func
    rets = []
    for k, s2, v in outs:
        if k == "ret":
            rets.append((s2, v))
        elif k == "fall":
            rets.append((s2, None))
        elif k == "raise":
            continue
        else:
            raise ToolLimit("inline call %s ended with %s" % (fname, k))
    if not rets:
        raise ToolLimit("inline call %s never returns" % fname)
    if len(rets) > 1:
        from .interp import try_merge
        for i, (s2, v) in enumerate(rets):
            s2.locals = {"$ret": v}
        m = try_merge([s for s, _ in rets])
        if m is None:
            raise ToolLimit("inline call %s: return states cannot be merged" % fname)
        s2, v = m, m.locals["$ret"]
    else:
        s2, v = rets[0]
    st.heap, st.pc = s2.heap, s2.pc
    st.locals = saved_locals
    if isinstance(v, MaybeUnbound):
        raise ToolLimit("inline call %s may fall off without return" % fname)
    return v


def modular_call(I, c, args, kw, st, node):
    """Callee known by contract only: assert requires, havoc assigns, assume ensures."""
    from .spec import eval_clause
    pnames = list(c.params.keys())
    bound = {}
    for p, a in zip(pnames, args):
        bound[p] = a
    for k2, v in kw.items():
        bound[k2] = v
    if len(bound) != len(pnames):
        raise ToolLimit("modular call %s: %d args for %d params (signature or call site changed)" % (c.name, len(bound), len(pnames)))
    for g, ty in c.ghost.items():
        bound[g] = I.make_input(st, g, ty, writable=False)
    if c.trusted:
        # an ASSUMED contract: what is taken from it without proof is listed in the evidence of every check that uses it
        note = "ASSUMED (trusted) contract of %s used by %s without proof: %s" % (c.name, I.ctx.contract.name, "; ".join("%s: %s" % (e, t) for e, t in c.ensures) or "frame only") + ((" [%s]" % c.note[:260]) if c.note else "")
        if note not in I.ctx.tool_notes:
            I.ctx.tool_notes.append(note)
    # evaluate requires in callee scope over the caller's heap
    cs = st.copy()
    cs.locals = dict(bound)
    cs.old = None
    saved_func = I.ctx.cur_func
    for i, r in enumerate(c.requires):
        rid, text = r if isinstance(r, tuple) else ("requires%d" % i, r)
        npc = len(cs.pc)
        g = eval_clause(I, text, cs, +1)
        for extra_fact in cs.pc[npc:]:
            st.pc.append(extra_fact)
        I.ctx.oblige("call_requires", g, st, node, "%s.%s" % (c.name, rid), tuple(c.props) or (), note="precondition of %s: %s" % (c.name, text))
    # pre-state for old()
    pre = st.copy()
    pre.locals = dict(bound)
    # havoc the assigns frame
    for a in c.assigns:
        havoc_target(I, a, bound, st, c)
    # results
    post = st.copy()
    post.locals = dict(bound)
    post.old = pre
    res_vals = []
    if c.returns:
        for rn, rt in c.returns:
            if isinstance(rt, tuple) and rt[0] == "Param":
                v = bound[rt[1]]
            elif isinstance(rt, tuple) and rt[0] == "Expr":
                # the callee returns (a reference to) something reachable from its parameters, e.g. self._clock_struct
                tmp = post.copy()
                tmp.spec = True
                v = I.ev(ast.parse(rt[1], mode="eval").body, tmp)
                for oid_, rec_ in tmp.heap.items():
                    if oid_ not in post.heap:
                        post.heap[oid_] = rec_
                    if oid_ not in st.heap:
                        st.heap[oid_] = rec_
            elif isinstance(rt, tuple) and rt[0] == "Arr":
                ln = rt[2] if len(rt) > 2 else None
                if isinstance(ln, str):
                    lnv = eval_len(I, ln, post)
                else:
                    lnv = ln if ln is not None else I.ctx.fresh("len_" + rn, "Int")
                sort = z3.RealSort() if rt[1] == "Real" else z3.IntSort()
                arrc = z3.Array("%s.%s!%d" % (c.name, rn, next(I.ctx.counter)), z3.IntSort(), sort)
                v = I.alloc_array(post, arrc, lnv, rt[1], c.name + "." + rn)
                st.heap[v.oid] = post.heap[v.oid]
            elif rt in ("Real", "Int", "Bool"):
                v = I.ctx.fresh("%s.%s" % (c.name, rn), rt)
            elif rt == "Opaque":
                v = Opaque("%s.%s!%d" % (c.name, rn, next(I.ctx.counter)))
            else:
                raise ToolLimit("result type %r of %s" % (rt, c.name))
            post.locals[rn] = v
            res_vals.append(v)
    post.heap = dict(st.heap)
    if len(res_vals) == 1:
        post.locals["result"] = res_vals[0]
    for eid, text in c.ensures:
        if c.options.get("no_assume_ensures"):
            break
        npc = len(post.pc)
        h = eval_clause(I, text, post, -1, old=pre)
        for extra_fact in post.pc[npc:]:       # definitional facts (count witnesses, ghost weights) introduced by the clause
            st.pc.append(extra_fact)
        if h is False:
            raise ToolLimit("ensures clause %s of %s is false by construction at this call (aliasing/freshness of a result does not match its declared type)" % (eid, c.name))
        elif h is not True:
            st.pc.append(h)
    for oid, rec in post.heap.items():
        if oid not in st.heap:
            st.heap[oid] = rec
    if not c.returns:
        return None
    if len(res_vals) == 1 and not c.options.get("returns_1tuple", False):
        return res_vals[0]
    return TupleV(res_vals)


def eval_len(I, text, st):
    node = ast.parse(text, mode="eval").body
    s = st.copy()
    s.spec = True
    return I.ev(node, s)


def havoc_target(I, target, bound, st, c):
    """target forms:  P.f   P.f[*]   P[*]   P.*  (all declared-mutable fields of the object)"""
    t = target.strip()
    star = t.endswith("[*]")
    if star:
        t = t[:-3]
    parts = t.split(".")
    v = bound.get(parts[0])
    if v is None:
        raise ToolLimit("assigns target %s: unknown parameter" % target)
    # walk to the owner
    for p in parts[1:-1]:
        v = I.read_field(st, v, p)
    if len(parts) == 1:
        if star:
            rec = I.arr(st, v)
            st.heap[v.oid] = rec.with_term(z3.Array("%s!%d" % (rec.name.split("#")[0], next(I.ctx.counter)), z3.IntSort(),
                                                    z3.RealSort() if rec.elem == "Real" else z3.IntSort()))
            return
        raise ToolLimit("assigns target %s" % target)
    last = parts[-1]
    owner = st.heap[v.oid]
    if last == "**":
        # everything reachable through this object may change: the object gets a new version name, so every field read after the
        # call is a fresh symbol (arrays and sub-objects included); output tables receive one unknown row write each
        from .spec import FIELD_TYPES
        k = next(I.ctx.counter)
        newrec = ObjRec(owner.cls, {}, name="%s~%d" % (owner.name.split("~")[0], k), lazy=True, writable=owner.writable, fresh=owner.fresh)
        cols = c.options.get("table_cols", {})
        for fname, fty in FIELD_TYPES.get(owner.cls, {}).items():
            if isinstance(fty, tuple) and fty and fty[0] == "Table":
                oid = I.ctx.new_oid()
                n = cols.get(fname)
                if n:
                    row = I.ctx.fresh("%s.%s.row" % (c.name, fname), "Int")
                    vals = TupleV([I.ctx.fresh("%s.%s.c%d" % (c.name, fname, j), "Real") for j in range(n)], "list")
                    st.heap[oid] = TableRec("%s.%s" % (newrec.name, fname), [(row, ":", vals)])
                else:
                    st.heap[oid] = TableRec("%s.%s" % (newrec.name, fname), [])
                newrec.fields[fname] = Ref(oid)
        st.heap[v.oid] = newrec
        return
    if last == "*":
        from .spec import FIELD_TYPES
        raise ToolLimit("assigns P.* needs an explicit field list")
    cur = I.read_field(st, v, last)
    if star:
        rec = I.arr(st, cur)
        if rec is None:
            raise ToolLimit("assigns %s: not an array" % target)
        st.heap[cur.oid] = rec.with_term(z3.Array("%s!%d" % (rec.name.split("#")[0], next(I.ctx.counter)), z3.IntSort(),
                                                  z3.RealSort() if rec.elem == "Real" else z3.IntSort()))
        return
    so = V.sort_of(cur)
    if so is None:
        if isinstance(cur, Ref):
            # reference field re-bound by the callee: the contract must say to what (fresh array) -> handled by ensures via returns
            from .spec import field_type
            ty = field_type(owner.cls, last)
            if isinstance(ty, tuple) and ty[0] == "Arr":
                old = st.heap[cur.oid]
                nv = I.alloc_array(st, z3.Array("%s.%s!%d" % (owner.name, last, next(I.ctx.counter)), z3.IntSort(),
                                                z3.RealSort() if old.elem == "Real" else z3.IntSort()), old.length, old.elem, owner.name + "." + last)
                st.heap[v.oid] = st.heap[v.oid].with_field(last, nv)
                return
        raise ToolLimit("assigns %s: unsupported field value %r" % (target, cur))
    nv = I.ctx.fresh("%s.%s" % (owner.name, last), so)
    st.heap[v.oid] = st.heap[v.oid].with_field(last, nv)
