"""Runs under /venv/bin/python (numpy, the repo).  Calls the REAL function from /repo on concrete inputs taken from a
solver model and re-evaluates the refuted clause on what the function actually returned.
usage: e3_call.py <request.json>  -> prints a JSON result"""
import sys
import os
import ast
import json
import math
import types
import warnings
import importlib

TOL = 1e-9


def build_value(ty, name, model, arrays):
    def num(n, default=0.0):
        v = model.get(n)
        if v is None:
            return default
        return parse_num(v)
    if ty == "Real":
        return float(num(name))
    if ty == "Int":
        return int(round(num(name, 0)))
    if ty == "Bool":
        v = model.get(name)
        return str(v) == "True"
    if ty == "Str" or ty == "Opaque":
        return model.get(name, "")
    if isinstance(ty, list) and ty[0] == "Arr":
        import numpy as np
        n = ty[2] if len(ty) > 2 and isinstance(ty[2], int) else int(round(num("len(%s)" % name, 0) or max([int(k) for k in arrays.get(name, {"0": 0})] + [0]) + 1))
        a = np.zeros(n)
        for k, v in arrays.get(name, {}).items():
            if 0 <= int(k) < n:
                a[int(k)] = parse_num(v)
        return a
    if isinstance(ty, list) and ty[0] == "Obj":
        o = types.SimpleNamespace()
        pre = name + "."
        ftypes = ty[2] if len(ty) > 2 else {}
        for k, v in model.items():
            if k.startswith(pre) and "." not in k[len(pre):] and "!" not in k:
                f = k[len(pre):]
                ft = ftypes.get(f, "Real")
                setattr(o, f, build_value(ft, k, model, arrays))
        for k in arrays:
            if k.startswith(pre) and "." not in k[len(pre):]:
                f = k[len(pre):]
                setattr(o, f, build_value(ftypes.get(f, ["Arr", "Real"]), k, model, arrays))
        return o
    raise ValueError("cannot build %r" % (ty,))


def parse_num(s):
    s = str(s).strip()
    if s in ("True", "False"):
        return 1.0 if s == "True" else 0.0
    s = s.rstrip("?")
    if "/" in s:
        a, b = s.split("/")
        return float(a) / float(b)
    return float(s)


class Tr(ast.NodeTransformer):
    def visit_Call(self, node):
        self.generic_visit(node)
        if isinstance(node.func, ast.Name) and node.func.id in ("forall", "exists"):
            j, lo, hi, body = node.args
            lam = ast.Lambda(args=ast.arguments(posonlyargs=[], args=[ast.arg(arg=j.id)], kwonlyargs=[], kw_defaults=[], defaults=[]), body=body)
            return ast.Call(func=ast.Name(id="__" + node.func.id, ctx=ast.Load()), args=[lo, hi, lam], keywords=[])
        if isinstance(node.func, ast.Name) and node.func.id in ("implies", "ite"):
            lams = [ast.Lambda(args=ast.arguments(posonlyargs=[], args=[], kwonlyargs=[], kw_defaults=[], defaults=[]), body=a) for a in node.args]
            return ast.Call(func=ast.Name(id="__" + node.func.id, ctx=ast.Load()), args=lams, keywords=[])
        return node

    def visit_Compare(self, node):
        self.generic_visit(node)
        # tolerant comparisons
        parts = []
        left = node.left
        for op, right in zip(node.ops, node.comparators):
            opn = type(op).__name__
            parts.append(ast.Call(func=ast.Name(id="__cmp", ctx=ast.Load()), args=[ast.Constant(opn), left, right], keywords=[]))
            left = right
        if len(parts) == 1:
            return parts[0]
        return ast.BoolOp(op=ast.And(), values=parts)


def cmp_tol(op, a, b):
    if isinstance(a, str) or isinstance(b, str) or isinstance(a, bool) or isinstance(b, bool):
        return {"Eq": a == b, "NotEq": a != b}[op]
    t = TOL * max(1.0, abs(a), abs(b))
    if op == "LtE":
        return a <= b + t
    if op == "Lt":
        return a < b + t
    if op == "GtE":
        return a >= b - t
    if op == "Gt":
        return a > b - t
    if op == "Eq":
        return abs(a - b) <= t
    if op == "NotEq":
        return abs(a - b) > t
    raise ValueError(op)


def eval_clause(text, env):
    tree = ast.parse(text.strip(), mode="eval")
    tree = ast.fix_missing_locations(Tr().visit(tree))
    g = {"__forall": lambda lo, hi, f: all(f(j) for j in range(int(lo), int(hi))),
         "__exists": lambda lo, hi, f: any(f(j) for j in range(int(lo), int(hi))),
         "__implies": lambda a, b: (not a()) or b(), "__ite": lambda c, a, b: a() if c() else b(),
         "__cmp": cmp_tol, "exp": math.exp, "log": math.log, "min": min, "max": max, "abs": abs, "length": len, "pow": pow}
    g.update(env)
    return bool(eval(compile(tree, "<clause>", "eval"), g))


def finite(x):
    import numpy as np
    try:
        if isinstance(x, (tuple, list)):
            return all(finite(y) for y in x)
        if isinstance(x, np.ndarray):
            return bool(np.all(np.isfinite(x)))
        if isinstance(x, (int, float, np.floating, np.integer)):
            return math.isfinite(float(x))
    except Exception:
        pass
    return True


def main():
    req = json.load(open(sys.argv[1]))
    repo = req["repo"]
    sys.path.insert(0, repo)
    import numpy as np
    np.seterr(divide="raise", invalid="raise", over="raise")
    out = {"runs": []}
    try:
        if req.get("harness_src"):
            ns = {}
            for nm, (rel, fn) in req["harness_imports"].items():
                mod = importlib.import_module(rel[:-3].replace("/", "."))
                ns[nm] = getattr(mod, fn)
            exec(req["harness_src"], ns)
            func = ns[req["function"]]
        else:
            mod = importlib.import_module(req["file"][:-3].replace("/", "."))
            func = getattr(mod, req["function"])
    except Exception as e:
        print(json.dumps({"error": "import failed: %r" % (e,)}))
        return
    env = {}
    exc_seen = None
    nonfinite = False
    for tag in req["copies"]:
        args = []
        for p, ty in req["params"]:
            if p in req["case"]:
                v = req["case"][p]
            else:
                nm = p + (tag if p in req["vary"] else "")
                v = build_value(ty, nm, req["model"], req["arrays"])
            args.append(v)
            env[p + (tag if p in req["vary"] else "")] = v
            if not tag:
                env[p] = v
        try:
            r = func(*args)
            rr = r
            if req["returns"]:
                if len(req["returns"]) == 1 and not isinstance(r, tuple):
                    env[req["returns"][0] + tag] = r
                else:
                    for n, x in zip(req["returns"], r):
                        env[n + tag] = x
            env["result" + tag] = r
            if not finite(r):
                nonfinite = True
            out["runs"].append({"tag": tag, "args": repr(args)[:2000], "result": repr(r)[:2000]})
        except Exception as e:
            exc_seen = "%s: %s" % (type(e).__name__, e)
            out["runs"].append({"tag": tag, "args": repr(args)[:2000], "exception": exc_seen})
    out["exception"] = exc_seen
    out["nonfinite"] = nonfinite
    if req["kind"] in ("ensures", "relational") and exc_seen is None:
        try:
            pre_ok = all(eval_clause(t, env) for t in req.get("pre", []))
            out["pre_ok"] = pre_ok
            out["clause_holds"] = eval_clause(req["clause"], env)
        except Exception as e:
            out["clause_error"] = "%s: %s" % (type(e).__name__, e)
    print(json.dumps(out))


if __name__ == "__main__":
    main()
