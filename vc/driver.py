"""Generate the obligations of one contract from the current source of /repo."""
import ast
import time
import z3
from . import values as V
from .values import ToolLimit, TupleV, MaybeUnbound, UNBOUND, z, truth, Ref
from .interp import Ctx, Interp, State, find_function, strip_docstring, Obligation, load_module
from .spec import eval_clause, REGISTRY


class FunctionReport:
    def __init__(self, contract):
        self.contract = contract
        self.obligations = []
        self.tool_limit = None
        self.soft_limit = None      # a proof step could not be placed, the remaining obligations are still valid
        self.paths = 0
        self.returns = 0
        self.merges = 0
        self.dead_paths = 0
        self.dropped = []
        self.notes = []
        self.gen_time = 0.0
        self.vacuity = []       # (name, hyps) that must be satisfiable


def generate(c, registry=REGISTRY):
    rep = FunctionReport(c)
    t0 = time.time()
    try:
        if c.options.get("harness_src"):
            fn = ast.parse(c.options["harness_src"]).body[0]
        else:
            fn = find_function(c.file, c.options.get("function", c.name))
        for ci, case in enumerate(c.cases):
            _generate_case(c, fn, case, ci, registry, rep)
    except ToolLimit as e:
        rep.tool_limit = str(e)
    except RecursionError as e:
        rep.tool_limit = "recursion limit: %r" % (e,)
    rep.gen_time = time.time() - t0
    return rep


def _run_body(c, fn, case, ctx, I, suffix, tag=""):
    """Symbolically execute the body once.  Parameters listed in `tag_vary` get their own symbols (name + tag)."""
    st = State()
    pnames = [a.arg for a in fn.args.args]
    if pnames and pnames[0] == "self" and "self" not in c.params:
        raise ToolLimit("method without a self type in the contract")
    for p in pnames:
        if p in case:
            st.locals[p] = V.num_const(case[p]) if not isinstance(case[p], str) else case[p]
            continue
        if p not in c.params:
            raise ToolLimit("parameter %s of %s has no type in the contract (signature changed?)" % (p, c.name))
        st.locals[p] = I.make_input(st, p + (tag if (tag and p in ctx.vary) else ""), c.params[p], writable=c.param_writable(p))
    for p in c.params:
        if p not in pnames:
            raise ToolLimit("contract of %s names parameter %s which the function no longer has" % (c.name, p))
    for g, ty in c.ghost.items():
        st.locals[g] = I.make_input(st, g, ty, writable=False)
    entry = st.copy()
    st.old = entry
    ctx.entry = entry
    ctx.cur_func = c.name + suffix
    # assume requires
    for i, r in enumerate(c.requires):
        rid, text = r if isinstance(r, tuple) else ("requires%d" % i, r)
        h = eval_clause(I, text, st, -1, old=entry)
        if h is False:
            raise ToolLimit("requires clause %s of %s is false in case %r" % (rid, c.name, case))
        if h is not True:
            st.pc.append(z(h))
    entry.pc = list(st.pc)
    entry.heap = dict(st.heap)
    outs = I.exec_block(strip_docstring(fn.body), st)
    cuts = c.options.get("cuts")
    if cuts and len(ctx.__dict__.get("cuts_used", ())) != len(cuts):
        missing = [cu for i, cu in enumerate(cuts) if i not in ctx.__dict__.get("cuts_used", ())]
        msg = "contract cut point(s) of %s not found in the source (statement text changed): %s" % (c.name, [cu.get("before") for cu in missing])
        if any(cu.get("havoc") for cu in missing):
            raise ToolLimit(msg)
        # assertion-only cuts forget nothing: every other obligation is still generated (and can still report a violation); only the
        # cut's own assertions are lost, which is reported as a tool limit of this function (exit 3 unless something is refuted)
        ctx.__dict__.setdefault("soft_limits", []).append(msg)
    return entry, outs


def _generate_case(c, fn, case, ci, registry, rep):
    ctx = Ctx(registry, c, c.file, fn)
    ctx.vary = ()
    if c.options.get("harness_imports"):
        ctx.imports = dict(c.options["harness_imports"])
    I = Interp(ctx)
    suffix = "" if len(c.cases) == 1 else "[case%d]" % ci
    entry, outs = _run_body(c, fn, case, ctx, I, suffix)
    rep.vacuity.append((ctx.cur_func + ".requires_satisfiable", list(entry.pc)))
    nret = 0
    for k, s2, v in outs:
        if k == "raise":
            continue
        if k not in ("ret", "fall"):
            raise ToolLimit("function body ended with %s" % k)
        nret += 1
        if k == "fall":
            v = None
        post = s2.copy()
        post.old = entry
        env = {"result": v}
        if c.returns:
            if len(c.returns) == 1 and not isinstance(v, TupleV):
                env[c.returns[0][0]] = v
            else:
                if not isinstance(v, TupleV) or len(v.items) != len(c.returns):
                    ctx.oblige("return_shape", False, s2, fn, "", (), note="return value does not have the %d components the contract names" % len(c.returns))
                    continue
                for (rn, rt), item in zip(c.returns, v.items):
                    env[rn] = item
        # parameters in ensures denote entry values (rebinding a parameter is invisible to the caller)
        post.locals = dict(entry.locals)
        post.locals.update(env)
        rep.vacuity.append(("%s.return%d_reachable" % (ctx.cur_func, nret), list(s2.pc)))
        for lem in c.options.get("ensures_lemmas", ()):
            h = eval_clause(I, lem, post, 0, old=entry)
            if h is not True:
                post.pc.append(z(h))
        for eid, text in c.ensures:
            tags = tuple(t for t in eid.split(".")[0:1] if t.startswith("C"))
            try:
                g = eval_clause(I, text, post, +1, old=entry)
            except ToolLimit as e:
                # e.g. a result component that is unbound on this path
                raise
            if isinstance(g, MaybeUnbound):
                g = g.val
            ctx.cur_func = c.name + suffix
            ob_hyps = post.pc
            name = "%s.ensures.%s%s" % (c.name + suffix, eid, "" if nret == 1 else ".r%d" % nret)
            if g is True:
                # decided while evaluating the clause on this path (e.g. a reads clause over the recorded read set, or an antecedent that is
                # concretely false here): still listed by name, discharged without a solver call
                triv = Obligation(name, "ensures", c.name, [], z3.BoolVal(True), fn.lineno, tags, text + "   [true by evaluation on this path]")
                triv.trivial = True
                ctx.obligations.append(triv)
                continue
            gg = z(g) if not isinstance(g, z3.ExprRef) else g
            base = Obligation(name, "ensures", c.name, list(ob_hyps), gg, fn.lineno, tags, text)
            ctx.obligations += _case_split(I, base, c.options.get("split", {}).get(eid, ()), post)
    for rel in c.options.get("relational", ()):
        _relational(c, fn, case, suffix, registry, rep, rel)
    rep.obligations += ctx.obligations
    rep.returns += nret
    rep.merges += ctx.merges
    rep.dead_paths += ctx.dead_paths
    rep.dropped += ctx.dropped
    rep.notes += ctx.tool_notes
    for m in ctx.__dict__.get("soft_limits", ()):
        rep.soft_limit = m
    if getattr(ctx, "tier_b_skipped", 0):
        rep.notes.append("%s: %d obligations of kinds %s are NOT claimed by this contract (tier B: bounded stand-in only)"
                         % (c.name, ctx.tier_b_skipped, sorted(c.options.get("tier_b_kinds") or ()) + ["%s at `%s`" % kf for kf in (c.options.get("tier_b_sites") or ())]))


def _merged_run(c, fn, case, ctx, I, suffix, tag):
    from .interp import try_merge
    entry, outs = _run_body(c, fn, case, ctx, I, suffix, tag)
    rets = []
    for k, s2, v in outs:
        if k == "raise":
            continue
        if k == "fall":
            v = None
        s2.locals = {"$ret": v}
        rets.append(s2)
    if not rets:
        raise ToolLimit("relational: no return")
    m = rets[0] if len(rets) == 1 else try_merge(rets)
    if m is None:
        raise ToolLimit("relational: return states of %s cannot be merged" % c.name)
    v = m.locals["$ret"]
    if isinstance(v, MaybeUnbound):
        v = v.val
    return entry, m, v


def _relational(c, fn, case, suffix, registry, rep, rel):
    """Two-copy obligation: run the body twice, the parameters in rel['vary'] get separate symbols (suffix _1 / _2),
    assume rel['pre'], prove rel['post'] over result names suffixed _1 / _2."""
    ctx = Ctx(registry, c, c.file, fn)
    ctx.vary = tuple(rel["vary"])
    if c.options.get("harness_imports"):
        ctx.imports = dict(c.options["harness_imports"])
    I = Interp(ctx)
    e1, m1, v1 = _merged_run(c, fn, case, ctx, I, suffix, "_1")
    e2, m2, v2 = _merged_run(c, fn, case, ctx, I, suffix, "_2")
    st = m2.copy()
    st.pc = list(m1.pc) + list(m2.pc)
    st.heap = dict(m1.heap)
    st.heap.update(m2.heap)
    env = {}
    for p in c.params:
        if p in case:
            env[p] = e1.locals[p]
            continue
        if p in ctx.vary:
            env[p + "_1"] = e1.locals[p]
            env[p + "_2"] = e2.locals[p]
        else:
            env[p] = e1.locals[p]
    for tagn, v in (("_1", v1), ("_2", v2)):
        if c.returns and (len(c.returns) > 1 or isinstance(v, TupleV)):
            for (rn, rt), item in zip(c.returns, v.items):
                env[rn + tagn] = item
        elif c.returns:
            env[c.returns[0][0] + tagn] = v
        env["result" + tagn] = v
    st.locals = env
    st.old = None
    pre = eval_clause(I, rel["pre"], st, -1)
    if pre is not True:
        st.pc.append(z(pre))
    for eid, text in rel["post"]:
        g = eval_clause(I, text, st, +1)
        if g is True:
            continue
        tags = tuple(t for t in eid.split(".")[0:1] if t.startswith("C"))
        base = Obligation("%s.relational.%s" % (c.name + suffix, eid), "relational", c.name, list(st.pc),
                          z(g), fn.lineno, tags, "%s  ==>  %s" % (rel["pre"], text))
        rep.obligations += _case_split(I, base, rel.get("split", ()), st)


def _case_split(I, ob, splits, st):
    """Exhaustive case split on the given spec conditions (c / not c for each): the goal is proved in every case."""
    if not splits:
        return [ob]
    conds = [z(eval_clause(I, t, st, 0)) for t in splits]
    out = []
    import itertools as it
    for bits in it.product((True, False), repeat=len(conds)):
        extra = [cnd if b else z3.Not(cnd) for cnd, b in zip(conds, bits)]
        tag = "".join("T" if b else "F" for b in bits)
        out.append(Obligation("%s|%s" % (ob.name, tag), ob.kind, ob.func, ob.hyps + extra, ob.goal, ob.lineno, ob.tags,
                              ob.note + "   [case " + ", ".join(("" if b else "not ") + t for t, b in zip(splits, bits)) + "]"))
    return out
