"""Engine-vs-CPython cross-check.

e3/capture_calls.py (under /venv/bin/python) records real calls of the process functions during real model runs
(deep-copied arguments and results).  Here the VC generator's own interpreter -- the same statement / expression / heap / call
code that builds the symbolic terms -- is run in CONCRETE mode (Python floats, loops executed, math.exp/log) on the recorded
arguments; its results must agree with CPython's (relative tolerance 1e-9).  A disagreement means the encoder misreads Python:
exit 3 (never a VIOLATION)."""
import json
import math
import os
import subprocess
import sys
import tempfile

from . import values as V
from .values import Ref, TupleV, ToolLimit
from .interp import Ctx, Interp, State, ArrRec, ObjRec, find_function, strip_docstring, ConcreteError
from .spec import Contract, REGISTRY

VERIF = os.path.dirname(os.path.dirname(os.path.abspath(__file__)))
REPO = os.environ.get("VERIF_REPO", "/repo")

WHERE = {
    "growing_degree_day": "aquacrop/solution/growing_degree_day.py", "check_groundwater_table": "aquacrop/solution/check_groundwater_table.py",
    "pre_irrigation": "aquacrop/solution/pre_irrigation.py", "drainage": "aquacrop/solution/drainage.py",
    "rainfall_partition": "aquacrop/solution/rainfall_partition.py", "irrigation": "aquacrop/solution/irrigation.py",
    "infiltration": "aquacrop/solution/infiltration.py", "capillary_rise": "aquacrop/solution/capillary_rise.py",
    "germination": "aquacrop/solution/germination.py", "growth_stage": "aquacrop/solution/growth_stage.py",
    "canopy_cover": "aquacrop/solution/canopy_cover.py", "soil_evaporation": "aquacrop/solution/soil_evaporation.py",
    "transpiration": "aquacrop/solution/transpiration.py", "groundwater_inflow": "aquacrop/solution/groundwater_inflow.py",
    "HIref_current_day": "aquacrop/solution/HIref_current_day.py", "biomass_accumulation": "aquacrop/solution/biomass_accumulation.py",
    "harvest_index": "aquacrop/solution/harvest_index.py", "root_zone_water": "aquacrop/solution/root_zone_water.py",
    "root_development": "aquacrop/solution/root_development.py",
}


def build(I, st, x, name):
    if isinstance(x, dict):
        if "__arr__" in x:
            oid = I.ctx.new_oid()
            vals = [int(v) for v in x["__arr__"]] if x.get("int") else [float(v) for v in x["__arr__"]]
            st.heap[oid] = ArrRec(None, len(vals), "Int" if x.get("int") else "Real", writable=True, fresh=False, name=name, conc=vals)
            return Ref(oid)
        if "__tuple__" in x:
            return TupleV([build(I, st, v, "%s[%d]" % (name, i)) for i, v in enumerate(x["__tuple__"])])
        if "__obj__" in x:
            oid = I.ctx.new_oid()
            fields = {k: build(I, st, v, "%s.%s" % (name, k)) for k, v in x["fields"].items()}
            st.heap[oid] = ObjRec(x["__obj__"], fields, name=name, lazy=False, writable=True)
            return Ref(oid)
        return V.Opaque(name)
    return x


def unbuild(st, v, depth=0):
    if isinstance(v, Ref):
        rec = st.heap[v.oid]
        if isinstance(rec, ArrRec):
            return {"__arr__": list(rec.conc) if rec.conc is not None else None}
        if isinstance(rec, ObjRec) and depth < 3:
            return {"__obj__": rec.cls, "fields": {k: unbuild(st, x, depth + 1) for k, x in rec.fields.items()}}
        return {"__opaque__": "ref"}
    if isinstance(v, TupleV):
        return {"__tuple__": [unbuild(st, x, depth + 1) for x in v.items]}
    if isinstance(v, V.Opaque):
        return {"__opaque__": v.tag}
    return v


def close(a, b):
    if isinstance(a, bool) or isinstance(b, bool):
        return bool(a) == bool(b)
    if a is None or b is None:
        return a is None and b is None
    if isinstance(a, (int, float)) and isinstance(b, (int, float)):
        if math.isnan(float(a)) and math.isnan(float(b)):
            return True
        return abs(float(a) - float(b)) <= 1e-9 * max(1.0, abs(float(a)), abs(float(b)))
    return a == b


def compare(exp, got, path, out):
    if isinstance(exp, dict) and "__opaque__" in exp:
        return
    if isinstance(got, dict) and "__opaque__" in got:
        return
    if isinstance(exp, dict) and "__arr__" in exp:
        g = got.get("__arr__") if isinstance(got, dict) else None
        if g is None or len(g) != len(exp["__arr__"]):
            out.append("%s: array shape" % path)
            return
        for i, (x, y) in enumerate(zip(exp["__arr__"], g)):
            if not close(x, y):
                out.append("%s[%d]: CPython %r engine %r" % (path, i, x, y))
        return
    if isinstance(exp, dict) and "__tuple__" in exp:
        g = got.get("__tuple__") if isinstance(got, dict) else None
        if g is None or len(g) != len(exp["__tuple__"]):
            out.append("%s: tuple shape (CPython %d)" % (path, len(exp["__tuple__"])))
            return
        for i, (x, y) in enumerate(zip(exp["__tuple__"], g)):
            compare(x, y, "%s[%d]" % (path, i), out)
        return
    if isinstance(exp, dict) and "__obj__" in exp:
        gf = got.get("fields", {}) if isinstance(got, dict) else {}
        for k, x in exp["fields"].items():
            if k in gf:
                compare(x, gf[k], "%s.%s" % (path, k), out)
            else:
                out.append("%s.%s: missing in the engine's result" % (path, k))
        return
    if not close(exp, got):
        out.append("%s: CPython %r engine %r" % (path, exp, got))


def run_one(fname, sample):
    rel = WHERE[fname]
    fn = find_function(rel, fname)
    c = Contract(rel, fname, params={}, options={"inline_all": True})
    ctx = Ctx(REGISTRY, c, rel, fn)
    ctx.concrete = True
    I = Interp(ctx)
    st = State()
    pnames = [a.arg for a in fn.args.args]
    for p, a in zip(pnames, sample["args"]):
        st.locals[p] = build(I, st, a, p)
    outs = I.exec_block(strip_docstring(fn.body), st)
    rets = [(s2, v) for k, s2, v in outs if k in ("ret", "fall")]
    if len(rets) != 1:
        raise ToolLimit("concrete run ended with %d return states" % len(rets))
    s2, v = rets[0]
    return unbuild(s2, v)


def main(per_func=20, seed=0):
    V.FLOATMODE = True
    fd, path = tempfile.mkstemp(suffix=".json")
    os.close(fd)
    env = dict(os.environ, PYTHONWARNINGS="ignore")
    if REPO != "/repo":
        env["PYTHONPATH"] = REPO
    p = subprocess.run(["/venv/bin/python", os.path.join(VERIF, "e3", "capture_calls.py"), "--out", path, "--per_func", str(per_func), "--seed", str(seed)],
                       capture_output=True, text=True, env=env, timeout=1800)
    samples = json.load(open(path))
    os.unlink(path)
    report = {}
    bad = 0
    limits = 0
    for fname, lst in samples.items():
        ok = 0
        problems = []
        tl = None
        for smp in lst:
            try:
                got = run_one(fname, smp)
                diffs = []
                compare(smp["result"], got, "result", diffs)
                if diffs:
                    problems.append(diffs[:3])
                else:
                    ok += 1
            except ToolLimit as e:
                tl = str(e)
            except ConcreteError as e:
                problems.append(["engine predicts exception %s, CPython returned normally" % e])
            except RecursionError as e:
                tl = "recursion"
        report[fname] = dict(samples=len(lst), agree=ok, disagree=len(problems), tool_limit=tl, first_problem=problems[0] if problems else None)
        bad += len(problems)
        limits += 1 if tl else 0
    return report, bad, limits


if __name__ == "__main__":
    rep, bad, limits = main()
    for k, v in rep.items():
        print(k, v)
    print("disagreements:", bad, "tool limits:", limits)
    sys.exit(3 if bad else 0)
