"""Obligation discharge.

Stage 1 (QF pipeline): quantified hypotheses are instantiated at the index terms that occur in the
problem and then dropped (weakening: sound for `unsat`), select-over-store is expanded, the spec sum
`wsum` is rewritten over stores and unfolded between the index terms present, and every exp/log/pow
application, every read of a base array and every remaining wsum application is replaced by a fresh
constant with the instantiated axioms / congruence constraints (Ackermann expansion).  What remains is
quantifier-free non-linear real / linear integer arithmetic for z3 (and cvc5 as second back end).
Stage 2: the original quantified formula plus the instantiated axioms, z3 with several seeds.

`unsat` = discharged.  `sat` is only a candidate refutation (the hypotheses were weakened and the
transcendental functions over-approximated); it is reported with the model and must be replayed.
"""
import os
import subprocess
import tempfile
import time
import itertools
import z3

MAXROUNDS = 2


# ----------------------------------------------------------------------------- term utilities
def is_app_of(t, name):
    return z3.is_app(t) and t.decl().name() == name and t.decl().kind() == z3.Z3_OP_UNINTERPRETED


def subterms(t, seen=None, out=None):
    if seen is None:
        seen, out = set(), []
    stack = [t]
    while stack:
        x = stack.pop()
        i = x.get_id()
        if i in seen:
            continue
        seen.add(i)
        out.append(x)
        if z3.is_quantifier(x):
            stack.append(x.body())
        elif z3.is_app(x):
            stack.extend(x.children())
    return out


def rewrite(t, fn, memo):
    """bottom-up rewrite of ground terms; fn(t, new_children) -> term or None (rebuild)."""
    i = t.get_id()
    if i in memo:
        return memo[i]
    if z3.is_quantifier(t) or z3.is_var(t):
        memo[i] = t
        return t
    ch = t.children()
    nch = [rewrite(c, fn, memo) for c in ch]
    r = fn(t, nch)
    if r is None:
        if any(not a.eq(b) for a, b in zip(ch, nch)):
            r = rebuild(t, nch)
        else:
            r = t
    memo[i] = r
    return r


def rebuild(t, nch):
    d = t.decl()
    k = d.kind()
    if k == z3.Z3_OP_AND:
        return z3.And(*nch)
    if k == z3.Z3_OP_OR:
        return z3.Or(*nch)
    if k == z3.Z3_OP_ADD and len(nch) > 2:
        r = nch[0]
        for c in nch[1:]:
            r = r + c
        return r
    if k == z3.Z3_OP_MUL and len(nch) > 2:
        r = nch[0]
        for c in nch[1:]:
            r = r * c
        return r
    if k == z3.Z3_OP_DISTINCT:
        return z3.Distinct(*nch)
    return d(*nch)


# ----------------------------------------------------------------------------- quantifier handling
class Skolem:
    def __init__(self):
        self.n = itertools.count()


def inst_formula(f, pol, terms, sk, stats):
    """Replace quantifiers: universal in positive polarity -> conjunction of instances over `terms`;
    universal in negative polarity (= existential) -> Skolem constant.  pol=+1: f is asserted."""
    if z3.is_quantifier(f):
        univ = f.is_forall()
        nv = f.num_vars()
        if (univ and pol > 0) or ((not univ) and pol < 0):
            # instantiate
            stats["dropped_quantifiers"] = stats.get("dropped_quantifiers", 0) + 1
            if nv != 1 or not f.var_sort(0) == z3.IntSort():
                return z3.BoolVal(True) if pol > 0 else z3.BoolVal(False)
            insts = []
            for tm in terms:
                b = z3.substitute_vars(f.body(), tm)
                insts.append(inst_formula(b, pol, terms, sk, stats))
            if not insts:
                return z3.BoolVal(True) if univ else z3.BoolVal(False)
            return z3.And(*insts) if univ else z3.Or(*insts)
        if (univ and pol < 0) or ((not univ) and pol > 0):
            consts = []
            for i in range(nv):
                srt = f.var_sort(i)
                consts.append(z3.Const("sk!%s!%d" % (f.var_name(i), next(sk.n)), srt))
            # substitute_vars: var index 0 is the LAST bound variable
            b = z3.substitute_vars(f.body(), *reversed(consts))
            stats.setdefault("new_terms", []).extend(consts)
            return inst_formula(b, pol, terms, sk, stats)
        stats["kept_quantifiers"] = stats.get("kept_quantifiers", 0) + 1
        return f
    if not z3.is_app(f) or not z3.is_bool(f):
        return f
    if not has_quant(f):
        return f
    k = f.decl().kind()
    ch = f.children()
    if k == z3.Z3_OP_AND:
        return z3.And(*[inst_formula(c, pol, terms, sk, stats) for c in ch])
    if k == z3.Z3_OP_OR:
        return z3.Or(*[inst_formula(c, pol, terms, sk, stats) for c in ch])
    if k == z3.Z3_OP_NOT:
        return z3.Not(inst_formula(ch[0], -pol, terms, sk, stats))
    if k == z3.Z3_OP_IMPLIES:
        return z3.Implies(inst_formula(ch[0], -pol, terms, sk, stats), inst_formula(ch[1], pol, terms, sk, stats))
    if k == z3.Z3_OP_ITE:
        c = ch[0]
        if has_quant(c):
            stats["kept_quantifiers"] = stats.get("kept_quantifiers", 0) + 1
            return f
        return z3.If(c, inst_formula(ch[1], pol, terms, sk, stats), inst_formula(ch[2], pol, terms, sk, stats))
    # quantifier under == / xor etc: weaken.  In positive polarity an unknown Bool is replaced by a fresh constant (sound weakening
    # only if we drop the whole conjunct): signal to caller
    stats["kept_quantifiers"] = stats.get("kept_quantifiers", 0) + 1
    return f


_HQ = {}


def has_quant(f):
    i = f.get_id()
    r = _HQ.get(i)
    if r is not None:
        return r
    if z3.is_quantifier(f):
        r = True
    elif z3.is_app(f):
        r = any(has_quant(c) for c in f.children())
    else:
        r = False
    _HQ[i] = r
    return r


def index_terms(fs):
    """Int-sorted ground terms used as array indices or as wsum bounds."""
    out = {}
    seen = set()
    allt = []
    for f in fs:
        subterms(f, seen, allt)
    for t in allt:
        if not z3.is_app(t):
            continue
        k = t.decl().kind()
        cand = []
        if k == z3.Z3_OP_SELECT:
            cand.append(t.arg(1))
        elif k == z3.Z3_OP_STORE:
            cand.append(t.arg(1))
        elif is_app_of(t, "wsum"):
            cand.append(t.arg(2))
            cand.append(t.arg(2) - 1)
        for c in cand:
            if ground(c):
                c = z3.simplify(c)
                out[c.get_id()] = c
    return list(out.values())


_GR = {}


def ground(t):
    i = t.get_id()
    r = _GR.get(i)
    if r is not None:
        return r
    if z3.is_var(t):
        r = False
    elif z3.is_quantifier(t):
        r = True
    elif z3.is_app(t):
        r = all(ground(c) for c in t.children())
    else:
        r = True
    _GR[i] = r
    return r


# ----------------------------------------------------------------------------- array / wsum expansion
WS = z3.Function("wsum", z3.ArraySort(z3.IntSort(), z3.RealSort()), z3.ArraySort(z3.IntSort(), z3.RealSort()), z3.IntSort(), z3.RealSort())


_EXP_MEMO = {}


def expand_arrays(f):
    memo = _EXP_MEMO
    MILLE = z3.RealVal(1000)

    def sel(a, j):
        # push a select through store / ite / const-array
        if z3.is_app(a):
            k = a.decl().kind()
            if k == z3.Z3_OP_STORE:
                i, v = a.arg(1), a.arg(2)
                ii, jj = z3.simplify(i), z3.simplify(j)
                if ii.eq(jj):
                    return v
                if z3.is_int_value(ii) and z3.is_int_value(jj):
                    return sel(a.arg(0), j)
                d = z3.simplify(ii - jj)
                if z3.is_int_value(d) and d.as_long() != 0:
                    return sel(a.arg(0), j)
                return z3.If(i == j, v, sel(a.arg(0), j))
            if k == z3.Z3_OP_ITE:
                return z3.If(a.arg(0), sel(a.arg(1), j), sel(a.arg(2), j))
            if k == z3.Z3_OP_CONST_ARRAY:
                return a.arg(0)
        return z3.Select(a, j)

    def wsum(d, a, k, top=True):
        if z3.is_app(a):
            kk = a.decl().kind()
            if kk == z3.Z3_OP_STORE:
                base, i, v = a.arg(0), a.arg(1), a.arg(2)
                # lemma sum_update (proved by induction in the lemma library)
                return wsum(d, base, k, False) + z3.If(z3.And(i >= 0, i < k), MILLE * sel(d, i) * (v - sel(base, i)), z3.RealVal(0))
            if kk == z3.Z3_OP_ITE:
                return z3.If(a.arg(0), wsum(d, a.arg(1), k, False), wsum(d, a.arg(2), k, False))
            if kk == z3.Z3_OP_CONST_ARRAY:
                cv = a.arg(0)
                if z3.is_rational_value(cv) and cv.numerator_as_long() == 0:
                    return z3.RealVal(0)
        if z3.is_app(d) and d.decl().kind() == z3.Z3_OP_ITE:
            return z3.If(d.arg(0), wsum(d.arg(1), a, k, False), wsum(d.arg(2), a, k, False))
        if top:
            return None
        return WS(d, a, k)

    def fn(t, nch):
        if not z3.is_app(t):
            return None
        k = t.decl().kind()
        if k == z3.Z3_OP_SELECT:
            return sel(nch[0], nch[1])
        if is_app_of(t, "wsum"):
            r = wsum(nch[0], nch[1], nch[2])
            if r is not None:
                return rewrite(r, fn, memo) if False else r
            return None
        return None

    return rewrite(f, fn, memo)


# ----------------------------------------------------------------------------- Ackermann expansion with axioms
def ackermannize(fs, stats):
    """fs: list of ground formulas.  Returns (new formulas, axioms)."""
    memo = {}
    tables = {"exp": [], "log": [], "pow": [], "wsum": [], "select": [], "round": [], "sine": [], "rdepth": []}
    byid = {}
    cnt = itertools.count()

    def fn(t, nch):
        if not z3.is_app(t):
            return None
        k = t.decl().kind()
        name = None
        if k == z3.Z3_OP_SELECT and z3.is_app(nch[0]) and nch[0].decl().kind() == z3.Z3_OP_UNINTERPRETED:
            name = "select"      # base arrays: constants, and applications of the ghost weight family efac(z)
        elif k == z3.Z3_OP_UNINTERPRETED and t.decl().name() in ("exp", "log", "pow", "wsum", "sine", "rdepth") and t.num_args() > 0:
            name = t.decl().name()
        elif k == z3.Z3_OP_UNINTERPRETED and t.decl().name().startswith("round_") and t.num_args() == 1:
            name = "round"
        if name is None:
            return None
        if name == "round":
            key = (t.decl().name(), z3.simplify(nch[0]).get_id())
            if key in byid:
                return byid[key]
            c = z3.Const("%s!a%d" % (t.decl().name(), next(cnt)), t.sort())
            byid[key] = c
            tables["round"].append((c, [z3.simplify(nch[0])], t.decl().name()))
            return c
        key = (name,) + tuple(z3.simplify(c).get_id() if name != "select" or i > 0 else c.get_id() for i, c in enumerate(nch))
        if key in byid:
            return byid[key]
        c = z3.Const("%s!a%d" % (name, next(cnt)), t.sort())
        byid[key] = c
        tables[name].append((c, [z3.simplify(x) if not z3.is_array(x) else x for x in nch]))
        return c

    out = [rewrite(f, fn, memo) for f in fs]
    ax = []
    R0, R1 = z3.RealVal(0), z3.RealVal(1)
    # --- select congruence
    sel = tables["select"]
    for (c1, a1), (c2, a2) in itertools.combinations(sel, 2):
        if a1[0].eq(a2[0]):
            if z3.is_int_value(a1[1]) and z3.is_int_value(a2[1]):
                continue
            d = z3.simplify(a1[1] - a2[1])
            if z3.is_int_value(d):
                continue
            ax.append(z3.Implies(a1[1] == a2[1], c1 == c2))
    # --- round_k(x): within half a unit of the last place, on the 10^-k grid, monotone (round-half-even is non-decreasing)
    RND = tables["round"]
    for c, (x,), fname in RND:
        if fname == "round_int":
            cr = z3.ToReal(c)
            ax += [x - cr <= z3.RealVal("1/2"), cr - x <= z3.RealVal("1/2")]
        else:
            k = int(fname.split("_")[1])
            scale = z3.RealVal(10 ** k)
            half = z3.RealVal(1) / (2 * scale)
            m = z3.Int("%s!grid" % c.decl().name())
            ax += [x - c <= half, c - x <= half, c * scale == z3.ToReal(m)]
    for (c1, (x1,), f1), (c2, (x2,), f2) in itertools.combinations(RND, 2):
        if f1 == f2:
            ax += [z3.Implies(x1 <= x2, c1 <= c2), z3.Implies(x2 <= x1, c2 <= c1)]
    # --- sin: only its range; pi: a rational enclosure
    for c, (x,) in tables["sine"]:
        ax += [c >= -1, c <= 1]
    # --- rdepth(z, zmin): ASSUMED contract of the layer walk (bounded-checked by e3/root_helper.py): between zmin and z, non-decreasing in z
    RD = tables["rdepth"]
    for c, (x, m) in RD:
        ax += [z3.Implies(x >= m, z3.And(c >= m, c <= x))]
    for (c1, (x1, m1)), (c2, (x2, m2)) in itertools.combinations(RD, 2):
        ax += [z3.Implies(z3.And(m1 == m2, x1 <= x2), c1 <= c2), z3.Implies(z3.And(m1 == m2, x2 <= x1), c2 <= c1)]
    pi = z3.Real("pi!const")
    ax += [pi > z3.RealVal("3.14159"), pi < z3.RealVal("3.1416")]
    # --- exp
    E = tables["exp"]
    for c, (t,) in E:
        ax += [c > 0, c >= 1 + t, z3.Implies(t < 0, c < 1), z3.Implies(t == 0, c == 1), z3.Implies(t < 1, c * (1 - t) <= 1)]
    for (c1, (t1,)), (c2, (t2,)) in itertools.combinations(E, 2):
        ax += [z3.Implies(t1 < t2, c1 < c2), z3.Implies(t2 < t1, c2 < c1), z3.Implies(t1 == t2, c1 == c2),
               z3.Implies(t1 == -t2, c1 * c2 == 1),
               c2 >= c1 * (1 + t2 - t1), c1 >= c2 * (1 + t1 - t2)]
        # chord through (0,1):  0 <= t1/t2 <= 1  =>  c1 <= 1 + (t1/t2)(c2-1)
        ax += [z3.Implies(z3.And(t2 != 0, t1 / t2 >= 0, t1 / t2 <= 1), c1 <= 1 + (t1 / t2) * (c2 - 1)),
               z3.Implies(z3.And(t1 != 0, t2 / t1 >= 0, t2 / t1 <= 1), c2 <= 1 + (t2 / t1) * (c1 - 1))]
    if len(E) <= 6:
        for (c1, (t1,)), (c2, (t2,)), (c3, (t3,)) in itertools.permutations(E, 3):
            if c1.get_id() < c2.get_id():
                ax.append(z3.Implies(t3 == t1 + t2, c3 == c1 * c2))
    # --- log
    L = tables["log"]
    for c, (a,) in L:
        ax += [z3.Implies(a > 0, z3.And(c <= a - 1, a * c >= a - 1)), z3.Implies(a == 1, c == 0),
               z3.Implies(a > 1, c > 0), z3.Implies(z3.And(a > 0, a < 1), c < 0)]
    for (c1, (a1,)), (c2, (a2,)) in itertools.combinations(L, 2):
        g = z3.And(a1 > 0, a2 > 0)
        ax += [z3.Implies(z3.And(g, a1 < a2), c1 < c2), z3.Implies(z3.And(g, a2 < a1), c2 < c1), z3.Implies(a1 == a2, c1 == c2),
               z3.Implies(z3.And(g, a1 * a2 == 1), c1 == -c2)]
    if len(L) <= 6:
        for (c1, (a1,)), (c2, (a2,)), (c3, (a3,)) in itertools.permutations(L, 3):
            if c1.get_id() < c2.get_id():
                ax.append(z3.Implies(z3.And(a1 > 0, a2 > 0, a3 == a1 * a2), c3 == c1 + c2))
    # --- exp / log inverse
    for (ce, (t,)) in E:
        for (cl, (a,)) in L:
            ax += [z3.Implies(z3.And(a > 0, t == cl), ce == a), z3.Implies(z3.And(a > 0, ce == a), t == cl),
                   # exp is increasing and exp(log a) = a:  exp(t) >= a  <=>  t >= log a
                   z3.Implies(a > 0, (ce >= a) == (t >= cl)), z3.Implies(a > 0, (ce > a) == (t > cl))]
    # --- pow(x, y), x >= 0
    P = tables["pow"]
    for c, (x, y) in P:
        g = x >= 0
        ax += [z3.Implies(g, c >= 0), z3.Implies(z3.And(x == 0, y > 0), c == 0), z3.Implies(x == 1, c == 1), z3.Implies(z3.And(g, y == 0), c == 1),
               z3.Implies(y == 1, c == x), z3.Implies(z3.And(x > 0, x < 1, y > 0), z3.And(c > 0, c < 1)), z3.Implies(z3.And(x > 1, y > 0), c > 1),
               z3.Implies(z3.And(x > 0), c > 0),
               z3.Implies(z3.And(x > 0, x < 1, y >= 1), c <= x), z3.Implies(z3.And(x > 0, x < 1, y > 0, y <= 1), c >= x)]
    for (c1, (x1, y1)), (c2, (x2, y2)) in itertools.combinations(P, 2):
        g = z3.And(x1 >= 0, x2 >= 0)
        ax += [z3.Implies(z3.And(x1 == x2, y1 == y2), c1 == c2),
               z3.Implies(z3.And(g, y1 == y2, y1 > 0, x1 < x2), c1 < c2), z3.Implies(z3.And(g, y1 == y2, y1 > 0, x2 < x1), c2 < c1),
               z3.Implies(z3.And(g, y1 == y2, y1 > 0, x1 <= x2), c1 <= c2), z3.Implies(z3.And(g, y1 == y2, y1 > 0, x2 <= x1), c2 <= c1)]
    # --- wsum: instantiated recursive definition between the index terms present
    W = tables["wsum"]
    MILLE = z3.RealVal(1000)
    extra_sel = []
    for c, (d, a, k) in W:
        ax.append(z3.Implies(k <= 0, c == 0))
    def _efac_arg(d):
        return d.arg(0) if (z3.is_app(d) and d.decl().name() == "efac" and d.num_args() == 1) else None
    WE = [(c, d, a, k, _efac_arg(d)) for c, (d, a, k) in W]
    WE = [x for x in WE if x[4] is not None]
    for (c1, d1, a1, k1, z1), (c2, d2, a2, k2, z2) in itertools.combinations(WE, 2):
        if not d1.eq(d2) and a1.eq(a2):
            ax.append(z3.Implies(z3.And(z1 == z2, k1 == k2), c1 == c2))
    SE = [(c, a, _efac_arg(a[0])) for c, a in sel]
    SE = [x for x in SE if x[2] is not None]
    for (c1, a1, z1), (c2, a2, z2) in itertools.combinations(SE, 2):
        if not a1[0].eq(a2[0]):
            ax.append(z3.Implies(z3.And(z1 == z2, a1[1] == a2[1]), c1 == c2))
    for (c1, (d1, a1, k1)), (c2, (d2, a2, k2)) in itertools.permutations(W, 2):
        if d1.eq(d2) and a1.eq(a2):
            ax.append(z3.Implies(k1 == k2, c1 == c2))
            pass
    stats["ackermann"] = {k: len(v) for k, v in tables.items()}
    stats["ackermann"]["round"] = len(tables["round"])
    stats["_select_table"] = [(c, a[0], a[1]) for c, a in tables["select"]]
    return out, ax, extra_sel


def wsum_unfoldings(fs):
    """wsum(d,a,k2) = wsum(d,a,k1) + 1000*d[k1]*a[k1]  for k2 == k1+1 >= 1, for every pair of wsum terms over the same arrays"""
    W = {}
    seen = set()
    allt = []
    for f in fs:
        subterms(f, seen, allt)
    for t in allt:
        if is_app_of(t, "wsum"):
            W[t.get_id()] = t
    W = list(W.values())
    out = []
    M = z3.RealVal(1000)
    for w1, w2 in itertools.permutations(W, 2):
        if w1.arg(0).eq(w2.arg(0)) and w1.arg(1).eq(w2.arg(1)):
            k1, k2 = w1.arg(2), w2.arg(2)
            d = z3.simplify(k2 - k1)
            if z3.is_int_value(d) and d.as_long() != 1:
                continue
            out.append(z3.Implies(z3.And(k2 == k1 + 1, k1 >= 0), w2 == w1 + M * z3.Select(w1.arg(0), k1) * z3.Select(w1.arg(1), k1)))
    return out


# ----------------------------------------------------------------------------- pipeline
def conjuncts(f):
    if z3.is_app(f) and f.decl().kind() == z3.Z3_OP_AND:
        out = []
        for c in f.children():
            out += conjuncts(c)
        return out
    return [f]


class QInfo:
    __slots__ = ("proxy", "univ", "body", "pol", "done", "patterns", "name")

    def __init__(self, proxy, univ, body, pol, name):
        self.proxy, self.univ, self.body, self.pol, self.name = proxy, univ, body, pol, name
        self.done = {}
        self.patterns = None


def strip_array(a):
    """base array of a store / ite chain (for trigger matching)"""
    out = []
    stack = [a]
    while stack:
        x = stack.pop()
        if z3.is_app(x):
            k = x.decl().kind()
            if k == z3.Z3_OP_STORE:
                stack.append(x.arg(0))
                continue
            if k == z3.Z3_OP_ITE:
                stack.append(x.arg(1))
                stack.append(x.arg(2))
                continue
        out.append(x)
    return out


def prep(f, pol, qs, sk, cnt):
    """Replace quantifiers by proxies / Skolem constants.  pol=+1: f occurs positively in an asserted formula.
    universal-positive and existential-negative quantifiers become Boolean proxies constrained later by instances (weakening);
    universal-negative / existential-positive ones are Skolemised."""
    if z3.is_quantifier(f):
        univ = f.is_forall()
        nv = f.num_vars()
        if (univ and pol > 0) or ((not univ) and pol < 0):
            p = z3.Bool("q!proxy%d" % next(cnt))
            if nv == 1 and f.var_sort(0) == z3.IntSort():
                qs.append(QInfo(p, univ, f.body(), pol, f.var_name(0)))
            # (other shapes: the proxy stays unconstrained = the hypothesis is dropped)
            return p
        if (univ and pol < 0) or ((not univ) and pol > 0):
            consts = [z3.Const("sk!%s!%d" % (f.var_name(i), next(sk.n)), f.var_sort(i)) for i in range(nv)]
            b = z3.substitute_vars(f.body(), *reversed(consts))
            return prep(b, pol, qs, sk, cnt)
        return z3.Bool("q!opaque%d" % next(cnt))
    if not z3.is_app(f) or not z3.is_bool(f) or not has_quant(f):
        return f
    k = f.decl().kind()
    ch = f.children()
    if k == z3.Z3_OP_AND:
        return z3.And(*[prep(c, pol, qs, sk, cnt) for c in ch])
    if k == z3.Z3_OP_OR:
        return z3.Or(*[prep(c, pol, qs, sk, cnt) for c in ch])
    if k == z3.Z3_OP_NOT:
        return z3.Not(prep(ch[0], -pol, qs, sk, cnt))
    if k == z3.Z3_OP_IMPLIES:
        return z3.Implies(prep(ch[0], -pol, qs, sk, cnt), prep(ch[1], pol, qs, sk, cnt))
    if k == z3.Z3_OP_ITE and not has_quant(ch[0]):
        return z3.If(ch[0], prep(ch[1], pol, qs, sk, cnt), prep(ch[2], pol, qs, sk, cnt))
    # quantifier under == / xor / ite-condition: both polarities.  An unconstrained proxy is NOT a sound weakening there in general,
    # so the whole atom is replaced by a fresh Boolean only when it occurs positively at top level is unknown -> give up on this conjunct:
    raise _Unsupported()


class _Unsupported(Exception):
    pass


def q_patterns(q):
    """(base array id, offset) pairs for select(A, var + c) occurrences in the body; None if the variable also occurs elsewhere in index position"""
    pats = []
    for t in subterms(q.body):
        if z3.is_app(t) and t.decl().kind() == z3.Z3_OP_SELECT:
            idx = t.arg(1)
            off = var_offset(idx)
            if off is None:
                continue
            for base in strip_array(t.arg(0)):
                if ground(base):
                    pats.append((base.get_id(), off))
    return pats


def q_bounds(q):
    """ground lo / hi terms of a body of the shape  (lo <= j and j < hi) => ...  : candidates lo, hi-1, hi, lo-1"""
    b = q.body
    out = []
    if not (z3.is_app(b) and b.decl().kind() == z3.Z3_OP_IMPLIES):
        return out
    guard = b.arg(0)
    atoms = guard.children() if (z3.is_app(guard) and guard.decl().kind() == z3.Z3_OP_AND) else [guard]
    for a in atoms:
        if not (z3.is_app(a) and a.num_args() == 2):
            continue
        k = a.decl().kind()
        x, y = a.arg(0), a.arg(1)
        vx = z3.is_var(x) and z3.get_var_index(x) == 0
        vy = z3.is_var(y) and z3.get_var_index(y) == 0
        if k in (z3.Z3_OP_LE, z3.Z3_OP_GE, z3.Z3_OP_LT, z3.Z3_OP_GT):
            if vx and ground(y) and z3.is_int(y):
                out += [y, z3.simplify(y - 1), z3.simplify(y + 1)]
            elif vy and ground(x) and z3.is_int(x):
                out += [x, z3.simplify(x - 1), z3.simplify(x + 1)]
    return [z3.simplify(t) for t in out]


def var_offset(idx):
    """idx == Var(0) + c  ->  c ; else None"""
    if z3.is_var(idx) and z3.get_var_index(idx) == 0:
        return 0
    if z3.is_app(idx) and idx.decl().kind() in (z3.Z3_OP_ADD, z3.Z3_OP_SUB) and idx.num_args() == 2:
        a, b = idx.arg(0), idx.arg(1)
        if z3.is_var(a) and z3.get_var_index(a) == 0 and z3.is_int_value(b):
            return b.as_long() if idx.decl().kind() == z3.Z3_OP_ADD else -b.as_long()
        if z3.is_var(b) and z3.get_var_index(b) == 0 and z3.is_int_value(a) and idx.decl().kind() == z3.Z3_OP_ADD:
            return a.as_long()
    return None


def ground_selects(fs, seen, table):
    """table: base array id -> {index term id: index term} for ground select occurrences (after array expansion)"""
    allt = []
    for f in fs:
        subterms(f, seen, allt)
    for t in allt:
        if z3.is_app(t) and t.decl().kind() == z3.Z3_OP_SELECT and ground(t.arg(1)):
            i = z3.simplify(t.arg(1))
            for base in strip_array(t.arg(0)):
                table.setdefault(base.get_id(), {})[i.get_id()] = i
        elif z3.is_app(t) and t.decl().kind() == z3.Z3_OP_STORE and ground(t.arg(1)):
            i = z3.simplify(t.arg(1))
            for base in strip_array(t.arg(0)):
                table.setdefault(base.get_id(), {})[i.get_id()] = i
        elif is_app_of(t, "wsum") and ground(t.arg(2)):
            k = z3.simplify(t.arg(2))
            for base in strip_array(t.arg(0)) + strip_array(t.arg(1)):
                d = table.setdefault(base.get_id(), {})
                for kk in (k, z3.simplify(k - 1)):
                    d[kk.get_id()] = kk
    return table


MAX_INST_ROUNDS = 2
MAX_INSTANCES = 4000


def stage1(assertions, stats):
    _EXP_MEMO.clear()
    fs = []
    seen_ids = set()
    for a in assertions:
        for c in conjuncts(a):
            if c.get_id() not in seen_ids:       # the same definitional fact is often recorded several times
                seen_ids.add(c.get_id())
                fs.append(c)
    sk = Skolem()
    cnt = itertools.count()
    qs = []
    ground_fs = []
    dropped = 0
    for f in fs:
        if not has_quant(f):
            ground_fs.append(f)
            continue
        try:
            ground_fs.append(prep(f, +1, qs, sk, cnt))
        except _Unsupported:
            dropped += 1      # dropping a hypothesis is a weakening
    seen = set()
    table = {}
    expanded = [expand_arrays(f) for f in ground_fs]
    # goal-directed seeding: index terms of the (negated) goal -- the last assertion -- and of the ground hypotheses that talk about
    # the same constants; index terms that only occur in unrelated older facts are not used as instantiation seeds
    ngoal = len(conjuncts(assertions[-1])) if assertions else 0
    goal_part = expanded[len(expanded) - ngoal:] if ngoal else expanded
    goal_consts = set()
    for g in goal_part:
        for t in subterms(g):
            if z3.is_const(t) and t.decl().kind() == z3.Z3_OP_UNINTERPRETED and not z3.is_array(t):
                goal_consts.add(t.get_id())
    related = list(goal_part)
    for f in expanded[:len(expanded) - ngoal]:
        cs = [t.get_id() for t in subterms(f) if z3.is_const(t) and t.decl().kind() == z3.Z3_OP_UNINTERPRETED and not z3.is_array(t)]
        if cs and len(cs) <= 40 and any(c in goal_consts for c in cs):
            related.append(f)
    ground_selects(related, seen, table)
    ninst = 0
    qi = 0
    for rnd in range(MAX_INST_ROUNDS):
        new_fs = []
        todo = list(qs)          # includes quantifiers discovered in earlier rounds (nested)
        for q in todo:
            if q.patterns is None:
                q.patterns = q_patterns(q)
            cands = {}
            if rnd == 0:
                for bt in q_bounds(q):          # boundary instantiation: lo, hi-1, hi of the quantifier's own range
                    cands[bt.get_id()] = bt
            if q.patterns:
                for (aid, off) in q.patterns:
                    for tid, t in table.get(aid, {}).items():
                        c = z3.simplify(t - off) if off else t
                        cands[c.get_id()] = c
            else:
                for d in table.values():
                    for tid, t in d.items():
                        cands[tid] = t
            for cid, c in cands.items():
                if cid in q.done or ninst >= MAX_INSTANCES:
                    continue
                q.done[cid] = c
                ninst += 1
                b = z3.substitute_vars(q.body, c)
                try:
                    inst = prep(b, +1, qs, sk, cnt)   # the instance clause (proxy => instance) is itself asserted
                except _Unsupported:
                    continue
                if q.univ:
                    new_fs.append(z3.Implies(q.proxy, inst))
                else:
                    q.done[cid] = inst
        if not new_fs:
            break
        ex = [expand_arrays(f) for f in new_fs]
        expanded += ex
        ground_selects(ex, seen, table)
    # negative existentials: proxy => OR(instances)
    for q in qs:
        if not q.univ:
            insts = [v for v in q.done.values() if z3.is_bool(v)]
            expanded.append(z3.Implies(q.proxy, z3.Or(*insts) if insts else z3.BoolVal(False)))
    stats["dropped_quantifiers"] = len(qs) + dropped
    stats["instances"] = ninst
    fs3 = expanded
    # the wsum unfolding (instantiated recursive definition between the bounds present) introduces selects on base arrays:
    # generate it first, so that one Ackermann pass sees everything
    extra = wsum_unfoldings(fs3)
    ex2 = [expand_arrays(e) for e in extra]
    fs4, ax, _ = ackermannize(fs3 + ex2, stats)
    stats["_goal_idx"] = list(range(len(ground_fs) - ngoal, len(ground_fs))) if ngoal else []
    return fs4 + ax


def assertion_slice(assertions, depth):
    """Assertions within `depth` hops of the goal (last assertion) through shared constants, ignoring hub constants
    (those occurring in more than a quarter of the assertions).  Sound: dropping hypotheses only weakens."""
    cache = {}
    cs = [consts_of(a, cache) for a in assertions]
    freq = {}
    for c in cs:
        for x in c:
            freq[x] = freq.get(x, 0) + 1
    hub = {x for x, k in freq.items() if k > max(8, len(assertions) // 4)}
    cs = [c - hub for c in cs]
    goal = len(assertions) - 1
    reach = set(cs[goal])
    if not reach:
        return None
    chosen = {goal}
    for _ in range(depth):
        new = set()
        for i, c in enumerate(cs):
            if i not in chosen and c and (c & reach):
                chosen.add(i)
                new |= c
        reach |= new
    return [assertions[i] for i in sorted(chosen)]


def consts_of(f, cache):
    i = f.get_id()
    r = cache.get(i)
    if r is None:
        r = frozenset(t.get_id() for t in subterms(f) if z3.is_const(t) and t.decl().kind() == z3.Z3_OP_UNINTERPRETED)
        cache[i] = r
    return r


def relevance_slice(fs, goal_idx, depth):
    """Hypotheses within `depth` hops (shared constants) of the goal.  Dropping hypotheses only weakens the problem."""
    cache = {}
    cs = [consts_of(f, cache) for f in fs]
    reach = set()
    for i in goal_idx:
        reach |= cs[i]
    chosen = set(goal_idx)
    for _ in range(depth):
        new = set()
        for i, c in enumerate(cs):
            if i not in chosen and c and (c & reach):
                chosen.add(i)
                new |= c
        if not new - reach:
            break
        reach |= new
    return [fs[i] for i in sorted(chosen)]


def check_formulas(fs, timeout_ms, seed=0, logic=None):
    if logic:
        s = z3.SolverFor(logic)
        s.set("timeout", int(timeout_ms))
    else:
        s = z3.Solver()
        s.set("timeout", int(timeout_ms))
        s.set("random_seed", seed)
    for f in fs:
        s.add(f)
    t0 = time.time()
    r = s.check()
    dt = time.time() - t0
    model = None
    if r == z3.sat:
        try:
            model = s.model()
        except z3.Z3Exception:
            model = None
    return str(r), dt, model, (s.reason_unknown() if r == z3.unknown else "")


def run_cvc5(fs, timeout_s):
    s = z3.Solver()
    for f in fs:
        s.add(f)
    txt = "(set-logic ALL)\n" + s.to_smt2()
    with tempfile.NamedTemporaryFile("w", suffix=".smt2", delete=False) as fh:
        fh.write(txt)
        path = fh.name
    try:
        t0 = time.time()
        p = subprocess.run(["/usr/bin/cvc5", "--tlimit=%d" % int(timeout_s * 1000), path], capture_output=True, text=True, timeout=timeout_s + 10)
        out = (p.stdout or "").strip().splitlines()
        r = out[0].strip() if out else "unknown"
        if r not in ("sat", "unsat", "unknown"):
            r = "unknown"
        return r, time.time() - t0
    except Exception:
        return "unknown", timeout_s
    finally:
        try:
            os.unlink(path)
        except OSError:
            pass


def discharge_smt2(smt2, timeout_s=20, use_cvc5=True, both=False):
    """Worker entry: smt2 text with hypotheses and the negated goal asserted.  Returns a dict verdict."""
    _HQ.clear()
    _GR.clear()
    ctx_as = z3.parse_smt2_string(smt2)
    assertions = list(ctx_as)
    stats = {}
    t0 = time.time()
    res = {"verdict": "unknown", "stage": None, "backend": None, "time": 0.0, "model": None, "stats": stats, "attempts": []}
    # ---- cheap first attempt: only the hypotheses close to the goal (shared non-hub constants), then the whole problem
    if len(assertions) > 40:
        try:
            for depth in (1, 2):
                sub = assertion_slice(assertions, depth)
                if sub is None or len(sub) > 0.6 * len(assertions):
                    break
                st_s = {}
                fs_s = stage1(sub, st_s)
                for label, logic, budget in (("pre-slice%d/z3-qfnra" % depth, "QF_NRA", 2), ("pre-slice%d/z3" % depth, None, 3)):
                    try:
                        r1, dt, m1, why = check_formulas(fs_s, budget * 1000, logic=logic)
                    except z3.Z3Exception:
                        r1, dt = "unknown", 0.0
                    res["attempts"].append((label, r1 if r1 == "unsat" else "unknown", round(dt, 3)))
                    if r1 == "unsat":
                        st_s.pop("_select_table", None)
                        st_s.pop("_goal_idx", None)
                        res.update(verdict="unsat", stage=1, backend="z3", stats=st_s)
                        if both and use_cvc5:
                            r2, dt2 = run_cvc5(fs_s, min(timeout_s, 30))
                            res["attempts"].append(("pre-slice%d/cvc5" % depth, r2, round(dt2, 3)))
                            res["cvc5"] = r2
                            if r2 == "sat":
                                res.update(verdict="error", error="back ends disagree: z3 unsat, cvc5 sat on the same stage-1 problem")
                        res["time"] = time.time() - t0
                        return res
        except Exception:
            pass
        _HQ.clear()
        _GR.clear()
    try:
        fs = stage1(assertions, stats)
    except Exception as e:   # pipeline failure is a tool problem, never a verdict
        res["verdict"] = "error"
        res["error"] = "stage1: %r" % (e,)
        res["time"] = time.time() - t0
        return res
    weakened = bool(stats.get("dropped_quantifiers")) or any(stats.get("ackermann", {}).get(k) for k in ("exp", "log", "pow", "wsum"))
    pre = res.pop("_pre", None)
    # portfolio: nlsat-based QF_NRA strategy (fast and stable on pure real problems) with a short budget, then the default solver,
    # then QF_NRA with the full budget
    r, model = "unknown", None
    gi = stats.get("_goal_idx") or []
    plan = []
    if gi and len(fs) > 60:
        # relevance slices first: small problems are decided fast and stably; an `unsat` of a slice is an `unsat` of the whole
        for depth in (1, 2):
            sl = relevance_slice(fs, gi, depth)
            if len(sl) < 0.8 * len(fs):
                plan.append(("stage1/z3-qfnra slice%d" % depth, "QF_NRA", min(timeout_s, 3), sl))
                plan.append(("stage1/z3 slice%d" % depth, None, min(timeout_s, 4), sl))
    plan += [("stage1/z3-qfnra", "QF_NRA", min(timeout_s, 2), fs), ("stage1/z3", None, min(timeout_s, 4), fs), ("cvc5-short", None, min(timeout_s, 12), fs),
             ("stage1/z3", None, timeout_s, fs), ("stage1/z3-qfnra", "QF_NRA", timeout_s, fs)]
    for label, logic, budget, prob in plan:
        if label == "cvc5-short":
            # the second back end early and briefly: where z3's tactics are lost it usually decides within seconds
            if use_cvc5:
                r2, dt2 = run_cvc5(fs, budget)
                res["attempts"].append(("stage1/cvc5 (short)", r2, round(dt2, 3)))
                if r2 == "unsat":
                    res.update(verdict="unsat", stage=1, backend="cvc5", time=time.time() - t0)
                    return res
            continue
        try:
            r1, dt, m1, why = check_formulas(prob, budget * 1000, logic=logic)
            if r1 == "sat" and prob is not fs:
                r1 = "unknown"          # a model of a slice says nothing
        except z3.Z3Exception as e:
            r1, dt, m1, why = "unknown", 0.0, None, str(e)
        res["attempts"].append((label, r1, round(dt, 3)))
        if r1 == "unsat":
            r, model = r1, None
            break
        if r1 == "sat" and r != "sat":
            r, model = r1, m1
            break
    cand = None
    arrs = {}
    if r == "sat":
        arrs = arrays_from_model(model, stats)
    if r == "unsat":
        res.update(verdict="unsat", stage=1, backend="z3")
        if both and use_cvc5:
            r2, dt2 = run_cvc5(fs, min(timeout_s, 30))
            res["attempts"].append(("stage1/cvc5", r2, round(dt2, 3)))
            res["cvc5"] = r2
            if r2 == "sat":
                res.update(verdict="error", error="back ends disagree: z3 unsat, cvc5 sat on the same stage-1 problem")
        res["time"] = time.time() - t0
        return res
    if r == "sat":
        cand = model_to_dict(model)
    # the second back end before z3 is re-seeded: where z3's default tactic is lost, cvc5 usually decides within seconds
    tried_cvc5 = False
    if r == "unknown" and use_cvc5:
        r2, dt2 = run_cvc5(fs, timeout_s)
        tried_cvc5 = True
        res["attempts"].append(("stage1/cvc5", r2, round(dt2, 3)))
        if r2 == "unsat":
            res.update(verdict="unsat", stage=1, backend="cvc5", time=time.time() - t0)
            return res
    # retries with other seeds
    if r == "unknown":
        for seed in (1, 7):
            r, dt, model, why = check_formulas(fs, timeout_s * 1000, seed)
            res["attempts"].append(("stage1/z3 seed %d" % seed, r, round(dt, 3)))
            if r != "unknown":
                break
        if r == "unsat":
            res.update(verdict="unsat", stage=1, backend="z3", time=time.time() - t0)
            return res
        if r == "sat":
            cand = model_to_dict(model)
            arrs = arrays_from_model(model, stats)
    if use_cvc5 and r != "sat" and not tried_cvc5:
        r2, dt2 = run_cvc5(fs, timeout_s)
        res["attempts"].append(("stage1/cvc5", r2, round(dt2, 3)))
        if r2 == "unsat":
            res.update(verdict="unsat", stage=1, backend="cvc5", time=time.time() - t0)
            return res
    # stage 2: full quantified problem (+ instantiated axioms cannot be added without Ackermann; rely on the QF instances as extra hyps)
    if stats.get("dropped_quantifiers") or stats.get("kept_quantifiers"):
        try:
            fs_q = [expand_arrays(a) if not has_quant(a) else a for a in assertions]
            r3, dt3, m3, why3 = check_formulas(fs_q + [f for f in fs if not has_quant(f)][:0], timeout_s * 1000)
            res["attempts"].append(("stage2/z3", r3, round(dt3, 3)))
            if r3 == "unsat":
                res.update(verdict="unsat", stage=2, backend="z3", time=time.time() - t0)
                return res
        except Exception as e:
            res["attempts"].append(("stage2/z3", "error %r" % (e,), 0))
    if cand is not None:
        res.update(verdict="sat", stage=1, backend="z3", model=cand, weakened=weakened, arrays=arrs)
    else:
        res.update(verdict="unknown")
    res["time"] = time.time() - t0
    stats.pop("_select_table", None)
    return res


def arrays_from_model(m, stats):
    out = {}
    if m is None:
        return out
    for c, arr, idx in stats.get("_select_table", []):
        try:
            i = m.eval(idx, model_completion=True)
            v = m.eval(c, model_completion=True)
            if z3.is_algebraic_value(v):
                v = v.approx(12)
            out.setdefault(str(arr), {})[str(i)] = str(v)
        except Exception:
            continue
    return out


def model_to_dict(m):
    out = {}
    if m is None:
        return out
    for d in m.decls():
        try:
            v = m[d]
            if z3.is_func_interp(v) if hasattr(z3, "is_func_interp") else isinstance(v, z3.FuncInterp):
                continue
            if z3.is_algebraic_value(v):
                v = v.approx(12)
            out[d.name()] = str(v)
        except Exception:
            continue
    return out


def quick_unsat(pc, timeout_ms=1500):
    """Is the path condition infeasible?  (used to discard dead paths that hit a tool limit)"""
    try:
        fs = []
        for p in pc:
            fs.append(p if isinstance(p, z3.ExprRef) else z3.BoolVal(bool(p)))
        stats = {}
        _HQ.clear()
        _GR.clear()
        g = stage1(fs, stats)
        r, dt, m, why = check_formulas(g, timeout_ms)
        return r == "unsat"
    except Exception:
        return False


def to_smt2(hyps, goal):
    s = z3.Solver()
    seen = set()
    for h in hyps:
        h = h if isinstance(h, z3.ExprRef) else z3.BoolVal(bool(h))
        if h.get_id() in seen:
            continue
        seen.add(h.get_id())
        s.add(h)
    s.add(z3.Not(goal))
    return s.to_smt2()


def check_sat_smt2(smt2, timeout_s=5):
    """Vacuity guard: are the hypotheses (weakened by stage 1) contradictory?  unsat = vacuous."""
    _HQ.clear()
    _GR.clear()
    assertions = [a for a in z3.parse_smt2_string(smt2)]
    # drop the trailing `not false`
    stats = {}
    t0 = time.time()
    try:
        fs = stage1(assertions, stats)
        r, dt, model, why = check_formulas(fs, timeout_s * 1000)
    except Exception as e:
        return dict(verdict="error", error=repr(e), time=time.time() - t0, attempts=[], stats=stats, model=None)
    return dict(verdict=r, time=time.time() - t0, attempts=[("vacuity/z3", r, round(dt, 3))], stats=stats, model=None, stage=1, backend="z3")
