"""Value domain of the VC generator.

Values are either concrete Python objects (int, Fraction, bool, str, None) or
z3 terms (Int / Real / Bool sorted), or heap references.  All arithmetic goes
through the helpers below, which fold constants exactly (Fractions, never
binary floats) so that a fully concrete input makes the interpreter run the
function concretely ("concrete mode" used for the CPython cross-check).

Encoding assumptions (repeated in every evidence file):
  * Python float / numpy float64  ->  mathematical reals (no rounding, no inf/nan)
  * Python int                    ->  unbounded mathematical integers
  * decimal literals mean their decimal value (0.1 is 1/10)
"""
from fractions import Fraction
import math
import z3

FLOATMODE = False   # True: concrete-mode cross-check with binary floats (exp/log evaluated with math.*)


class ToolLimit(Exception):
    """Construct outside the supported Python subset: never a pass, never a violation."""


class Ref:
    __slots__ = ("oid",)

    def __init__(self, oid):
        self.oid = oid

    def __eq__(self, o):
        return isinstance(o, Ref) and o.oid == self.oid

    def __hash__(self):
        return hash(("Ref", self.oid))

    def __repr__(self):
        return "Ref(%s)" % (self.oid,)


class TupleV:
    __slots__ = ("items", "kind")

    def __init__(self, items, kind="tuple"):
        self.items = list(items)
        self.kind = kind

    def __repr__(self):
        return "TupleV(%r)" % (self.items,)


class Unbound:
    def __repr__(self):
        return "UNBOUND"


UNBOUND = Unbound()


class MaybeUnbound:
    """A local that is assigned only under condition `cond` (after a merge)."""
    __slots__ = ("cond", "val")

    def __init__(self, cond, val):
        self.cond = cond
        self.val = val


class Opaque:
    """A value the engine carries around but cannot compute with (strings from data, dates as objects...)."""
    __slots__ = ("tag",)

    def __init__(self, tag):
        self.tag = tag

    def __repr__(self):
        return "Opaque(%s)" % self.tag


def is_sym(v):
    return isinstance(v, z3.ExprRef)


def is_num(v):
    return isinstance(v, (int, Fraction, float)) and not isinstance(v, bool)


def is_conc(v):
    return isinstance(v, (int, Fraction, float, bool, str)) or v is None


def num_const(x):
    """Literal from source -> exact constant."""
    if isinstance(x, bool):
        return x
    if isinstance(x, int):
        return x
    if isinstance(x, float):
        if FLOATMODE:
            return x
        return Fraction(repr(x)) if math.isfinite(x) else x
    return x


def z(v, want_real=False):
    """Concrete or symbolic value -> z3 term."""
    if isinstance(v, z3.ExprRef):
        if want_real and z3.is_int(v):
            return z3.ToReal(v)
        return v
    if isinstance(v, bool):
        if want_real:
            return z3.RealVal(1 if v else 0)
        return z3.BoolVal(v)
    if isinstance(v, int):
        return z3.RealVal(v) if want_real else z3.IntVal(v)
    if isinstance(v, Fraction):
        return z3.RealVal(str(v))
    if isinstance(v, float):
        return z3.RealVal(str(Fraction(repr(v))))
    raise ToolLimit("cannot convert %r to an SMT term" % (v,))


def sort_of(v):
    if isinstance(v, bool):
        return "Bool"
    if isinstance(v, int):
        return "Int"
    if isinstance(v, (Fraction, float)):
        return "Real"
    if isinstance(v, z3.ExprRef):
        if z3.is_bool(v):
            return "Bool"
        if z3.is_int(v):
            return "Int"
        if z3.is_real(v):
            return "Real"
    return None


def bool_as_num(v):
    """Python: True == 1.  Bool-sorted term used arithmetically."""
    if isinstance(v, bool):
        return int(v)
    if isinstance(v, z3.ExprRef) and z3.is_bool(v):
        return z3.If(v, z3.IntVal(1), z3.IntVal(0))
    return v


def _both_conc(a, b):
    return is_num(a) and is_num(b)


def arith(op, a, b):
    a = bool_as_num(a)
    b = bool_as_num(b)
    if not ((is_num(a) or is_sym(a)) and (is_num(b) or is_sym(b))):
        raise ToolLimit("arithmetic %s on %r, %r" % (op, type(a).__name__, type(b).__name__))
    if _both_conc(a, b):
        if op == "+":
            return a + b
        if op == "-":
            return a - b
        if op == "*":
            return a * b
        if op == "/":
            if FLOATMODE:
                return a / b
            return Fraction(a) / Fraction(b)
        if op == "//":
            if isinstance(a, int) and isinstance(b, int):
                return a // b
            raise ToolLimit("// on non-integers")
        if op == "%":
            if isinstance(a, int) and isinstance(b, int):
                return a % b
            raise ToolLimit("% on non-integers")
        if op == "**":
            if isinstance(b, int) and b >= 0:
                return a ** b
            if FLOATMODE:
                return float(a) ** float(b)
            raise ToolLimit("concrete ** with non-natural exponent")
    if op == "**":
        if isinstance(b, int) and 0 <= b <= 8:
            za = z(a)
            r = z3.RealVal(1) if z3.is_real(za) else z3.IntVal(1)
            for _ in range(b):
                r = r * za
            return r
        raise ToolLimit("symbolic ** handled by caller (power)")
    sa, sb = sort_of(a), sort_of(b)
    real = (sa == "Real" or sb == "Real" or op == "/")
    za, zb = z(a, real), z(b, real)
    if op == "+":
        return za + zb
    if op == "-":
        return za - zb
    if op == "*":
        return za * zb
    if op == "/":
        return za / zb
    if op == "//":
        if real:
            raise ToolLimit("// on reals")
        return za / zb      # z3 Int division: floor for positive divisor (obligation: divisor > 0 is emitted by caller)
    if op == "%":
        if real:
            raise ToolLimit("% on reals")
        return za % zb
    raise ToolLimit("operator " + op)


def neg(a):
    a = bool_as_num(a)
    if is_num(a):
        return -a
    return -a


def compare(op, a, b):
    """Python comparison; returns bool or z3 Bool."""
    # identity / None
    if a is None or b is None:
        if op in ("==", "is"):
            return (a is None and b is None) if (a is None or is_conc(a)) and (b is None or is_conc(b)) else False
        if op in ("!=", "is not"):
            r = compare("==", a, b)
            return (not r) if isinstance(r, bool) else z3.Not(r)
    if isinstance(a, str) or isinstance(b, str):
        if isinstance(a, str) and isinstance(b, str):
            if op in ("==", "is"):
                return a == b
            if op in ("!=", "is not"):
                return a != b
        if op == "==":
            return False if (is_conc(a) and is_conc(b)) else _tl("string comparison with symbolic value")
        if op == "!=":
            return True if (is_conc(a) and is_conc(b)) else _tl("string comparison with symbolic value")
        raise ToolLimit("string comparison")
    sa, sb = sort_of(a), sort_of(b)
    if (isinstance(a, Opaque) and isinstance(b, bool)) and op in ("is", "is not"):
        # `x is False` on a value the engine does not model (e.g. a DataFrame-or-False result): an arbitrary Boolean
        # determined by the value (same tag -> same Boolean)
        t = z3.Bool("opaque_is_%s:%s" % (b, a.tag))
        return t if op == "is" else z3.Not(t)
    if sa is None or sb is None:
        if isinstance(a, Ref) and isinstance(b, Ref) and op in ("is", "==", "is not", "!="):
            r = a.oid == b.oid
            return r if op in ("is", "==") else (not r)
        raise ToolLimit("comparison %s of %r and %r" % (op, a, b))
    if op in ("is", "is not"):
        # `x is True` / `x is False`: accepted only on Bool-sorted values (on an int flag it is always False in CPython)
        if sa == "Bool" and sb == "Bool":
            op = "==" if op == "is" else "!="
        else:
            raise ToolLimit("`is` on a non-Bool value (always False in CPython for int/float flags)")
    if sa == "Bool" and sb == "Bool":
        if isinstance(a, bool) and isinstance(b, bool):
            return {"==": a == b, "!=": a != b}.get(op, None) if op in ("==", "!=") else _cmp_conc(op, int(a), int(b))
        if op == "==":
            if isinstance(b, bool):
                return a if b else z3.Not(a)
            if isinstance(a, bool):
                return b if a else z3.Not(b)
            return a == b
        if op == "!=":
            r = compare("==", a, b)
            return z3.Not(r)
    a, b = bool_as_num(a), bool_as_num(b)
    if _both_conc(a, b):
        return _cmp_conc(op, a, b)
    real = (sort_of(a) == "Real" or sort_of(b) == "Real")
    za, zb = z(a, real), z(b, real)
    if op == "==":
        return za == zb
    if op == "!=":
        return za != zb
    if op == "<":
        return za < zb
    if op == "<=":
        return za <= zb
    if op == ">":
        return za > zb
    if op == ">=":
        return za >= zb
    raise ToolLimit("comparison " + op)


def _tl(msg):
    raise ToolLimit(msg)


def _cmp_conc(op, a, b):
    return {"==": a == b, "!=": a != b, "<": a < b, "<=": a <= b, ">": a > b, ">=": a >= b}[op]


def truth(v):
    """Python truthiness -> bool or z3 Bool."""
    if isinstance(v, bool):
        return v
    if v is None:
        return False
    if is_num(v):
        return v != 0
    if isinstance(v, str):
        return len(v) > 0
    if isinstance(v, z3.ExprRef):
        if z3.is_bool(v):
            return v
        return v != 0
    if isinstance(v, (Ref,)):
        return True
    if isinstance(v, TupleV):
        return len(v.items) > 0
    raise ToolLimit("truthiness of %r" % (v,))


def b_not(a):
    if isinstance(a, bool):
        return not a
    return z3.Not(a)


def b_and(*xs):
    out = []
    for x in xs:
        if isinstance(x, bool):
            if not x:
                return False
            continue
        out.append(x)
    if not out:
        return True
    if len(out) == 1:
        return out[0]
    return z3.And(*out)


def b_or(*xs):
    out = []
    for x in xs:
        if isinstance(x, bool):
            if x:
                return True
            continue
        out.append(x)
    if not out:
        return False
    if len(out) == 1:
        return out[0]
    return z3.Or(*out)


def b_implies(a, b):
    return b_or(b_not(a), b)


def ite(c, a, b):
    if isinstance(c, bool):
        return a if c else b
    if same_value(a, b):
        return a
    sa, sb = sort_of(a), sort_of(b)
    if sa is None or sb is None:
        raise ToolLimit("ite over non-scalar values %r / %r" % (a, b))
    if sa == "Bool" and sb == "Bool":
        return z3.If(c, z(a), z(b))
    a, b = bool_as_num(a), bool_as_num(b)
    real = (sort_of(a) == "Real" or sort_of(b) == "Real")
    return z3.If(c, z(a, real), z(b, real))


def same_value(a, b):
    if a is b:
        return True
    if isinstance(a, z3.ExprRef) and isinstance(b, z3.ExprRef):
        return a.eq(b)
    if isinstance(a, z3.ExprRef) or isinstance(b, z3.ExprRef):
        return False
    if isinstance(a, TupleV) and isinstance(b, TupleV):
        return len(a.items) == len(b.items) and all(same_value(x, y) for x, y in zip(a.items, b.items))
    if isinstance(a, MaybeUnbound) or isinstance(b, MaybeUnbound):
        return False
    if type(a) is not type(b) and not (is_num(a) and is_num(b)):
        return False
    try:
        return a == b
    except Exception:
        return False


def v_min(a, b):
    c = compare("<=", a, b)
    return ite(c, a, b)


def v_max(a, b):
    c = compare(">=", a, b)
    return ite(c, a, b)


def v_abs(a):
    c = compare(">=", a, 0)
    return ite(c, a, neg(a))


# uninterpreted transcendental functions (axioms are instantiated by the solver front end)
F_EXP = z3.Function("exp", z3.RealSort(), z3.RealSort())
F_LOG = z3.Function("log", z3.RealSort(), z3.RealSort())
F_POW = z3.Function("pow", z3.RealSort(), z3.RealSort(), z3.RealSort())
F_SIN = z3.Function("sine", z3.RealSort(), z3.RealSort())
# abstract result of the layer walk of root_development (_depth_after_restrictive_horizons) for the profile of the call: a function of the
# potential depth and the minimum depth; its assumed properties (range, monotone) are instantiated by the solver front end and bounded-checked
F_RDEPTH = z3.Function("rdepth", z3.RealSort(), z3.RealSort(), z3.RealSort())
PI = z3.Real("pi!const")       # constrained to 3.14159 < pi < 3.1416 by the solver front end


def v_exp(a):
    if FLOATMODE and is_num(a):
        return math.exp(a)
    if is_num(a) and a == 0:
        return 1
    return F_EXP(z(a, True))


def v_log(a):
    if FLOATMODE and is_num(a):
        return math.log(a)
    if is_num(a) and a == 1:
        return 0
    return F_LOG(z(a, True))


def v_pow(a, b):
    if FLOATMODE and is_num(a) and is_num(b):
        return float(a) ** float(b)
    if isinstance(b, int) and not isinstance(b, bool) and 0 <= b <= 8:
        return arith("**", a, b)
    return F_POW(z(a, True), z(b, True))
