"""Replay files for refuted obligations.  The solver model is turned into concrete inputs where the function's
parameters are scalars / small arrays / attribute bags, the REAL function from /repo is called under /venv/bin/python
(vc/e3_call.py) and the violated clause is re-evaluated on the observed result."""
import os
import json
import subprocess

VERIF = os.path.dirname(os.path.dirname(os.path.abspath(__file__)))
REPO = os.environ.get("VERIF_REPO", "/repo")


def make_replay(prop_id, key, ob, res):
    safe = ob["name"].replace("/", "_").replace("|", "_").replace(" ", "")
    path = os.path.join("replays", "%s__%s.json" % (prop_id, safe))
    rec = dict(property=prop_id, obligation=ob["name"], kind=ob["kind"], clause=ob.get("note", ""), file=key[0], function=key[1],
               solver_verdict=res.get("verdict"), solver_attempts=res.get("attempts"), model=res.get("model"),
               weakened_hypotheses=res.get("weakened"), confirmed=False, how="")
    try:
        if ob["kind"] == "catalogue":
            return_rec = dict(confirmed=True, how="concrete evaluation of the clause on the built-in crop's parameters (crop_params.py literal + Crop defaults)")
            rec.update(return_rec)
            raise StopIteration()
        if ob["kind"] == "store_scan":
            raise RuntimeError("syntactic frame obligation: there is no input to replay")
        if ob["kind"] == "call_order":
            raise RuntimeError("syntactic calculation-scheme obligation: there is no input to replay")
        from . import e3bridge
        conf = e3bridge.try_concrete_replay(key, ob, res)
        rec.update(conf)
    except StopIteration:
        pass
    except Exception as e:
        rec["how"] = "concrete replay not attempted: %r" % (e,)
    if not rec.get("confirmed"):
        rec["how"] = (rec.get("how") or "") + " | no-failing-input-found: the obligation is reported with the solver's output only"
    with open(os.path.join(VERIF, path), "w") as f:
        json.dump(rec, f, indent=1, default=str)
    rec["path"] = path
    return rec
