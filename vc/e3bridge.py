"""python3-vt side of the concrete replay: build the request from the solver model and the contract, run e3_call.py under /venv/bin/python."""
import os
import sys
import json
import subprocess
import tempfile

VERIF = os.path.dirname(os.path.dirname(os.path.abspath(__file__)))
REPO = os.environ.get("VERIF_REPO", "/repo")
VENV_PY = "/venv/bin/python"


def _ty_json(ty):
    from .spec import FIELD_TYPES
    if isinstance(ty, str):
        return ty
    if ty[0] == "Arr":
        return ["Arr", ty[1]] + ([ty[2]] if len(ty) > 2 and isinstance(ty[2], int) else [])
    if ty[0] == "Obj":
        ft = {k: _ty_json(v) for k, v in FIELD_TYPES.get(ty[1], {}).items() if k != "*"}
        return ["Obj", ty[1], ft]
    return "Opaque"


def try_concrete_replay(key, ob, res):
    from .spec import REGISTRY
    c = REGISTRY.by_key[key]
    if c.loops:
        return dict(confirmed=False, how="function has contract-cut loops: a counter-model of an inductive step is not an input of the function")
    model = res.get("model") or {}
    arrays = res.get("arrays") or {}
    name = ob["name"]
    case = {}
    if "[case" in name:
        ci = int(name.split("[case")[1].split("]")[0])
        case = c.cases[ci]
    vary, copies, pre, clause = [], [""], [], ob.get("note", "")
    if ob["kind"] == "relational":
        eid = name.split(".relational.")[1].split("|")[0]
        for rel in c.options.get("relational", ()):
            for e, text in rel["post"]:
                if e == eid:
                    vary, copies, pre, clause = list(rel["vary"]), ["_1", "_2"], [rel["pre"]], text
    elif ob["kind"] == "ensures":
        eid = name.split(".ensures.")[1].split("|")[0]
        eid = eid.rsplit(".r", 1)[0] if eid.rsplit(".r", 1)[-1].isdigit() else eid
        for e, text in c.ensures:
            if e == eid:
                clause = text
    req = dict(repo=REPO, file=c.file, function=c.name, params=[(p, _ty_json(t)) for p, t in c.params.items()], case=case, vary=vary, copies=copies,
               returns=[r[0] for r in (c.returns or [])], model=model, arrays=arrays, kind=ob["kind"], clause=clause, pre=pre,
               harness_src=c.options.get("harness_src"), harness_imports=c.options.get("harness_imports"))
    with tempfile.NamedTemporaryFile("w", suffix=".json", delete=False) as f:
        json.dump(req, f)
        rp = f.name
    try:
        p = subprocess.run([VENV_PY, os.path.join(VERIF, "vc", "e3_call.py"), rp], capture_output=True, text=True, timeout=120)
        out = json.loads(p.stdout.strip().splitlines()[-1]) if p.stdout.strip() else {"error": p.stderr[-2000:]}
    except Exception as e:
        out = {"error": repr(e)}
    finally:
        os.unlink(rp)
    confirmed = False
    how = ""
    if "error" in out:
        how = "replay call failed: " + str(out["error"])[:500]
    elif ob["kind"] in ("ensures", "relational"):
        if out.get("exception"):
            how = "real function raised %s on the model's inputs" % out["exception"]
        elif out.get("clause_holds") is False and out.get("pre_ok", True):
            confirmed = True
            how = "real function called on the model's inputs; the clause evaluates to False on the observed result (tolerance 1e-9)"
        else:
            how = "real function called on the model's inputs; the clause held there (counter-model spurious or inputs incomplete)"
    else:
        if out.get("exception") or out.get("nonfinite"):
            confirmed = True
            how = "real function called on the model's inputs: %s" % (out.get("exception") or "non-finite result")
        else:
            how = "real function called on the model's inputs without exception"
    return dict(confirmed=confirmed, how=how, replay_request=req, observed=out)


def rerun_replay(path):
    rec = json.load(open(path))
    req = rec.get("replay_request")
    if rec.get("kind") == "bounded-case":
        # a failing case observed on the real model by a bounded stand-in: print how to reproduce it (the repro is Python source or a
        # configuration for the named e3 module; it is run with /venv/bin/python against the current /repo)
        print("bounded case %s of %s\n clause: %s\n detail: %s\n module: %s" % (rec.get("signature"), rec.get("property"), rec.get("clause"), str(rec.get("detail"))[:1500], rec.get("module")))
        repro = str(rec.get("repro") or "")
        print(" repro: %s" % repro[:3000])
        if repro.startswith("import ") or repro.startswith("from "):
            env = dict(os.environ, PYTHONWARNINGS="ignore")
            if REPO != "/repo":
                env["PYTHONPATH"] = REPO
            p = subprocess.run([VENV_PY, "-c", repro], capture_output=True, text=True, timeout=1800, cwd=VERIF, env=env)
            print((p.stdout + p.stderr)[-3000:])
        return 1
    if not req:
        print("replay file carries no concrete input (no-failing-input-found); obligation: %s" % rec.get("obligation"))
        print(json.dumps({k: rec[k] for k in ("obligation", "clause", "solver_verdict", "solver_attempts", "model") if k in rec}, indent=1)[:4000])
        return 0
    req["repo"] = REPO
    with tempfile.NamedTemporaryFile("w", suffix=".json", delete=False) as f:
        json.dump(req, f)
        rp = f.name
    p = subprocess.run([VENV_PY, os.path.join(VERIF, "vc", "e3_call.py"), rp], capture_output=True, text=True, timeout=120)
    os.unlink(rp)
    print(p.stdout)
    out = json.loads(p.stdout.strip().splitlines()[-1])
    bad = (out.get("clause_holds") is False) or bool(out.get("exception")) or bool(out.get("nonfinite"))
    print("REPLAY: %s" % ("violation reproduced" if bad else "not reproduced"))
    return 1 if bad else 0
