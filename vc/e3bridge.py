def try_concrete_replay(key, ob, res):
    return dict(confirmed=False, how="concrete replay bridge not available for this function")


def rerun_replay(path):
    import json
    print(json.dumps(json.load(open(path)), indent=1)[:3000])
    return 0
