"""Check runner: generate obligations from the current /repo source, discharge them in a process pool,
write evidence, apply the known-findings file, print VIOLATION / KNOWN-FINDING lines, set the exit code.

Exit codes: 0 held / 1 violation (refuted obligation not listed as known finding) / 2 undecided / 3 tool limit or checker error.
Only exit 1 prints VIOLATION lines.
"""
import os
import sys
import json
import time
import hashlib
import importlib
import multiprocessing as mp

VERIF = os.path.dirname(os.path.dirname(os.path.abspath(__file__)))
REPO = os.environ.get("VERIF_REPO", "/repo")

ASSUMPTIONS = [
    "machine arithmetic treated as mathematical: Python/numpy float64 are modelled as real numbers (no rounding, overflow, inf or nan); int as unbounded integers",
    "decimal literals in the source denote their decimal value",
    "np.exp/np.log/np.log10/np.power/** with non-literal exponent are uninterpreted functions constrained by instantiated sound axioms (positivity, monotonicity, tangent/chord bounds, inverse, multiplicativity): proofs hold for the real functions, counter-models may be spurious and are replayed",
    "round(x) / round(x,k) return some value within half a unit of the last place of x (ties non-deterministic)",
    "numpy copy/view rules: x*1, x*1.0, np.zeros, np.ones, .copy() allocate fresh arrays; plain assignment and a[:] alias",
    "heap model: parameter objects and arrays are distinct unless the contract states an alias scenario",
    "CPython evaluation order and determinism; z3 4.x/5.x and cvc5 are trusted as back ends",
    "induction over the naturals for the lemma library (wsum update / pointwise comparison lemmas) is the only meta-rule",
]


def load_contracts():
    sys.path.insert(0, VERIF)
    import contracts
    cdir = os.path.join(VERIF, "contracts")
    for f in sorted(os.listdir(cdir)):
        if f.endswith(".py") and f not in ("__init__.py", "props.py"):
            importlib.import_module("contracts." + f[:-3])
    from contracts import props
    return props


def _gen_worker(key):
    """Generate obligations of one contract; return picklable records."""
    try:
        load_contracts()
        from vc.spec import REGISTRY
        from vc import driver, solve
        c = REGISTRY.by_key[key]
        rep = driver.generate(c)
        obs = []
        for ob in rep.obligations:
            obs.append(dict(name=ob.name, kind=ob.kind, func=ob.func, lineno=ob.lineno, tags=list(ob.tags), note=ob.note,
                            trivial=bool(getattr(ob, "trivial", False)),
                            smt2=("" if getattr(ob, "trivial", False) else solve.to_smt2(ob.hyps, ob.goal))))
        vac = []
        for name, pc in rep.vacuity:
            import z3
            vac.append(dict(name=name, smt2=solve.to_smt2(pc, z3.BoolVal(False))))
        return dict(key=key, obligations=obs, vacuity=vac, tool_limit=rep.tool_limit or rep.soft_limit, returns=rep.returns, merges=rep.merges,
                    dead_paths=rep.dead_paths, dropped=rep.dropped, notes=rep.notes, gen_time=rep.gen_time)
    except Exception as e:
        import traceback
        return dict(key=key, obligations=[], vacuity=[], tool_limit=None, error="generator crashed: %r\n%s" % (e, traceback.format_exc()),
                    returns=0, merges=0, dead_paths=0, dropped=[], notes=[], gen_time=0.0)


def _solve_worker(args):
    smt2, timeout_s, both, expect_sat = args
    if smt2 == "":
        return dict(verdict="unsat", stage=0, backend="identity", time=0.0, attempts=[("goal is a hypothesis", "unsat", 0.0)], stats={}, model=None)
    from vc import solve
    try:
        if expect_sat:
            r = solve.check_sat_smt2(smt2, timeout_s)
        else:
            r = solve.discharge_smt2(smt2, timeout_s=timeout_s, both=both)
        r.get("stats", {}).pop("_select_table", None)
        return r
    except Exception as e:
        return dict(verdict="error", error=repr(e), time=0.0, attempts=[], stats={}, model=None)


def sha256_file(path):
    h = hashlib.sha256()
    with open(path, "rb") as f:
        h.update(f.read())
    return h.hexdigest()


def ob_key(ob):
    """Identity of an obligation that survives line shifts: function.kind.detail (no line/column, no duplicate counter)."""
    n = ob["name"]
    base = n.split("@")[0]
    return base


def start_bounded(spec, prop_id, tier, seed):
    """Launch the bounded stand-in (E3) of a property as a subprocess under /venv/bin/python; returns (proc, outpath) or None."""
    b = spec.get("bounded")
    if not b:
        return None
    import subprocess, tempfile
    handles = []
    for bb in (b if isinstance(b, list) else [b]):
        fd, out = tempfile.mkstemp(prefix="e3_%s_" % prop_id, suffix=".json")
        os.close(fd)
        cmd = ["/venv/bin/python", os.path.join(VERIF, "e3", bb["module"]), "--tier", tier, "--seed", str(seed), "--out", out] + list(bb.get("args", []))
        env = dict(os.environ)
        env["PYTHONWARNINGS"] = "ignore"
        if REPO != "/repo":
            env["PYTHONPATH"] = REPO      # the bounded stand-in must import the same tree the obligations were generated from
        log = open(out + ".log", "w")
        handles.append((subprocess.Popen(cmd, cwd=VERIF, stdout=log, stderr=subprocess.STDOUT, env=env), out, bb["module"]))
    return handles


def finish_bounded(handles, timeout_s):
    merged, errs = None, []
    for h in handles:
        res, err = _finish_one(h[:2], timeout_s)
        if err:
            errs.append("%s: %s" % (h[2], err))
        if res is None:
            continue
        if merged is None:
            merged = dict(res)
            merged["modules"] = [h[2]]
            continue
        merged["modules"].append(h[2])
        merged["lattice"] = "%s  ||  %s" % (merged.get("lattice"), res.get("lattice"))
        merged["cases"] = int(merged.get("cases") or 0) + int(res.get("cases") or 0)
        merged["distinct_nontrivial"] = int(merged.get("distinct_nontrivial") or 0) + int(res.get("distinct_nontrivial") or 0)
        merged["rule"] = "%s  ||  %s" % (merged.get("rule"), res.get("rule"))
        merged["failures"] = list(merged.get("failures", [])) + list(res.get("failures", []))
        merged["samples"] = list(merged.get("samples", []))[:4] + list(res.get("samples", []))[:3]
        merged["wall_s"] = (merged.get("wall_s") or 0) + (res.get("wall_s") or 0)
        merged["exceptions"] = list(merged.get("exceptions") or []) + list(res.get("exceptions") or [])
    return merged, ("; ".join(errs) if errs else None)


def _finish_one(handle, timeout_s):
    proc, out = handle
    res = None
    err = None
    try:
        proc.wait(timeout=timeout_s)
    except Exception:
        proc.kill()
        err = "bounded check timed out after %ds" % timeout_s
    try:
        with open(out) as f:
            res = json.load(f)
    except Exception as e:
        err = err or ("bounded check produced no result (%r); log tail: %s" % (e, open(out + ".log").read()[-1500:]))
    for pth in (out, out + ".log"):
        try:
            os.unlink(pth)
        except OSError:
            pass
    return res, err


def _sig_match(sig, pat):
    """known-finding signatures match by prefix, or as a glob when they contain '*'"""
    if "*" in pat:
        import fnmatch
        return fnmatch.fnmatchcase(sig, pat)
    return sig.startswith(pat)


def read_known_findings():
    path = os.path.join(VERIF, "known_findings.txt")
    findings, fixed = [], []
    if os.path.exists(path):
        for line in open(path):
            line = line.strip()
            if not line or line.startswith("#"):
                continue
            if line.startswith("finding:"):
                head, _, text = line[len("finding:"):].partition(" || ")
                d = dict(kv.split("=", 1) for kv in head.split() if "=" in kv)
                d["text"] = text.strip()
                findings.append(d)
            elif line.startswith("fixed:"):
                fixed.append(line)
    return findings, fixed


def run_check(prop_id, tier="quick", seed=0):
    t_start = time.time()
    props = load_contracts()
    from vc.spec import REGISTRY
    if prop_id.startswith("fn:"):
        # developer mode: every obligation of the named functions (not a registered check; evidence goes to evidence/_dev.json)
        spec = dict(functions=prop_id[3:].split(","), level="proof", safety=True, frame=True)
        props.PROPS[prop_id] = spec
        _reg = props.registered
        props.registered = lambda pid, ob: True if pid == prop_id else _reg(pid, ob)
    spec = props.PROPS[prop_id]
    keys = []
    for fname in spec["functions"]:
        cs = REGISTRY.by_name.get(fname)
        if not cs:
            print("checker error: no contract named %s" % fname)
            return 3
        keys += [c.key for c in cs]
    timeout_s = 20 if tier == "quick" else 120
    both = tier == "thorough"
    bounded_handle = start_bounded(spec, prop_id, tier, seed)
    ncpu = min(16, os.cpu_count() or 4)
    with mp.Pool(ncpu) as pool:
        gens = pool.map(_gen_worker, keys, chunksize=1)
        # select the obligations registered for this property
        jobs = []
        meta = []
        for g in gens:
            for ob in g["obligations"]:
                if not props.registered(prop_id, ob):
                    continue
                jobs.append((ob["smt2"], timeout_s, both, False))
                meta.append((g["key"], ob))
            for v in g["vacuity"]:
                jobs.append((v["smt2"], 5, False, True))
                meta.append((g["key"], dict(name=v["name"], kind="vacuity", func=g["key"][1], tags=[], note="must be satisfiable", lineno=None)))
        results = pool.map(_solve_worker, jobs, chunksize=1)
    # ---- E2 store scan (syntactic, whole package) against the declared frames
    scan_spec = spec.get("store_scan")
    if scan_spec:
        from vc import storescan
        declared = json.load(open(os.path.join(VERIF, "contracts", "frames.json")))
        found = storescan.summary(REPO)
        for fn_key in sorted(found):
            area = fn_key.split("/")[1] if "/" in fn_key else ""
            for cls in found[fn_key]:
                kindc = cls.split(":")[0]
                if not scan_spec(area, kindc):
                    continue
                ok = cls in declared.get(fn_key, [])
                ob = dict(name="store_scan.%s.%s" % (fn_key.replace("aquacrop/", ""), cls), kind="store_scan", func=fn_key, tags=[prop_id], lineno=None,
                          note="store class %s in %s must be part of the declared frame (contracts/frames.json)" % (cls, fn_key))
                meta.append((("<scan>", fn_key), ob))
                results.append(dict(verdict="unsat" if ok else "sat", stage=0, backend="store-scan", time=0.0, attempts=[("syntactic store scan", "declared" if ok else "NOT declared", 0.0)],
                                    stats={}, model={"function": fn_key, "store_class": cls}))
    # ---- calculation scheme: declared precedence between the process calls of a function (syntactic, from the current source)
    from vc.spec import REGISTRY as _REG
    for _k, _c in _REG.by_key.items():
        prec = _c.options.get("call_precedence")
        if not prec or (_c.name not in spec.get("functions", []) and _c.name not in spec.get("call_order_of", [])):
            continue
        import ast as _ast
        from vc.interp import find_function as _ff
        try:
            _fn = _ff(_c.file, _c.options.get("function", _c.name))
        except Exception as _e:
            continue
        first = {}
        for _n in _ast.walk(_fn):
            if isinstance(_n, _ast.Call) and isinstance(_n.func, _ast.Name):
                first.setdefault(_n.func.id, (_n.lineno, _n.col_offset))
                if (_n.lineno, _n.col_offset) < first[_n.func.id]:
                    first[_n.func.id] = (_n.lineno, _n.col_offset)
        for a_, b_ in prec:
            ok = a_ in first and b_ in first and first[a_] < first[b_]
            why = ("%s is called at line %s, %s at line %s" % (a_, first.get(a_, ("-",))[0], b_, first.get(b_, ("-",))[0]))
            ob = dict(name="%s.call_order.%s_before_%s" % (_c.name, a_, b_), kind="call_order", func=_c.name, tags=[prop_id], lineno=None,
                      note="calculation scheme: %s must run before %s (%s)" % (a_, b_, why))
            meta.append((("<call_order>", _c.name), ob))
            results.append(dict(verdict="unsat" if ok else "sat", stage=0, backend="call-order", time=0.0, attempts=[("syntactic call order", why, 0.0)], stats={},
                                model={"function": _c.name, "first_call_sites": {k: v[0] for k, v in first.items() if k in (a_, b_)}}))
    # ---- lemma library (wsum lemmas used as rewrites / hypotheses), re-proved by induction on this run
    if spec.get("lemmas"):
        from vc import lemmas
        for lname, verdict in lemmas.check_all():
            ob = dict(name="lemma." + lname, kind="lemma", func="lemma library", tags=[prop_id], lineno=None, note="induction VC of the spec-sum lemma library")
            meta.append((("<lemmas>", lname), ob))
            results.append(dict(verdict="unsat" if verdict == "unsat" else "unknown", stage=2, backend="z3", time=0.0, attempts=[("z3 (quantified induction VC)", verdict, 0.0)], stats={}, model=None))
    # ---- catalogue obligation: the static valid_crop clauses evaluated for every built-in crop (exhaustive)
    if spec.get("catalogue"):
        import subprocess as _sp2
        pr2 = _sp2.run(["python3-vt", "-c", "import json,sys; sys.path.insert(0, %r); from vc import catalogue; print(json.dumps(catalogue.main()))" % VERIF],
                       cwd=VERIF, capture_output=True, text=True, timeout=1200, env=dict(os.environ, PYTHONPATH=VERIF))
        try:
            cat = json.loads(pr2.stdout.strip().splitlines()[-1])
        except Exception:
            cat = None
            print("CHECKER-ERROR catalogue obligation did not run: %s" % pr2.stderr[-400:])
        if cat is not None:
            import re as _re
            nclause = cat["clauses_checked"]
            for crop, bad in sorted(cat["violations"].items()):
                for cl in bad:
                    fld = _re.search(r"C\.([A-Za-z_0-9]+)", cl)
                    ob = dict(name="catalogue.valid_crop.%s.%s" % (crop, fld.group(1) if fld else "clause"), kind="catalogue", func="crop_params", tags=[prop_id], lineno=None,
                              note="built-in crop %s violates the assumed crop precondition `%s`" % (crop, cl))
                    meta.append((("<catalogue>", crop), ob))
                    results.append(dict(verdict="sat", stage=0, backend="catalogue", time=0.0, attempts=[("concrete evaluation", "false", 0.0)], stats={}, model={"crop": crop, "clause": cl}))
                ob = dict(name="catalogue.valid_crop.%s.all_other_clauses" % crop, kind="catalogue", func="crop_params", tags=[prop_id], lineno=None,
                          note="%d static valid_crop clauses hold for %s" % (nclause - len(bad), crop))
                meta.append((("<catalogue>", crop), ob))
                results.append(dict(verdict="unsat", stage=0, backend="catalogue", time=0.0, attempts=[("concrete evaluation of %d clauses" % (nclause - len(bad)), "true", 0.0)], stats={}, model=None))
    # ---- engine-vs-CPython cross-check (the interpreter that builds the VCs, run concretely on captured real calls)
    cross = None
    if spec.get("crosscheck"):
        try:
            import subprocess as _sp
            pr = _sp.run(["python3-vt", "-m", "vc.crosscheck"], cwd=VERIF, capture_output=True, text=True, timeout=3000,
                         env=dict(os.environ, PYTHONPATH=VERIF))
            lines = [l for l in pr.stdout.splitlines() if l.strip()]
            cross = dict(exit=pr.returncode, summary=lines[-1] if lines else "", per_function=lines[:-1][:40])
        except Exception as e:
            cross = dict(exit=3, summary="cross-check failed to run: %r" % (e,), per_function=[])
    findings, fixed = read_known_findings()
    tool_limits = [(g["key"], g["tool_limit"]) for g in gens if g.get("tool_limit")]
    errors = [(g["key"], g["error"]) for g in gens if g.get("error")]
    n_ob = n_dis = 0
    refuted, unknown, solver_errors, vacuous = [], [], [], []
    vac_all = {}
    dead_returns = []
    per_ob = []
    solver_time = 0.0
    backends = {}
    if os.environ.get("VERIF_VERBOSE"):
        for (key, ob), r in zip(meta, results):
            if r["verdict"] != "unsat" and ob["kind"] != "vacuity":
                print("  %-8s %6.1fs %s  %s  %s" % (r["verdict"], r.get("time", 0), ob["name"], r.get("attempts"), r.get("error", "")))
    for (key, ob), r in zip(meta, results):
        solver_time += r.get("time", 0.0)
        if ob["kind"] == "vacuity":
            vac_all.setdefault(ob["name"].rsplit(".", 1)[0], []).append((ob["name"], r["verdict"]))
            continue
        n_ob += 1
        rec = dict(name=ob["name"], kind=ob["kind"], verdict=r["verdict"], stage=r.get("stage"), backend=r.get("backend"),
                   time=round(r.get("time", 0.0), 3), attempts=r.get("attempts"))
        per_ob.append(rec)
        if r["verdict"] == "unsat":
            n_dis += 1
            backends[r.get("backend")] = backends.get(r.get("backend"), 0) + 1
        elif r["verdict"] == "sat":
            refuted.append((key, ob, r))
        elif r["verdict"] == "error":
            solver_errors.append((ob["name"], r.get("error")))
        else:
            unknown.append(ob["name"])
    # vacuity guard: the preconditions of every function must be satisfiable and at least one return path must be reachable
    # (a single unreachable return path is a proved dead path, reported; all of them unreachable means contradictory assumptions)
    for fn_name, items in vac_all.items():
        rets = [(n_, v_) for n_, v_ in items if "_reachable" in n_]
        for n_, v_ in items:
            if n_.endswith("requires_satisfiable") and v_ == "unsat":
                vacuous.append(n_)
        if rets and all(v_ == "unsat" for _, v_ in rets):
            vacuous.append(fn_name + ".all_returns_unreachable")
        dead_returns += [n_ for n_, v_ in rets if v_ == "unsat"]
    # ---- violations vs known findings
    os.makedirs(os.path.join(VERIF, "replays"), exist_ok=True)
    violations = []
    known_hits = []
    for key, ob, r in refuted:
        k = ob_key(ob)
        hit = None
        for f in findings:
            if f.get("property") == prop_id and f.get("obligation") and k.startswith(f["obligation"]):
                hit = f
                break
        from vc import replay
        rp = replay.make_replay(prop_id, key, ob, r)
        if hit is not None:
            known_hits.append((hit, ob, rp))
        else:
            violations.append((ob, rp))
    # ---- bounded stand-in (E3): failures are violations unless listed as known findings (matched by signature prefix)
    bounded_res, bounded_err = (None, None)
    bounded_viol, bounded_known = [], []
    if bounded_handle is not None:
        bounded_res, bounded_err = finish_bounded(bounded_handle, 900 if tier == "quick" else 3600)
        if bounded_res is not None:
            for fl in bounded_res.get("failures", []):
                sig = fl.get("signature", "")
                sig_n = sig.replace(" ", "-")
                hit = None
                for f in findings:
                    if f.get("property") == prop_id and f.get("signature") and _sig_match(sig_n, f["signature"]):
                        hit = f
                        break
                if hit is not None:
                    bounded_known.append((hit, fl))
                else:
                    safe = "".join(ch if ch.isalnum() or ch in "._-" else "_" for ch in sig)[:120]
                    path = os.path.join("replays", "%s__bounded__%s.json" % (prop_id, safe))
                    with open(os.path.join(VERIF, path), "w") as fh:
                        json.dump(dict(property=prop_id, kind="bounded-case", signature=sig, clause=fl.get("clause"), detail=fl.get("detail"),
                                       repro=fl.get("repro"), module=str((bounded_res or {}).get("modules")), confirmed=True,
                                       how="observed on the real model by the bounded stand-in (E3)"), fh, indent=1, default=str)
                    bounded_viol.append((fl, path))
    printed = set()
    for hit, fl in bounded_known:
        line = "KNOWN-FINDING: property=%s %s %s" % (prop_id, hit.get("signature"), hit.get("text", ""))
        if line not in printed:
            print(line)
            printed.add(line)
    for fl, path in bounded_viol:
        print("VIOLATION property=%s replay=%s" % (prop_id, path))
        print("   bounded case %s: %s -- %s" % (fl.get("signature"), fl.get("clause"), str(fl.get("detail"))[:200]))
    for hit, ob, rp in known_hits:
        line = "KNOWN-FINDING: property=%s %s %s" % (prop_id, hit.get("obligation"), hit.get("text", ""))
        if line not in printed:
            print(line)
            printed.add(line)
    for ob, rp in violations:
        print("VIOLATION property=%s replay=%s%s" % (prop_id, rp["path"], "" if rp.get("confirmed") else " no-failing-input-found"))
        print("   obligation %s refuted: %s" % (ob["name"], ob.get("note", "")[:200]))
    # ---- evidence
    files = sorted({k[0] for k in keys if not k[0].startswith("<")})
    ev = {
        "property_id": prop_id, "tier": tier, "seed": int(seed), "level": spec.get("level", "proof"),
        "coverage": {
            "obligations": n_ob, "discharged": n_dis,
            "checker_cmd": "./vcheck %s --tier %s" % (prop_id, tier),
            "trusted_base": spec.get("trusted_base", []) + ["z3 %s (python API) / cvc5 1.0.3 CLI" % _z3v(), "the VC generator /verif/vc (ast -> SMT), cross-checked against CPython by ./vcheck crosscheck"],
            "functions_under_contract": [dict(function=g["key"][1], file=g["key"][0], obligations_generated=len(g["obligations"]),
                                              return_paths=g["returns"], merged_diamonds=g["merges"], dead_paths=g["dead_paths"],
                                              generation_s=round(g["gen_time"], 2), tool_limit=g.get("tool_limit")) for g in gens],
            "backends": backends, "solver_time_s": round(solver_time, 2),
            "cvc5_crosscheck": ({"unsat_confirmed": sum(1 for r in results if r.get("cvc5") == "unsat"),
                                 "cvc5_unknown_or_timeout": sum(1 for r in results if r.get("cvc5") == "unknown"),
                                 "disagreements": sum(1 for r in results if r.get("cvc5") == "sat")} if both else "thorough tier only"),
            "refuted": [o["name"] for _, o, _ in refuted], "undecided": unknown, "solver_errors": solver_errors,
            "known_findings_matched": [h.get("obligation") for h, _, _ in known_hits],
            "vacuity": {"checked": sum(1 for (_, o) in meta if o["kind"] == "vacuity"), "vacuous": vacuous, "dead_return_paths": dead_returns},
            "source_sha256": {f: sha256_file(os.path.join(REPO, f)) for f in files if os.path.exists(os.path.join(REPO, f))},
            "dropped_by_extraction": sorted({d for g in gens for d in g["dropped"]}) + ["docstrings", "type annotations", "import statements", "comments"],
            "notes": sorted({n for g in gens for n in g["notes"]}),
            "samples": [dict(name=p["name"], verdict=p["verdict"], backend=p["backend"], time=p["time"]) for p in per_ob[:12]],
            "per_obligation": per_ob,
            "explanation": spec.get("explanation", ""),
            "engine_cross_check": cross if cross is not None else "run by the C16 check (./vcheck crosscheck)",
            "bounded": (dict(note="BOUNDED stand-in (E3), never counted as proved: contract clauses evaluated on real model runs over an enumerated finite input set",
                             module=str((bounded_res or {}).get("modules")), lattice=(bounded_res or {}).get("lattice"), cases=(bounded_res or {}).get("cases"),
                             distinct_nontrivial=(bounded_res or {}).get("distinct_nontrivial"), rule=(bounded_res or {}).get("rule"),
                             failures=[f.get("signature") for f in (bounded_res or {}).get("failures", [])],
                             known_findings_matched=sorted({h.get("signature") for h, _ in bounded_known}),
                             samples=(bounded_res or {}).get("samples", [])[:6], wall_s=(bounded_res or {}).get("wall_s"),
                             extra={k: v for k, v in (bounded_res or {}).items() if k in ("residue_max", "cr_report_gap_max", "days_checked", "model_raised")},
                             harness_exceptions=(bounded_res or {}).get("exceptions"), error=bounded_err)
                        if spec.get("bounded") else "none in this check"),
        },
        "assumptions": ASSUMPTIONS + spec.get("assumptions", []),
        "wall_s": round(time.time() - t_start, 2),
        "violations": len(violations) + len(bounded_viol),
    }
    if spec.get("level", "proof") != "proof" or n_ob == 0:
        # bounded-only (or mainly bounded) checks report in the generic exploration keys
        ev["coverage"]["evaluations"] = int((bounded_res or {}).get("cases") or 0) + n_ob
        ev["coverage"]["distinct_nontrivial"] = int((bounded_res or {}).get("distinct_nontrivial") or 0) + n_dis
        ev["coverage"]["rule"] = ((bounded_res or {}).get("rule") or "") + " | plus E1 obligations (each a distinct named formula), counted in 'obligations'"
        if not ev["coverage"]["samples"]:
            ev["coverage"]["samples"] = (bounded_res or {}).get("samples", [])[:6]
    os.makedirs(os.path.join(VERIF, "evidence"), exist_ok=True)
    with open(os.path.join(VERIF, "evidence", (prop_id if not prop_id.startswith("fn:") else "_dev") + ".json"), "w") as f:
        json.dump(ev, f, indent=1)
    print("%s [%s]: %d obligations, %d discharged, %d refuted (%d known), %d undecided, %d functions; bounded: %s cases, %d failures (%d known); %.1fs"
          % (prop_id, tier, n_ob, n_dis, len(refuted), len(known_hits), len(unknown), len(gens),
             (bounded_res or {}).get("cases", "-"), len((bounded_res or {}).get("failures", [])) if bounded_res else 0, len(bounded_known), time.time() - t_start))
    if violations or bounded_viol:
        for k, t in tool_limits:
            print("NOTE tool limit in %s (its obligations were not all generated; the violation above does not depend on them): %s" % (k[1], t))
        return 1
    if bounded_err:
        print("CHECKER-ERROR bounded stand-in: %s" % bounded_err)
        return 3
    if cross is not None and cross.get("exit") not in (0,):
        print("CHECKER-ERROR engine cross-check: %s" % cross.get("summary"))
        return 3
    if bounded_res is not None and bounded_res.get("exceptions"):
        print("NOTE bounded stand-in harness notes: %s" % str(bounded_res.get("exceptions"))[:300])
    if tool_limits or errors or solver_errors or vacuous or (n_ob == 0 and not spec.get("bounded")):
        for k, t in tool_limits:
            print("TOOL-LIMIT %s: %s" % (k[1], t))
        for k, e in errors:
            print("CHECKER-ERROR %s: %s" % (k[1], e))
        for n, e in solver_errors:
            print("SOLVER-ERROR %s: %s" % (n, e))
        for v in vacuous:
            print("VACUOUS %s: the hypotheses are contradictory" % v)
        if n_ob == 0 and not spec.get("bounded"):
            print("CHECKER-ERROR: zero obligations generated")
        return 3
    if unknown:
        for u in unknown:
            print("UNDECIDED %s" % u)
        return 2
    return 0


def _z3v():
    import z3
    return z3.get_version_string()
