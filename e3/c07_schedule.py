#!/venv/bin/python
"""E3 bounded check for property C07 (the simulation calendar is exact).

BOUNDED, NOT PROVED.  Two finite lattices are enumerated on the real, unchanged code:

 S  schedule lattice  -- the pandas initialisers read_clock_parameters /
    read_weather_inputs / read_model_parameters (which calls compute_crop_calendar when
    no harvest date is configured) are called directly and the clauses `schedule_ok`
    are evaluated against an independent date-arithmetic oracle (datetime.date only).
 R  whole-run lattice -- a real AquaCropModel is run (till_termination / chunks of 1, 7,
    400 steps); aquacrop.core.update_time is rebound in the worker process to a
    recording wrapper (pure observer) and the recorded sequence of simulated days, the
    three daily tables and final_stats are compared with an independent model of the
    expected sequence of days.

Usage: c07_schedule.py --tier quick|thorough --seed N --out path.json
"""
import argparse
import datetime as dt
import json
import os
import random
import sys
import time
import traceback
import warnings

warnings.filterwarnings("ignore")
os.environ.setdefault("DEVELOPMENT", "True")

import numpy as np  # noqa: E402
import pandas as pd  # noqa: E402

PROP = "C07"
NPROC = 16

# ----------------------------------------------------------------------------- lattices
PLANT_DAYS = ["01/01", "02/28", "03/01", "05/01", "10/01", "12/15", "12/31"]
OFFSETS = list(range(-40, 41))
WINLEN = [20, 45, 90, 180, 300, 365, 366, 400, 540, 730, 800, 1096, 1200, 1461]
CROPLEN = [90, 180, 330, 350]
HMODE = ["none", "explicit"]
OFFS = [False, True]
BASE_YEAR = 2000
# extra hand-placed schedule cases (always run): leap-day window ends/starts
EXTRA_S = [
    # (start, end, planting md, L, hmode, off)
    ("2000/01/01", "2000/02/29", "01/15", 90, "none", False),
    ("1999/04/01", "2000/02/29", "05/01", 90, "none", False),
    ("1999/04/01", "2004/02/29", "05/01", 90, "explicit", True),
    ("2000/02/29", "2001/02/28", "05/01", 90, "none", False),
    ("2000/02/29", "2002/03/01", "03/01", 180, "none", True),
    ("1999/09/01", "2000/02/29", "10/01", 180, "none", False),
    ("1999/09/01", "2004/02/29", "10/01", 180, "explicit", True),
    ("2000/09/01", "2000/10/31", "10/01", 180, "none", False),
    ("2000/09/01", "2001/10/31", "10/01", 180, "none", False),
    ("2000/09/01", "2002/12/31", "10/01", 180, "none", False),
    ("2000/12/31", "2002/01/02", "12/31", 90, "none", False),
    ("2000/01/01", "2000/12/31", "01/01", 330, "none", False),
    ("2000/01/01", "2001/01/01", "01/01", 350, "none", False),
]

R_CROPS = ["Barley", "Maize", "Wheat", "Tomato", "Potato", "Cassava", "SugarCane",
           "MaizeGDD", "WheatGDD", "BarleyGDD", "PotatoGDD", "TomatoGDD", "AlfalfaGDD",
           "SugarBeetGDD"]
R_OFFSETS = [-40, -1, 0, 1, 40]
R_WINLEN = [20, 100, 200, 365, 400, 740, 1196]
R_HMODE = ["none", "late", "early"]
R_STEP = ["till", "1", "7", "400"]

WX_Y0, WX_Y1 = 1998, 2007


# ----------------------------------------------------------------------------- weather
def make_weather(seed):
    rng = np.random.default_rng(seed)
    d = pd.date_range(f"{WX_Y0}-01-01", f"{WX_Y1}-12-31", freq="D")
    n = len(d)
    doy = d.dayofyear.values
    tm = 19 + 7 * np.sin(2 * np.pi * (doy - 110) / 365.25) + rng.normal(0, 2, n)
    tmin = tm - 5 - rng.random(n) * 3
    tmax = tm + 5 + rng.random(n) * 3
    pr = np.where(rng.random(n) < 0.25, rng.gamma(0.8, 8, n), 0.0)
    et = np.clip(3 + 2 * np.sin(2 * np.pi * (doy - 110) / 365.25) + rng.normal(0, 0.5, n), 0.1, None)
    return pd.DataFrame({"MinTemp": np.round(tmin, 2), "MaxTemp": np.round(tmax, 2),
                         "Precipitation": np.round(pr, 2), "ReferenceET": np.round(et, 2), "Date": d})


_W = {}


def weather(seed):
    if seed not in _W:
        _W[seed] = make_weather(seed)
    return _W[seed]


# ----------------------------------------------------------------------------- date helpers
def pdate(s):
    y, m, d = s.split("/")
    return dt.date(int(y), int(m), int(d))


def fmt(d):
    return "%04d/%02d/%02d" % (d.year, d.month, d.day)


def md_of(s):
    m, d = s.split("/")
    return int(m), int(d)


def first_on_or_after(start, m, d):
    p = dt.date(start.year, m, d)
    if p < start:
        p = dt.date(start.year + 1, m, d)
    return p


def md_plus(mdstr, days):
    """month/day string reached `days` days after mdstr in the non-leap reference year 1990"""
    m, d = md_of(mdstr)
    r = dt.date(1990, m, d) + dt.timedelta(days=days)
    return "%02d/%02d" % (r.month, r.day)


def to_date(ts):
    ts = pd.Timestamp(ts)
    return dt.date(ts.year, ts.month, ts.day)


# ----------------------------------------------------------------------------- schedule oracle
def classify_init_exception(exc, start, end, pm, pd_, spans_ny):
    """mechanism class of an exception raised by the initialisers (for the signature)"""
    name = type(exc).__name__
    msg = str(exc)
    P = first_on_or_after(start, pm, pd_)
    if name == "AssertionError" and ("growing degree days" in msg or "longer than 1 year" in msg):
        return "documented", name
    if name == "IndexError":
        if not (P < end):
            return "fail", "IndexError|no-planting-date-in-window"
        if spans_ny and P.year == end.year:
            # includes every window lying in one calendar year that contains the planting date
            return "fail", "IndexError|spanNY-crop|first-planting-date-falls-in-end-year-of-window"
        return "fail", "IndexError|other"
    if name in ("DateParseError", "ValueError") and "1990/2/29" in msg:
        return "fail", "DateParseError|end-date-on-02-29|single-year-crop"
    return "fail", name + "|other"


def check_schedule(cs, start, end, pmd, hmd_cfg, matcd, off):
    """Evaluate schedule_ok on a ClockStruct. Returns list of (clause_id, clause, detail) and
    a dict of observations."""
    bad = []
    obs = {}
    pm, pd_ = md_of(pmd)
    planting = [to_date(x) for x in cs.planting_dates]
    harvest = [to_date(x) for x in cs.harvest_dates]
    if not (cs.n_seasons == len(planting) == len(harvest)):
        bad.append(("n_seasons", "n_seasons equals the number of planting and harvest dates",
                    f"n_seasons={cs.n_seasons} planting={len(planting)} harvest={len(harvest)}"))
    if len(planting) == 0:
        bad.append(("empty", "a schedule exists", "empty schedule returned"))
        return bad, obs
    P0 = first_on_or_after(start, pm, pd_)
    if planting[0] != P0:
        bad.append(("first-planting", "seasons start with the first planting date on or after the start date",
                    f"planting[0]={planting[0]} expected {P0} (start {start})"))
    for k, p in enumerate(planting):
        if (p.month, p.day) != (pm, pd_):
            bad.append(("planting-day", "seasons begin on the configured planting day",
                        f"planting[{k}]={p} configured {pmd}"))
            break
        if k and p.year != planting[k - 1].year + 1:
            bad.append(("consecutive-years", "seasons begin in consecutive years",
                        f"planting[{k - 1}]={planting[k - 1]} planting[{k}]={p}"))
            break
    for k, p in enumerate(planting):
        if not (start <= p < end):
            bad.append(("planting-in-window", "every scheduled planting date lies in [start, end)",
                        f"planting[{k}]={p} window {start}..{end}"))
            break
    for k in range(len(planting)):
        if k >= len(harvest):
            break
        h = harvest[k]
        if not planting[k] < h:
            bad.append(("harvest-after-planting", "planting[k] < harvest[k]",
                        f"planting[{k}]={planting[k]} harvest[{k}]={h}"))
            break
        if k + 1 < len(planting) and not h < planting[k + 1]:
            bad.append(("harvest-before-next", "harvest[k] < planting[k+1]",
                        f"harvest[{k}]={h} planting[{k + 1}]={planting[k + 1]}"))
            break
        if hmd_cfg is not None:
            hm, hd = md_of(hmd_cfg)
            if (h.month, h.day) != (hm, hd):
                bad.append(("harvest-day", "harvest dates fall on the configured harvest day",
                            f"harvest[{k}]={h} configured {hmd_cfg}"))
                break
            # first occurrence of the harvest day after planting
            e = dt.date(planting[k].year, hm, hd)
            if e <= planting[k]:
                e = dt.date(planting[k].year + 1, hm, hd)
            if h != e:
                bad.append(("harvest-year", "harvest[k] is the first configured harvest day after planting[k]",
                            f"harvest[{k}]={h} expected {e}"))
                break
        else:
            # no harvest date configured: the derived latest harvest date must not cut the
            # season before calendar maturity (statement: a season ends at maturity, earlier
            # only on death or at the *configured* latest harvest date)
            if matcd is not None and (h - planting[k]).days < matcd:
                bad.append(("derived-harvest-before-maturity",
                            "a season ends on the first day the crop reaches maturity, earlier only if the crop "
                            "has died or its latest harvest date is reached (none configured)",
                            f"harvest_date=None, MaturityCD={matcd}: derived harvest[{k}]={h} is "
                            f"{(h - planting[k]).days} d after planting[{k}]={planting[k]}"))
                break
    exp_sc = 0 if planting[0] == start else -1
    if cs.season_counter != exp_sc:
        bad.append(("season-counter-init", "season counter starts at 0 iff the run starts on the first planting date, else -1",
                    f"season_counter={cs.season_counter} expected {exp_sc}"))
    if cs.sim_off_season is not off:
        bad.append(("off-season-flag", "the off-season flag is stored as configured", f"{cs.sim_off_season!r} vs {off!r}"))
    if to_date(cs.time_span[0]) != start or to_date(cs.time_span[-1]) != end or len(cs.time_span) != (end - start).days + 1 \
            or cs.n_steps != len(cs.time_span):
        bad.append(("time-span", "time_span is every day from start to end inclusive", f"len={len(cs.time_span)} n_steps={cs.n_steps}"))
    # observation (not a failure of C07 as worded): planting dates inside the window that are not scheduled
    y = planting[-1].year + 1
    nxt = dt.date(y, pm, pd_)
    if nxt < end:
        obs["unscheduled_planting_in_window"] = str(nxt)
    return bad, obs


def run_schedule_case(case, seed):
    """case = ('S', start, end, pmd, L, hmode, off). Returns result dict."""
    from aquacrop import Soil, Crop
    from aquacrop.initialize.read_clocks_parameters import read_clock_parameters
    from aquacrop.initialize.read_weather_inputs import read_weather_inputs
    from aquacrop.initialize.read_model_parameters import read_model_parameters

    _, s_start, s_end, pmd, L, hmode, off = case
    start, end = pdate(s_start), pdate(s_end)
    pm, pd_ = md_of(pmd)
    hmd = md_plus(pmd, L + 10) if hmode == "explicit" else None
    spans = (dt.date(1990, pm, pd_) + dt.timedelta(days=(L + 10 if hmode == "explicit" else L + 30))).year > 1990
    sig_case = f"S|{s_start}|{s_end}|plant={pmd}|L={L}|harvest={hmode}|off={int(off)}"
    repro = (f"from aquacrop import Soil, Crop; from aquacrop.initialize.read_clocks_parameters import read_clock_parameters; "
             f"from aquacrop.initialize.read_weather_inputs import read_weather_inputs; "
             f"from aquacrop.initialize.read_model_parameters import read_model_parameters; "
             f"cs=read_clock_parameters('{s_start}','{s_end}',{off}); w=read_weather_inputs(cs, W)  # W: daily weather DataFrame covering the window\n"
             f"read_model_parameters(cs, Soil('SandyLoam'), Crop('Tomato', planting_date='{pmd}', harvest_date={hmd!r}, MaturityCD={L}), w)")
    res = {"case": sig_case, "kind": "S", "nontrivial": False, "fails": [], "obs": {}, "rejected": False}
    try:
        crop = Crop("Tomato", planting_date=pmd, harvest_date=hmd, MaturityCD=L)
        cs = read_clock_parameters(s_start, s_end, off)
        w = read_weather_inputs(cs, weather(seed))
        cs, ps = read_model_parameters(cs, Soil("SandyLoam"), crop, w)
    except Exception as exc:  # noqa: BLE001
        kind, mech = classify_init_exception(exc, start, end, pm, pd_, spans)
        if kind == "documented":
            res["rejected"] = True
            return res
        res["nontrivial"] = True
        res["fails"].append({
            "signature": "schedule|" + mech,
            "clause": "the run always terminates (initialisation of the season schedule must not raise for a valid window)",
            "detail": f"{type(exc).__name__}: {str(exc)[:160]} in {sig_case}",
            "repro": repro, "case": sig_case})
        return res
    res["nontrivial"] = True
    bad, obs = check_schedule(cs, start, end, pmd, hmd, L, off)
    res["obs"] = obs
    for cid, clause, detail in bad:
        mech = cid
        if cid == "derived-harvest-before-maturity":
            mech = cid + "|MaturityCD+30>=365-wraps-year"
        res["fails"].append({"signature": "schedule|" + mech, "clause": clause,
                             "detail": detail + " in " + sig_case, "repro": repro, "case": sig_case})
    res["summary"] = {"planting": [str(to_date(x)) for x in cs.planting_dates][:5],
                      "harvest": [str(to_date(x)) for x in cs.harvest_dates][:5],
                      "season_counter": cs.season_counter, "n_seasons": cs.n_seasons}
    return res


# ----------------------------------------------------------------------------- whole-run monitor
def gdd_oracle(method, tupp, tbase, tmax, tmin):
    """independent re-statement of the three FAO growing-degree-day methods"""
    if method == 1:
        tm = (tmax + tmin) / 2
        tm = tupp if tm > tupp else tm
        tm = tbase if tm < tbase else tm
        return tm - tbase
    if method == 2:
        x = tupp if tmax > tupp else tmax
        x = tbase if x < tbase else x
        n = tupp if tmin > tupp else tmin
        n = tbase if n < tbase else n
        return (x + n) / 2 - tbase
    if method == 3:
        x = tupp if tmax > tupp else tmax
        x = tbase if x < tbase else x
        n = tupp if tmin > tupp else tmin
        tm = (x + n) / 2
        tm = tbase if tm < tbase else tm
        return tm - tbase
    raise ValueError(method)


def run_run_case(case, seed):
    """case = ('R', crop, pmd, offset, winlen, off, hmode, stepmode)"""
    import aquacrop.core as core
    from aquacrop import AquaCropModel, Soil, Crop, InitialWaterContent
    from aquacrop.entities.crops.crop_params import crop_params

    _, cname, pmd, offset, winlen, off, hmode, stepmode = case
    pm, pd_ = md_of(pmd)
    P = dt.date(BASE_YEAR, pm, pd_)
    start = P + dt.timedelta(days=offset)
    end = start + dt.timedelta(days=winlen)
    s_start, s_end = fmt(start), fmt(end)
    matcd = crop_params[cname].get("MaturityCD") or 130
    matcd = int(matcd)
    if hmode == "none":
        hmd = None
    elif hmode == "late":
        hmd = md_plus(pmd, min(matcd + 20, 360))
    else:
        hmd = md_plus(pmd, 60)
    sig_case = f"R|{cname}|plant={pmd}|start{offset:+d}|len={winlen}|off={int(off)}|harvest={hmode}|step={stepmode}"
    repro = (f"from aquacrop import AquaCropModel, Soil, Crop, InitialWaterContent\n"
             f"m=AquaCropModel('{s_start}','{s_end}', W, Soil('SandyLoam'), Crop('{cname}', planting_date='{pmd}', harvest_date={hmd!r}), "
             f"InitialWaterContent(value=['FC']), off_season={off})  # W: daily weather DataFrame covering the window\n"
             + ("m.run_model(till_termination=True)" if stepmode == "till" else
                f"m._initialize()\nwhile not m._clock_struct.model_is_finished: m.run_model(num_steps={stepmode}, initialize_model=False)"))
    res = {"case": sig_case, "kind": "R", "nontrivial": False, "fails": [], "obs": {}, "rejected": False}

    def fail(mech, clause, detail):
        res["fails"].append({"signature": "run|" + mech, "clause": clause, "detail": detail + " in " + sig_case,
                             "repro": repro, "case": sig_case})

    W = weather(seed)
    crop = Crop(cname, planting_date=pmd, harvest_date=hmd)
    caltype_cfg = crop.CalendarType
    model = AquaCropModel(s_start, s_end, W, Soil("SandyLoam"), crop, InitialWaterContent(value=["FC"]), off_season=off)

    rec = []
    orig = core.update_time

    def spy(clock_struct, init_cond, param_struct, weather_arr, crop_):
        rec.append((int(clock_struct.time_step_counter), clock_struct.step_start_time, clock_struct.step_end_time,
                    int(clock_struct.season_counter), bool(clock_struct.model_is_finished), int(init_cond.dap),
                    bool(init_cond.growing_season), bool(init_cond.crop_mature), bool(init_cond.crop_dead),
                    bool(init_cond.harvest_flag), float(init_cond.gdd_cum)))
        return orig(clock_struct, init_cond, param_struct, weather_arr, crop_)

    spans = None
    core.update_time = spy
    try:
        try:
            model._initialize()
        except Exception as exc:  # noqa: BLE001
            # classify like the schedule lattice so that one mechanism has one signature
            if hmd is None:
                sp = matcd + 30
            else:
                sp = (dt.date(1990, *md_of(hmd)) - dt.date(1990, pm, pd_)).days
                sp = sp if sp > 0 else sp + 365
            spans = (dt.date(1990, pm, pd_) + dt.timedelta(days=sp)).year > 1990
            kind, mech = classify_init_exception(exc, start, end, pm, pd_, spans)
            if kind == "documented":
                res["rejected"] = True
                return res
            res["nontrivial"] = True
            res["fails"].append({"signature": "schedule|" + mech,
                                 "clause": "the run always terminates (initialisation of the season schedule must not raise for a valid window)",
                                 "detail": f"{type(exc).__name__}: {str(exc)[:160]} in {sig_case}", "repro": repro, "case": sig_case})
            return res
        cs = model._clock_struct
        # schedule clauses on the real model's clock as well
        derived_matcd = None
        if hmd is None:
            derived_matcd = int(model._param_struct.Seasonal_Crop_List[0].MaturityCD) if caltype_cfg == 1 else None
        bad, obs = check_schedule(cs, start, end, pmd, hmd, derived_matcd, off)
        res["obs"] = obs
        sched_broken = False
        for cid, clause, detail in bad:
            mech = cid
            if cid == "derived-harvest-before-maturity":
                mech = cid + "|MaturityCD+30>=365-wraps-year"
            else:
                sched_broken = True
            res["fails"].append({"signature": "schedule|" + mech, "clause": clause, "detail": detail + " in " + sig_case,
                                 "repro": repro, "case": sig_case})
        if sched_broken:
            res["nontrivial"] = True
            return res
        planting = [to_date(x) for x in cs.planting_dates]
        harvest = [to_date(x) for x in cs.harvest_dates]
        nseas = len(planting)
        n = len(cs.time_span)
        crops = model._param_struct.Seasonal_Crop_List
        # ---- run
        guard = 0
        try:
            if stepmode == "till":
                model.run_model(till_termination=True, initialize_model=False)
            else:
                k = int(stepmode)
                while not model._clock_struct.model_is_finished:
                    model.run_model(num_steps=k, initialize_model=False)
                    guard += 1
                    if guard > n + 5:
                        fail("non-termination", "the run always terminates", f"more than {n + 5} run_model calls")
                        return res
        except AssertionError as exc:
            msg = str(exc)
            if "growing degree days" in msg or "longer than 1 year" in msg:
                res["rejected"] = True
                return res
            fail("exception|AssertionError", "the run always terminates", msg[:160])
            return res
        except Exception as exc:  # noqa: BLE001
            tb = traceback.extract_tb(exc.__traceback__)[-1]
            fail(f"exception|{type(exc).__name__}|{os.path.basename(tb.filename)}:{tb.name}", "the run always terminates",
                 f"{type(exc).__name__}: {str(exc)[:160]} after {len(rec)} steps")
            return res
    finally:
        core.update_time = orig

    # ---- independent model of the expected sequence of days
    wdate0 = dt.date(WX_Y0, 1, 1)
    tminv = W.MinTemp.values
    tmaxv = W.MaxTemp.values
    wf = np.asarray(model._outputs.water_flux, dtype=float)
    wsr = np.asarray(model._outputs.water_storage, dtype=float)
    cg = np.asarray(model._outputs.crop_growth, dtype=float)
    t_exp = 0
    season = 0 if planting[0] == start else -1
    ended = False      # harvest flag of the current season (oracle)
    gddcum = 0.0
    visited = []
    in_season_days = 0
    finished_exp = False
    season_end = {}
    extra_reported = False
    CL_ORDER = "the model simulates each calendar day at most once and in chronological order"
    CL_ROW = "every daily-table row carries the step index of the date it describes"
    CL_DAP = "days after planting count 1, 2, 3, ... without gaps from each planting date"
    CL_END = ("a season ends on the first day the crop reaches maturity, earlier only if the crop has died or its "
              "latest harvest date is reached")
    CL_OFF = "with off-season simulation no day between the start date and the day the run terminates is skipped"
    CL_JUMP = "without off-season simulation the run jumps from harvest straight to the next planting date"
    CL_TERM = "the run always terminates - at the last scheduled season's harvest or on the day before the end date"
    CL_SEAS = "seasons begin on the configured planting day (season counter switches on the planting date)"
    prev_t = -1
    for i, r in enumerate(rec):
        (t, sst, sen, sc, fin, dap, gs, mature, dead, hflag, gcum) = r
        if finished_exp:
            fail("steps-after-expected-termination", CL_TERM, f"step {i}: t={t} simulated after the expected terminal day {visited[-1]}")
            break
        if t <= prev_t:
            fail("day-repeated-or-out-of-order", CL_ORDER, f"step {i}: time_step_counter {t} after {prev_t}")
            break
        if t != t_exp:
            mech = "day-skipped-with-off-season" if off else "wrong-jump-target"
            fail(mech, CL_OFF if off else CL_JUMP, f"step {i}: simulated t={t}, expected t={t_exp} (season {season})")
            break
        prev_t = t
        visited.append(t)
        date = start + dt.timedelta(days=t)
        if to_date(sst) != date or to_date(sen) != date + dt.timedelta(days=1):
            fail("step-date-mismatch", CL_ROW, f"t={t}: step_start_time={to_date(sst)} step_end_time={to_date(sen)} expected {date}")
            break
        if sc != season:
            fail("season-counter-mismatch", CL_SEAS, f"t={t} ({date}): season_counter={sc} expected {season}")
            break
        in_season = season >= 0 and planting[season] <= date <= harvest[season] and not ended
        extra_day = False
        if (not in_season) and gs and ended and season >= 0 and date == harvest[season] \
                and season_end.get(season, (0, ""))[1] == "harvest-date":
            # the season was closed (harvest flag, final_stats row) on the day before the harvest date,
            # yet the model keeps the crop growing on the harvest date itself when the off-season is simulated
            if not extra_reported:
                extra_reported = True
                fail("off-season|in-season-day-after-harvest-flag|on-harvest-date", CL_END,
                     f"season {season} was closed at t={season_end[season][0]} (harvest flag + final_stats, day before harvest date) but "
                     f"t={t} ({date} = harvest date) is again simulated as a growing-season day (dap={dap}); without off-season the run has "
                     f"already jumped away, so the season's last day depends on the off_season flag")
            in_season = True
            extra_day = True
        dap_exp = (date - planting[season]).days + 1 if in_season else 0
        if gs != in_season:
            fail("growing-season-flag-mismatch", CL_END, f"t={t} ({date}): growing_season={gs} expected {in_season} (season {season})")
            break
        rows_ok = (wf[t, 0] == t and wsr[t, 0] == t and cg[t, 0] == t)
        if not rows_ok:
            fail("row-step-index", CL_ROW, f"row {t}: water_flux={wf[t, 0]} water_storage={wsr[t, 0]} crop_growth={cg[t, 0]}")
            break
        if not (wf[t, 1] == season and cg[t, 1] == season):
            fail("row-season-index", CL_ROW, f"row {t}: season column {wf[t, 1]}/{cg[t, 1]} expected {season}")
            break
        if not (dap == dap_exp and wf[t, 2] == dap_exp and wsr[t, 2] == dap_exp and cg[t, 2] == dap_exp and wsr[t, 1] == float(in_season)):
            fail("dap-count", CL_DAP, f"t={t} ({date}): dap state={dap} tables={wf[t, 2]},{wsr[t, 2]},{cg[t, 2]} expected {dap_exp}; "
                 f"growing_season column={wsr[t, 1]}")
            break
        if in_season:
            in_season_days += 1
            c = crops[season]
            if caltype_cfg == 1:
                mature_exp = dap_exp >= c.Maturity
                near = False
            else:
                wi = (date - wdate0).days
                gddcum = gddcum + gdd_oracle(int(c.GDDmethod), c.Tupp, c.Tbase, float(tmaxv[wi]), float(tminv[wi]))
                mature_exp = gddcum >= c.Maturity
                near = abs(gddcum - c.Maturity) < 1e-6
                if abs(gddcum - gcum) > 1e-6:
                    fail("gdd-cum-mismatch", CL_END, f"t={t}: cumulative degree days {gcum} vs oracle {gddcum}")
                    break
            if mature != mature_exp and not near:
                fail("maturity-day", CL_END, f"t={t} ({date}) dap={dap_exp}: crop_mature={mature} expected {mature_exp} "
                     f"(Maturity={c.Maturity}, calendar type {caltype_cfg})")
                break
            harvest_reached = (date + dt.timedelta(days=1) == harvest[season])
            end_exp = mature or dead or harvest_reached
            if extra_day:
                pass
            elif hflag != end_exp:
                fail("season-end-flag", CL_END, f"t={t} ({date}): harvest_flag={hflag} but mature={mature} dead={dead} "
                     f"day-before-harvest-date={harvest_reached}")
                break
            if hflag and not extra_day:
                ended = True
                why = "maturity" if mature else ("death" if dead else "harvest-date")
                season_end[season] = (t, why, dap_exp)
                if why == "harvest-date" and hmd is None:
                    # no harvest date was configured by the user: the derived one cut the season
                    if caltype_cfg == 1:
                        pass  # reported once by the schedule clause derived-harvest-before-maturity
                    else:
                        fail("derived-harvest-date-cuts-thermal-season|harvest=None",
                             CL_END, f"season {season} ended at t={t} ({date}, dap {dap_exp}) on a harvest date the user never configured "
                             f"(derived from the first season's calendar length +30 d: {crop.harvest_date}); gdd_cum={gddcum:.1f} < Maturity={c.Maturity}")
                        break
        else:
            if hflag and not ended and season >= 0:
                # flag raised outside the growing season (e.g. planting..harvest window over)
                ended = True
        # ---- expected continuation
        last_step = (t + 1 >= n - 1)
        fin_exp = last_step or (ended and season == nseas - 1)
        if fin != fin_exp:
            fail("termination-test", CL_TERM, f"t={t} ({date}): model_is_finished={fin} expected {fin_exp} (n_steps={n}, season {season}/{nseas}, ended={ended})")
            break
        if fin_exp:
            finished_exp = True
            continue
        if ended and not off:
            # jump
            season += 1
            t_exp = (planting[season] - start).days
            ended = False
            gddcum = 0.0
        else:
            t_exp = t + 1
            nd = date + dt.timedelta(days=1)
            if season < nseas - 1 and nd == planting[season + 1]:
                season += 1
                ended = False
                gddcum = 0.0
    else:
        if not finished_exp:
            fail("stopped-before-expected-termination", CL_TERM, f"run stopped after t={visited[-1] if visited else None}; expected to continue to t={t_exp}")
    hard = [f for f in res["fails"] if "in-season-day-after-harvest-flag" not in f["signature"]
            and not f["signature"].startswith("schedule|derived-harvest")]
    if not hard:
        # rows of days never simulated are untouched (zeros); no row written twice is implied by rec order
        mask = np.ones(n, dtype=bool)
        mask[visited] = False
        if mask.any():
            if np.any(wf[mask] != 0) or np.any(cg[mask] != 0) or np.any(wsr[mask] != 0):
                tt = int(np.where(mask & ((wf != 0).any(axis=1) | (cg != 0).any(axis=1) | (wsr != 0).any(axis=1)))[0][0])
                fail("row-written-for-unsimulated-day", CL_ROW, f"row {tt} is non-zero but day {tt} was never simulated")
        # final_stats: one row per ended season, step = day the season ended
        fs = model._outputs.final_stats
        for k, (te, why, dp) in season_end.items():
            if k not in fs.index:
                fail("final-stats-row-missing", CL_END, f"season {k} ended at t={te} ({why}) but final_stats has no row {k}")
                break
            if int(fs.loc[k, "Harvest Date (Step)"]) != te or to_date(fs.loc[k, "Harvest Date (YYYY/MM/DD)"]) != start + dt.timedelta(days=te + 1):
                fail("final-stats-harvest-step", CL_ROW, f"season {k}: final_stats step {fs.loc[k, 'Harvest Date (Step)']} date "
                     f"{fs.loc[k, 'Harvest Date (YYYY/MM/DD)']} expected step {te}")
                break
    res["nontrivial"] = in_season_days > 0
    res["summary"] = {"start": s_start, "end": s_end, "days_simulated": len(visited), "in_season_days": in_season_days,
                      "n_seasons": nseas, "season_ends": {str(k): [v[0], v[1], v[2]] for k, v in season_end.items()}}
    return res


# ----------------------------------------------------------------------------- driver
def work(args):
    chunk, seed = args
    out = []
    for case in chunk:
        try:
            if case[0] == "S":
                out.append(run_schedule_case(case, seed))
            else:
                out.append(run_run_case(case, seed))
        except Exception as exc:  # noqa: BLE001  (harness-level)
            out.append({"case": repr(case), "kind": case[0], "nontrivial": False, "fails": [], "obs": {}, "rejected": False,
                        "harness": f"{type(exc).__name__}: {exc} @ {traceback.format_exc(limit=3)[-400:]}"})
    return out


def build_cases(tier, seed):
    rng = random.Random(seed)
    S_all = []
    for pmd in PLANT_DAYS:
        pm, pd_ = md_of(pmd)
        P = dt.date(BASE_YEAR, pm, pd_)
        for o in OFFSETS:
            st = P + dt.timedelta(days=o)
            for wl in WINLEN:
                en = st + dt.timedelta(days=wl)
                for L in CROPLEN:
                    for hm in HMODE:
                        for off in OFFS:
                            S_all.append(("S", fmt(st), fmt(en), pmd, L, hm, off))
    R_all = []
    for c in R_CROPS:
        for pmd in PLANT_DAYS:
            for o in R_OFFSETS:
                for wl in R_WINLEN:
                    for off in OFFS:
                        for hm in R_HMODE:
                            R_all.append(("R", c, pmd, o, wl, off, hm))
    nS_all, nR_all = len(S_all), len(R_all)
    if tier == "quick":
        S = rng.sample(S_all, 3000)
        R = rng.sample(R_all, 150)
    else:
        S = S_all
        R = rng.sample(R_all, 3000)
    R = [r + (rng.choice(R_STEP),) for r in R]
    extra = [("S",) + e for e in EXTRA_S]
    S = extra + S
    lattice = (
        f"BOUNDED (not proved). Schedule lattice S: first planting date P=planting day in {BASE_YEAR}; start = P+offset, offset in -40..+40 d by 1 d (81) x "
        f"window length in {WINLEN} d (14) x planting day in {PLANT_DAYS} (7) x calendar crop length MaturityCD in {CROPLEN} d (4; Tomato with MaturityCD overridden) x "
        f"harvest_date in {{None, explicit = planting+length+10 d}} (2) x off_season in {{False, True}} (2) = {nS_all} points"
        + (", all enumerated" if tier != "quick" else f", seeded uniform sample of {len(S) - len(extra)} (random.Random(seed).sample)")
        + f"; plus {len(extra)} hand-placed leap-day / New-Year windows (always run). Each point = one call chain read_clock_parameters -> read_weather_inputs -> "
        f"read_model_parameters (-> compute_crop_calendar when harvest_date is None) on SandyLoam with seeded synthetic weather {WX_Y0}-{WX_Y1}. "
        f"Whole-run lattice R: crop in {R_CROPS} (14; 7 calendar-day, 7 thermal-time) x planting day (7, as above) x start offset in {R_OFFSETS} d (5) x window length in {R_WINLEN} d (7) x "
        f"off_season (2) x harvest_date in {{None, late = planting+MaturityCD+20 d (capped 360), early = planting+60 d}} (3) = {nR_all} points; seeded uniform sample of {len(R)} of them, "
        f"each run with a seeded choice of stepping history in {{till_termination, chunks of 1, 7, 400 steps}}; SandyLoam, IWC FC, rainfed, no groundwater. "
        f"Oracle: independent datetime.date model of the expected day sequence (schedule, dap, maturity in calendar days or by an independent re-statement of GDD methods 1-3, jump/no-skip, terminal day); "
        f"crop death is taken from the model's own crop_dead flag (observed before update_time).")
    return S, R, lattice


def switchgdd_cases():
    import numpy as np
    from aquacrop import AquaCropModel, Soil, Crop, InitialWaterContent
    from aquacrop.utils import prepare_weather, get_filepath
    out = []
    for cname, pmd, wxf, s_start, s_end in (("Maize", "05/01", "champion_climate.txt", "1982/05/01", "1983/12/31"),
                                            ("Wheat", "10/15", "tunis_climate.txt", "1979/10/15", "1981/09/30")):
        W = prepare_weather(get_filepath(wxf))
        for off in (False, True):
            case = f"R2|{cname}+SwitchGDD|plant={pmd}|{s_start}..{s_end}|off={int(off)}"
            res = {"case": case, "kind": "R", "nontrivial": False, "fails": [], "obs": {}, "rejected": False}
            repro = (f"m=AquaCropModel('{s_start}','{s_end}', prepare_weather(get_filepath('{wxf}')), Soil('SandyLoam'), Crop('{cname}', planting_date='{pmd}', "
                     f"harvest_date='{'10/30' if cname == 'Maize' else '07/15'}', SwitchGDD=1), InitialWaterContent(value=['FC']), off_season={off}); m.run_model(till_termination=True)")
            try:
                m = AquaCropModel(s_start, s_end, W, Soil("SandyLoam"), Crop(cname, planting_date=pmd, harvest_date=("10/30" if cname == "Maize" else "07/15"), SwitchGDD=1),
                                  InitialWaterContent(value=["FC"]), off_season=off)
                m.run_model(till_termination=True)
            except Exception as exc:  # documented rejections and known findings of the conversion are not this clause's business
                res["rejected"] = True
                res["obs"]["exception"] = f"{type(exc).__name__}: {str(exc)[:100]}"
                out.append(res)
                continue
            cg = m._outputs.crop_growth
            seasons = np.asarray(cg["season_counter"], dtype=float)
            dap = np.asarray(cg["dap"], dtype=float)
            res["nontrivial"] = True
            for k in sorted(set(int(x) for x in seasons if x == x and x >= 0)):
                d = dap[seasons == k]
                grow = d[d > 0]
                first_zero_after = np.argmax(d == 0) if (d == 0).any() else len(d)
                if len(grow) and (list(grow) != list(range(1, len(grow) + 1)) or (d[first_zero_after:] > 0).any()):
                    res["fails"].append({"signature": "run|converted-crop|growing-days-not-contiguous", "clause": "within a season the growing days are numbered 1, 2, 3, ... without a gap",
                                         "detail": f"season {k}: dap sequence starts {list(d[:8])} in {case}", "repro": repro, "case": case})
                elif len(grow) < 60:
                    res["fails"].append({"signature": "run|converted-crop|season-shorter-than-60-growing-days", "clause": "a well-watered season of a converted crop lasts until maturity / the harvest date",
                                         "detail": f"season {k}: only {len(grow)} growing day(s) (dap sequence starts {list(d[:6])}) in {case}", "repro": repro, "case": case})
            out.append(res)
    return out


def main():
    ap = argparse.ArgumentParser()
    ap.add_argument("--tier", choices=["quick", "thorough"], default="quick")
    ap.add_argument("--seed", type=int, default=0)
    ap.add_argument("--out", required=True)
    a = ap.parse_args()
    t0 = time.time()
    exceptions = []
    results = []
    lattice = ""
    try:
        import multiprocessing as mp
        S, R, lattice = build_cases(a.tier, a.seed)
        chunks = []
        cs = 60
        for i in range(0, len(S), cs):
            chunks.append((S[i:i + cs], a.seed))
        # runs first in the queue (longer), interleaved
        rch = [([r], a.seed) for r in R]
        jobs = rch + chunks
        ctx = mp.get_context("fork")
        with ctx.Pool(NPROC) as pool:
            for out in pool.imap_unordered(work, jobs, chunksize=1):
                results.extend(out)
    except Exception as exc:  # noqa: BLE001
        exceptions.append(f"driver: {type(exc).__name__}: {exc} {traceback.format_exc(limit=4)[-600:]}")

    # ---- converted crops (calendar-day parameters converted to thermal time at initialisation, SwitchGDD=1): the independent oracle above
    # does not model the conversion, so only the shape of a season is checked: its growing days are numbered 1, 2, 3, ... without gaps, and on
    # well-watered SandyLoam under the real weather files a season lasts at least 60 days when the window allows it
    try:
        results.extend(switchgdd_cases())
    except Exception as exc:  # noqa: BLE001
        exceptions.append(f"switchgdd cases: {type(exc).__name__}: {exc} {traceback.format_exc(limit=4)[-400:]}")

    results.sort(key=lambda r: r["case"])
    fails_by_sig = {}
    obs_unsched = []
    rejected = 0
    for r in results:
        if r.get("harness"):
            exceptions.append(f"{r['case']}: {r['harness']}")
        if r.get("rejected"):
            rejected += 1
        if r.get("obs", {}).get("unscheduled_planting_in_window"):
            obs_unsched.append(r["case"])
        for f in r["fails"]:
            fails_by_sig.setdefault(f["signature"], []).append(f)
    failures = []
    for sig in sorted(fails_by_sig):
        fl = sorted(fails_by_sig[sig], key=lambda f: f["case"])
        f0 = fl[0]
        failures.append({"signature": sig, "clause": f0["clause"],
                         "detail": f"{len(fl)} case(s) with this mechanism; first: {f0['detail']}"
                                   + (f"; others e.g. {[x['case'] for x in fl[1:4]]}" if len(fl) > 1 else ""),
                         "repro": f0["repro"]})
    nontrivial = len({r["case"] for r in results if r.get("nontrivial")})
    samples = []
    for kind in ("S", "R"):
        ok = [r for r in results if r["kind"] == kind and r.get("summary")]
        step = max(1, len(ok) // 3)
        for r in ok[::step][:3]:
            samples.append({"case": r["case"], **r["summary"]})
    if obs_unsched:
        samples.append({"observation": "not a failure of C07 as worded: a planting date inside [start,end) after the last scheduled season is not "
                                       "scheduled (New-Year-spanning seasons drop the planting date of the end year)",
                        "count": len(obs_unsched), "first": obs_unsched[0]})
    out = {
        "property": PROP, "tier": a.tier, "seed": a.seed, "lattice": lattice,
        "cases": len(results), "distinct_nontrivial": nontrivial,
        "rule": ("a case counts as non-trivial if at least one calendar clause beyond 'no exception' was evaluated on it or it raised an undocumented exception: "
                 "schedule cases that returned a schedule (or raised), run cases that simulated at least one in-season day; "
                 f"documented rejections (too few GDD / more than a year to maturity asserts): {rejected}, counted as trivial"),
        "failures": failures, "samples": samples[:8], "wall_s": round(time.time() - t0, 2), "exceptions": exceptions[:50],
    }
    with open(a.out, "w") as fh:
        json.dump(out, fh, indent=1, default=str)
    return 0


if __name__ == "__main__":
    try:
        sys.exit(main())
    except SystemExit:
        raise
    except BaseException:  # noqa: BLE001
        traceback.print_exc()
        sys.exit(4)
