#!/venv/bin/python
"""
E3 bounded check for C08 - seasons are independent when the off-season is not simulated.

    /venv/bin/python /verif/e3/c08_seasons.py --tier quick|thorough --seed N --out x.json

BOUNDED, NOT A PROOF.  For every enumerated configuration a 3-season run M (off_season=False,
window [P0, P0 + 3 years - 1 day], P0 = first planting date) is compared with fresh runs F_k,
k in {1, 2} (0-based season index), built from *the same inputs* (fresh but identical Soil, Crop,
InitialWaterContent, IrrigationManagement incl. the complete multi-year schedule, FieldMngt,
GroundWater objects, the same weather frame, off_season=False) whose window is
[P_k, P_k + 1 year - 1 day], i.e. a single-season run started on season k's planting date.

Comparison (stated exactly):
  * t_k = index of P_k in M's time span; L = number of rows of F_k's daily tables (= number of days
    from P_k up to the day before P_{k+1}, or up to M's last day for the last season).
  * rows t_k .. t_k+L-1 of M's water_flux, water_storage and crop_growth tables are compared with rows
    0 .. L-1 of F_k's, ALL L rows (the rows after the harvest, which neither run simulates, must be
    all-zero in both).
  * every column is compared bit for bit (IEEE-754 pattern), except
      - column time_step_counter: on the rows M simulated in season k (t_k .. harvest step of season k)
        M's value minus t_k must equal F_k's value; on the other rows both must be 0;
      - column season_counter (water_flux, crop_growth): on those rows M's value must be k and F_k's 0.
  * summary: M's final_stats row with Season == k against F_k's only row: 'Season' k vs 0,
    'Harvest Date (Step)' M - t_k == F_k, 'Harvest Date (YYYY/MM/DD)' equal, crop type equal, dry / fresh /
    potential yield and seasonal irrigation bit for bit.  F_k must have exactly one summary row and
    exactly one scheduled season.
"""
import argparse
import copy
import json
import os
import random
import sys
import time
import traceback
import warnings
from multiprocessing import Pool

warnings.filterwarnings("ignore")
sys.path.insert(0, os.path.dirname(os.path.abspath(__file__)))

import numpy as np
import pandas as pd

import water_monitors as wm

CROPS = [("Wheat", "10/15"), ("Maize", "05/01"), ("Potato", "04/01"), ("Tomato", "05/01"),
         ("MaizeGDD", "05/01"), ("WheatGDD", "10/15"), ("AlfalfaGDD", "04/01")]
SOILS = ["SandyLoam", "Clay", "lowKsub"]
STRATS = [
    ("rainfed", {"method": 0}, "FC"),
    ("smt", {"method": 1, "SMT": [80, 70, 60, 50]}, ("Pct", 50)),   # 50 % TAW: the threshold is exceeded on day 1
    ("interval", {"method": 2, "IrrInterval": 7}, "FC"),
    ("schedule", {"method": 3, "schedule": "rel", "MaxIrr": 30}, "FC"),
    ("net", {"method": 4, "NetIrrSMT": 80}, "WP"),          # initial water at WP: pre-irrigation fires
    ("constdepth", {"method": 5, "depth": 3.0}, "FC"),
]
GWS = [("gw=off", None), ("gw=on", 1.5), ("gw=step", "step")]   # step: the table depth changes between the seasons (1.5 m, then 3.0 m from the second planting date)
TABLES = {
    "water_flux": "time_step_counter season_counter dap Wr z_gw surface_storage IrrDay Infl Runoff DeepPerc CR GwIn "
                  "Es EsPot Tr TrPot".split(),
    "water_storage": None,
    "crop_growth": "time_step_counter season_counter dap gdd gdd_cum z_root canopy_cover canopy_cover_ns biomass "
                   "biomass_ns harvest_index harvest_index_adj DryYield FreshYield YieldPot".split(),
}


PRIORITY = ["water_flux.IrrDay", "crop_growth.gdd", "crop_growth.gdd_cum", "crop_growth.z_root",
            "crop_growth.canopy_cover", "crop_growth.canopy_cover_ns", "water_flux.z_gw", "water_flux.surface_storage",
            "water_flux.CR", "water_flux.GwIn", "water_flux.Infl", "water_flux.Runoff", "water_flux.DeepPerc",
            "water_flux.EsPot", "water_flux.Es", "water_flux.TrPot", "water_flux.Tr", "crop_growth.harvest_index",
            "crop_growth.biomass", "water_flux.Wr"]


def calclass(crop):
    if crop == "AlfalfaGDD":
        return "AlfalfaGDD"
    return "GDD" if wm.crop_params[crop].get("CalendarType") == 2 else "calendar"


def base_cfg(crop, planting, soil_label, strat, gw, wx, year, iwc_override=None):
    sname, irr, iwc = strat
    irr = copy.deepcopy(irr)
    p0 = pd.Timestamp("%d/%s" % (year, planting))
    end = pd.Timestamp("%d/%s" % (year + 3, planting)) - pd.Timedelta(days=1)
    if irr.get("schedule") == "rel":
        irr["schedule"] = wm._schedule(p0, 3, p0, end)
    cfg = {"crop": crop, "planting": planting, "soil_label": soil_label, "soil": wm.soil_spec(soil_label),
           "irr": irr, "strategy": sname, "field": None, "fallow": None,
           "gw": None if gw[1] is None else (
               {"label": "step1.5-3", "method": "Constant", "dates": [p0.strftime("%Y/%m/%d"), (p0 + pd.DateOffset(years=1)).strftime("%Y/%m/%d")], "values": [1.5, 3.0]}
               if gw[1] == "step" else
               {"label": "const%g" % gw[1], "method": "Constant", "dates": [p0.strftime("%Y/%m/%d")], "values": [gw[1]]}),
           "iwc": iwc_override if iwc_override is not None else iwc, "wx": wx,
           "start": p0.strftime("%Y/%m/%d"), "end": end.strftime("%Y/%m/%d"), "off_season": False}
    return cfg


def bits(a):
    return np.ascontiguousarray(np.asarray(a, dtype=np.float64)).view(np.int64)


def compare_season(M, F, k):
    """returns (diffs, info). diffs: list of (rowindex_in_season, table, column, M value, F value)"""
    csM, csF = M._clock_struct, F._clock_struct
    info = {}
    if csF.n_seasons != 1:
        raise RuntimeError("fresh run scheduled %d seasons, expected 1" % csF.n_seasons)
    pk = csM.planting_dates[k]
    if csF.planting_dates[0] != pk or csF.time_span[0] != pk:
        raise RuntimeError("fresh run does not start on season k's planting date")
    tk = int(csM.time_span.get_loc(pk))
    fsM, fsF = M._outputs.final_stats, F._outputs.final_stats
    rowM = fsM[fsM["Season"] == k]
    diffs = []
    if len(rowM) != 1 or len(fsF) != 1:
        diffs.append((0, "final_stats", "rowcount", len(rowM), len(fsF)))
        return diffs, info
    rowM = rowM.iloc[0]
    rowF = fsF.iloc[0]
    hM = int(rowM["Harvest Date (Step)"])
    info["harvest_date_multi"] = str(csM.harvest_dates[k].date())
    info["harvest_date_fresh"] = str(csF.harvest_dates[0].date())
    info["in_season_days_multi"] = hM - tk + 1
    info["in_season_days_fresh"] = int(rowF["Harvest Date (Step)"]) + 1
    L = len(csF.time_span)
    for nm in ("water_flux", "water_storage", "crop_growth"):
        A = np.array(wm.table(getattr(M._outputs, nm)), dtype=np.float64)[tk:tk + L].copy()
        B = np.array(wm.table(getattr(F._outputs, nm)), dtype=np.float64)[:L]
        if A.shape != B.shape:
            diffs.append((0, nm, "shape", A.shape, B.shape))
            continue
        sim = np.arange(L) <= (hM - tk)
        A[:, 0] = np.where(sim, A[:, 0] - tk, A[:, 0])
        if nm != "water_storage":
            A[:, 1] = np.where(sim, A[:, 1] - k, A[:, 1])
        neq = bits(A) != bits(B)
        if neq.any():
            names = TABLES[nm] or (["time_step_counter", "growing_season", "dap"] +
                                   ["th%d" % i for i in range(1, A.shape[1] - 2)])
            for r, c in np.argwhere(neq):
                diffs.append((int(r), nm, names[c], float(A[r, c]), float(B[r, c])))
    # summary row
    for col in ("crop Type", "Harvest Date (YYYY/MM/DD)"):
        if rowM[col] != rowF[col]:
            diffs.append((hM - tk, "final_stats", col, str(rowM[col]), str(rowF[col])))
    if int(rowF["Season"]) != 0:
        diffs.append((hM - tk, "final_stats", "Season", int(rowM["Season"]), int(rowF["Season"])))
    if int(rowM["Harvest Date (Step)"]) - tk != int(rowF["Harvest Date (Step)"]):
        diffs.append((hM - tk, "final_stats", "Harvest Date (Step)", int(rowM["Harvest Date (Step)"]) - tk,
                      int(rowF["Harvest Date (Step)"])))
    for col in ("Dry yield (tonne/ha)", "Fresh yield (tonne/ha)", "Yield potential (tonne/ha)",
                "Seasonal irrigation (mm)"):
        if bits([float(rowM[col])])[0] != bits([float(rowF[col])])[0]:
            diffs.append((10 ** 6, "final_stats", col, float(rowM[col]), float(rowF[col])))
    return diffs, info


def run_case(cfg):
    out = {"cfg": cfg, "cases": [], "model_exception": None, "harness_exception": None}
    try:
        M = wm.build_model(cfg)
        M.run_model(till_termination=True)
    except Exception as e:
        out["model_exception"] = "multi-season run: %s: %s" % (type(e).__name__, str(e)[:200])
        return out
    try:
        if M._clock_struct.n_seasons != 3:
            raise RuntimeError("multi-season run scheduled %d seasons, expected 3" % M._clock_struct.n_seasons)
        for k in (1, 2):
            pk = M._clock_struct.planting_dates[k]
            c2 = copy.deepcopy(cfg)
            c2["start"] = pk.strftime("%Y/%m/%d")
            c2["end"] = (pd.Timestamp("%d/%02d/%02d" % (pk.year + 1, pk.month, pk.day)) - pd.Timedelta(days=1)
                         ).strftime("%Y/%m/%d")
            case = {"k": k, "fresh_window": [c2["start"], c2["end"]], "ndiff": 0, "first": None, "info": {},
                    "model_exception": None}
            try:
                F = wm.build_model(c2)
                F.run_model(till_termination=True)
            except Exception as e:
                case["model_exception"] = "fresh run k=%d: %s: %s" % (k, type(e).__name__, str(e)[:200])
                out["cases"].append(case)
                continue
            diffs, info = compare_season(M, F, k)
            case["info"] = info
            case["ndiff"] = len(diffs)
            if diffs:
                diffs.sort(key=lambda d: (d[0], d[1], d[2]))
                r0 = diffs[0][0]
                firstcols = ["%s.%s" % (d[1], d[2]) for d in diffs if d[0] == r0]
                # the most telling column of the first differing day (fixed priority, then alphabetical)
                pref = sorted(firstcols, key=lambda c: (PRIORITY.index(c) if c in PRIORITY else len(PRIORITY),
                                                        c.startswith("water_storage.th"), c))
                allcols = sorted(set("%s.%s" % (d[1], d[2]) for d in diffs))
                case["first"] = {"row": r0, "cols": firstcols[:12], "lead": pref[0],
                                 "M": diffs[0][3], "F": diffs[0][4], "ncols_total": len(allcols),
                                 "summary": [(d[2], d[3], d[4]) for d in diffs if d[1] == "final_stats"][:6]}
            out["cases"].append(case)
    except Exception as e:
        out["harness_exception"] = "%s: %s | %s" % (type(e).__name__, str(e)[:300], traceback.format_exc()[-600:])
    return out


def lattice(tier, seed):
    rng = random.Random(int(seed) * 7919 + 13)
    cfgs = []
    wxs_quick = [{"kind": "tunis"}]
    wxs_thor = [{"kind": "tunis"}, {"kind": "champion"}, {"kind": "syn", "pattern": "mixed", "seed": int(seed)}]
    if tier == "quick":
        crops = [c for c in CROPS if c[0] not in ("WheatGDD", "Tomato")]
        for ic, (crop, pl) in enumerate(crops):
            for isoil, soil in enumerate(SOILS):
                for ist, st in enumerate(STRATS):
                    for ig, gw in enumerate(GWS):
                        if (ic + isoil + ist + ig) % 2 != int(seed) % 2:
                            continue       # half fraction of the full product, parity chosen by the seed
                        wx = wxs_quick[0]
                        year = 1980 + rng.randint(0, 15)
                        cfgs.append(base_cfg(crop, pl, soil, st, gw, wx, year))
        desc = ("half fraction (index-parity = seed parity) of crops(5: Wheat, Maize, Potato, MaizeGDD, AlfalfaGDD) x "
                "soils(3: SandyLoam, Clay, custom layered lowKsub) x strategies(6: rainfed, SMT 80/70/60/50 with initial water at 50% TAW, "
                "7-day interval, schedule, net irrigation 80% with initial water at WP, constant 3 mm/d; initial water FC otherwise) x "
                "groundwater(off, constant 1.5 m, 1.5 m then 3.0 m from the second planting date), Tunis weather, seeded start year 1980-1995, 3 seasons")
    else:
        for (crop, pl) in CROPS:
            for soil in SOILS:
                for st in STRATS:
                    for gw in GWS:
                        for iw, wx in enumerate(wxs_thor):
                            kind = wx["kind"]
                            y0 = wm.WX_FIRST_YEAR[kind] + 1
                            y1 = wm.WX_LAST_FULL_YEAR[kind] - 4
                            year = rng.randint(y0, y1)
                            iwc = None
                            if iw == 2 and st[0] != "net":
                                iwc = ("Pct", 50)
                            cfgs.append(base_cfg(crop, pl, soil, st, gw, wx, year, iwc))
        desc = ("full product crops(7: Wheat, Maize, Potato, Tomato, MaizeGDD, WheatGDD, AlfalfaGDD) x soils(3) x strategies(6) x "
                "groundwater(off, constant 1.5 m, stepping 1.5 -> 3.0 m) x weather(3: Tunis, Champion, synthetic mixed [with 50% TAW initial water "
                "except net irrigation at WP]), seeded start years, 3 seasons; initial water FC except SMT (50% TAW) and net "
                "irrigation (WP)")
    # thermal-time crops sown so that flowering falls into the hottest weeks of the record (pollination heat stress reads the raw daily maxima,
    # which the thermal-calendar code clips for its own purposes): every start year, rainfed, no table
    hot = [("WheatGDD", "04/15"), ("MaizeGDD", "05/15")]
    years = range(1980, 1996, 3 if tier == "quick" else 1)
    for crop, pl in hot:
        for year in years:
            cfgs.append(base_cfg(crop, pl, "SandyLoam", STRATS[0], GWS[0], wxs_quick[0], year))
    desc += "; plus thermal-time crops flowering in the hottest weeks (WheatGDD sown 04/15, MaizeGDD sown 05/15, Tunis, start years 1980-1995%s)" % (" step 3" if tier == "quick" else "")
    for i, c in enumerate(cfgs):
        c["idx"] = i
    return cfgs, desc


def slim(cfg):
    return {k: v for k, v in cfg.items() if k != "idx"}


def main():
    ap = argparse.ArgumentParser()
    ap.add_argument("--tier", default="quick", choices=["quick", "thorough"])
    ap.add_argument("--seed", type=int, default=0)
    ap.add_argument("--out", required=True)
    ap.add_argument("--procs", type=int, default=16)
    a = ap.parse_args()
    t0 = time.time()
    out = {"property": "C08", "tier": a.tier, "seed": a.seed, "lattice": "", "cases": 0, "distinct_nontrivial": 0,
           "rule": "a (configuration, k) pair counts when both runs completed, season k has a summary row in both and at "
                   "least 30 in-season days were compared",
           "failures": [], "samples": [], "wall_s": 0.0, "exceptions": [], "model_raised": []}
    try:
        cfgs, desc = lattice(a.tier, a.seed)
        with Pool(a.procs) as pool:
            results = pool.map(run_case, cfgs, chunksize=1)
        sigs = {}
        nontriv = set()
        for r in results:
            cfg = r["cfg"]
            if r["harness_exception"]:
                out["exceptions"].append("cfg %d: %s" % (cfg["idx"], r["harness_exception"]))
            if r["model_exception"]:
                out["model_raised"].append("cfg %d %s|%s|%s: %s" % (cfg["idx"], cfg["crop"], cfg["soil_label"],
                                                                 cfg["strategy"], r["model_exception"]))
            for case in r["cases"]:
                if case["model_exception"]:
                    out["model_raised"].append("cfg %d %s|%s|%s: %s" % (cfg["idx"], cfg["crop"], cfg["soil_label"],
                                                                     cfg["strategy"], case["model_exception"]))
                    continue
                out["cases"] += 1
                if case["info"].get("in_season_days_multi", 0) >= 30:
                    nontriv.add((cfg["idx"], case["k"]))
                if case["ndiff"]:
                    f = case["first"]
                    # the scheduled (latest) harvest date is derived from season 0's weather in the multi-season run
                    # and from season k's in the fresh run; only named in the signature when the runs agree on every
                    # day before the earlier of the two harvests
                    hd = (case["info"].get("harvest_date_multi") != case["info"].get("harvest_date_fresh")) and \
                        f["row"] >= min(case["info"].get("in_season_days_multi", 0),
                                        case["info"].get("in_season_days_fresh", 0)) - 1
                    when = "day1" if f["row"] == 0 else ("summary-only" if f["row"] >= 10 ** 6 else "later")
                    if hd:
                        sig = "%s|scheduled-harvest-date-differs(latest harvest date derived from season-0 weather)" % \
                              calclass(cfg["crop"])
                    else:
                        sig = "%s|irr=%d%s%s|first=%s@%s" % (
                            calclass(cfg["crop"]), cfg["irr"]["method"],
                            "|iwc=" + wm.iwc_label(cfg["iwc"]) if cfg["irr"]["method"] == 4 else "",
                            "|gw=table-depth-changes-between-seasons" if (cfg["gw"] and len(cfg["gw"]["values"]) > 1) else "", f["lead"], when)
                    e = sigs.get(sig)
                    rec = {"cfg": cfg, "case": case}
                    if e is None:
                        sigs[sig] = {"n": 1, "rec": rec, "who": ["%s|%s|%s|k=%d" % (cfg["crop"], cfg["soil_label"],
                                                                                    "gw" if cfg["gw"] else "nogw", case["k"])]}
                    else:
                        e["n"] += 1
                        if len(e["who"]) < 6:
                            e["who"].append("%s|%s|%s|k=%d" % (cfg["crop"], cfg["soil_label"],
                                                               "gw" if cfg["gw"] else "nogw", case["k"]))
        for sig in sorted(sigs):
            e = sigs[sig]
            cfg, case = e["rec"]["cfg"], e["rec"]["case"]
            f = case["first"]
            out["failures"].append({
                "signature": sig,
                "clause": "daily outputs and summary row of season k of a multi-season run are identical to those of a "
                          "single-season run started on that season's planting date with the same inputs",
                "detail": "%d (configuration,k) pair(s), e.g. %s. First: %s %s gw=%s k=%d: first differing day = day %d of the "
                          "season, columns %s; %s: multi=%r fresh=%r; %d differing cells in %d columns; summary diffs %s; "
                          "harvest dates multi %s / fresh %s"
                          % (e["n"], e["who"], cfg["crop"], cfg["soil_label"], cfg["gw"]["values"] if cfg["gw"] else None,
                             case["k"], f["row"] + 1 if f["row"] < 10 ** 6 else -1, f["cols"], f["lead"], f["M"], f["F"],
                             case["ndiff"], f["ncols_total"], f["summary"], case["info"].get("harvest_date_multi"),
                             case["info"].get("harvest_date_fresh")),
                "repro": "import sys; sys.path.insert(0,'/verif/e3'); import c08_seasons as c; r=c.run_case(%r); "
                         "print([(x['k'], x['ndiff'], x['first']) for x in r['cases']])" % (slim(cfg),)})
        out["distinct_nontrivial"] = len(nontriv)
        out["lattice"] = ("BOUNDED (not a proof). %d configurations x k in {1,2} = %d comparisons: %s. Comparison rule in the "
                          "module docstring (all rows of the season's window, bitwise, step/season index columns offset)."
                          % (len(cfgs), 2 * len(cfgs), desc))
        if out["model_raised"]:
            out["lattice"] += " %d run(s) were rejected by the model itself (key 'model_raised')." % len(out["model_raised"])
        out["samples"] = [slim(c) for c in (cfgs[:3] + cfgs[len(cfgs) // 2:len(cfgs) // 2 + 2] + cfgs[-2:])]
    except Exception as e:
        out["exceptions"].append("harness crash: %s: %s | %s" % (type(e).__name__, e, traceback.format_exc()[-800:]))
    out["wall_s"] = round(time.time() - t0, 2)
    with open(a.out, "w") as fh:
        json.dump(out, fh, indent=1, default=str)
    return 0


if __name__ == "__main__":
    sys.exit(main())
