#!/venv/bin/python
"""E3 bounded check for property C11 -- inputs are not consumed by a run.

BOUNDED, NOT PROVED.  For every configuration of an explicitly enumerated lattice
(crop entries x irrigation strategies, auxiliary options rotated by --seed) the harness

  1. builds the input objects O = {soil, crop, weather_df, initial_water_content,
     irrigation_management, field_management, fallow_field_management, groundwater,
     co2_concentration} with the public constructors and takes a deep-copy SNAPSHOT S0;
  2. builds model M on O, runs it till termination                       -> R1 (reference)
     (thorough tier: R1 is also checked against a run on a second set of fresh objects; a
     mismatch there is C10 territory and is reported under 'exceptions')
  3. M.run_model(till_termination=True, initialize_model=True) again     -> R2   clause RERUN
  4. a NEW model from the same objects O, run                            -> R3   clause NEWMODEL
  5. another NEW model from the same objects O, run (3rd/4th use)        -> R4   clause NEWMODEL-k
  6. (subset) CROSS-USE: one used object of O is combined with otherwise fresh objects in a
     DIFFERENT valid configuration V (other crop for the soil, other window for crop /
     irrigation / CO2 / groundwater / field / iwc / weather); result must equal V run on all-fresh
     objects                                                             clause CROSS-USE
  R2, R3, R4 must equal R1 bitwise in all four tables and must not raise.

  The snapshot is compared after step 2 and after step 5; changed attributes are listed in the
  'detail' of every failure of that case and aggregated in samples[0]['attribute_changes'].
  An attribute change alone is NOT counted as a failure (the property is about results and
  exceptions); it becomes one through the behavioural clauses above.

For failing NEWMODEL/RERUN cases the culprit input object is located by substitution (replace
one used object at a time by a fresh one) so that signatures name the mechanism.
"""
import argparse
import copy
import datetime
import json
import os
import sys
import time
import traceback
import warnings

warnings.filterwarnings("ignore")
os.environ.setdefault("OMP_NUM_THREADS", "1")
os.environ.setdefault("OPENBLAS_NUM_THREADS", "1")

PROP = "C11"
TABLES = ("water_flux", "water_storage", "crop_growth", "final_stats")
OBJ_KEYS = ["soil", "crop", "weather_df", "iwc", "irr", "field", "fallow", "gw", "co2"]
CTOR_ARG = {"soil": "soil", "crop": "crop", "weather_df": "weather_df", "iwc": "initial_water_content",
            "irr": "irrigation_management", "field": "field_management", "fallow": "fallow_field_management",
            "gw": "groundwater", "co2": "co2_concentration"}

_W = {}


def weather(key):
    from aquacrop.utils import prepare_weather, get_filepath
    if key not in _W:
        _W[key] = prepare_weather(get_filepath(key + "_climate.txt"))
    return _W[key].copy()


def build_objects(cfg):
    import pandas as pd
    from aquacrop import (Soil, Crop, InitialWaterContent, IrrigationManagement, FieldMngt, GroundWater, CO2)
    o = {}
    o["weather_df"] = weather(cfg["wx"])
    o["soil"] = Soil(cfg["soil"], **cfg.get("soil_kw", {}))
    o["crop"] = Crop(cfg["crop"], planting_date=cfg["plant"], **cfg.get("crop_kw", {}))
    o["iwc"] = InitialWaterContent(**cfg["iwc"]) if cfg.get("iwc") is not None else InitialWaterContent()
    irr = cfg.get("irr") or {"method": 0}
    ikw = dict(irr.get("kw", {}))
    if irr["method"] == 3:
        ikw["Schedule"] = pd.DataFrame({"Date": pd.to_datetime([d for d, _ in irr["sched"]]),
                                        "Depth": [float(x) for _, x in irr["sched"]]})
    o["irr"] = IrrigationManagement(irrigation_method=irr["method"], **ikw)
    o["field"] = FieldMngt(**(cfg.get("field") or {}))
    o["fallow"] = FieldMngt(**(cfg.get("fallow") or {}))
    o["gw"] = GroundWater(**cfg["gw"]) if cfg.get("gw") else GroundWater(dates=[], values=[])
    c = dict(cfg.get("co2") or {})
    if "series" in c:
        ser = c.pop("series")
        c["co2_data"] = pd.DataFrame({"year": [y for y, _ in ser], "ppm": [p for _, p in ser]})
    o["co2"] = CO2(**c)
    return o


def make_model(cfg, o):
    from aquacrop import AquaCropModel
    return AquaCropModel(cfg["start"], cfg["end"], o["weather_df"], o["soil"], o["crop"], o["iwc"],
                         irrigation_management=o["irr"], field_management=o["field"],
                         fallow_field_management=o["fallow"], groundwater=o["gw"],
                         co2_concentration=o["co2"], off_season=bool(cfg.get("off_season")))


def tbytes(x):
    import numpy as np
    import pandas as pd
    if isinstance(x, pd.DataFrame):
        parts = []
        for c in x.columns:
            col = x[c]
            if col.dtype.kind in "fiub":
                parts.append(str(c).encode() + b"|" + np.ascontiguousarray(col.to_numpy(dtype=float)).tobytes())
            else:
                parts.append(str(c).encode() + b"|" + "\x1f".join(str(v) for v in col.tolist()).encode())
        return str(x.shape).encode() + b"#" + b"#".join(parts)
    a = np.ascontiguousarray(np.asarray(x, dtype=float))
    return str(a.shape).encode() + a.tobytes()


def result(model):
    """(bytes per table, float arrays per table) of a finished model."""
    import numpy as np
    o = model._outputs
    b = {t: tbytes(getattr(o, t)) for t in TABLES}
    arr = {t: np.asarray(getattr(getattr(o, t), "values", getattr(o, t)), dtype=float) for t in TABLES[:3]}
    arr["final_stats"] = o.final_stats.select_dtypes("number").to_numpy(dtype=float)
    return b, arr


def run(cfg, o):
    m = make_model(cfg, o)
    m.run_model(till_termination=True)
    return m, result(m)


def compare(ra, rb):
    """None if bitwise equal else a short description."""
    import numpy as np
    if all(ra[0][t] == rb[0][t] for t in TABLES):
        return None
    out = []
    for t in TABLES:
        if ra[0][t] == rb[0][t]:
            continue
        x, y = ra[1][t], rb[1][t]
        if x.shape != y.shape:
            out.append("%s shape %s vs %s" % (t, x.shape, y.shape))
            continue
        neq = ~((x == y) | (np.isnan(x) & np.isnan(y)))
        if neq.any():
            r, c = np.argwhere(neq)[0]
            out.append("%s: %d cells differ, first at row %d col %d: first=%.6g later=%.6g, max|d|=%.3g"
                       % (t, int(neq.sum()), r, c, x[r, c], y[r, c], float(np.nanmax(np.abs(x - y)))))
        else:
            out.append("%s: non-numeric column or bit pattern differs" % t)
    return "; ".join(out)


# ------------------------------------------------------------------ snapshots
def snapshot(o):
    s = {}
    for k in OBJ_KEYS:
        v = o[k]
        s[k] = copy.deepcopy(v if k == "weather_df" else v.__dict__)
    return s


def _val_diff(a, b):
    """'' if same (type and value) else a short description."""
    import numpy as np
    import pandas as pd
    if isinstance(a, pd.DataFrame) or isinstance(b, pd.DataFrame):
        if not (isinstance(a, pd.DataFrame) and isinstance(b, pd.DataFrame)):
            return "type %s -> %s" % (type(a).__name__, type(b).__name__)
        if list(a.columns) != list(b.columns):
            return "columns %s -> %s" % (list(a.columns), list(b.columns))
        if a.shape != b.shape:
            return "shape %s -> %s" % (a.shape, b.shape)
        if not a.index.equals(b.index):
            return "index changed"
        ch = [str(c) for c in a.columns if not (a[c].equals(b[c]) and a[c].dtype == b[c].dtype)]
        return ("values/dtype changed in columns %s" % ch) if ch else ""
    if isinstance(a, pd.Series) or isinstance(b, pd.Series):
        if type(a) is not type(b):
            return "type %s -> %s" % (type(a).__name__, type(b).__name__)
        return "" if a.equals(b) else "series values changed"
    if isinstance(a, np.ndarray) or isinstance(b, np.ndarray):
        if type(a) is not type(b):
            try:
                same = np.array_equal(np.asarray(a, dtype=float), np.asarray(b, dtype=float))
            except Exception:  # noqa
                same = False
            return "type %s -> %s (%s)" % (type(a).__name__, type(b).__name__, "same numbers" if same else "different content")
        if a.shape != b.shape:
            return "shape %s -> %s" % (a.shape, b.shape)
        return "" if (a.dtype == b.dtype and a.tobytes() == b.tobytes()) else "array values changed"
    if type(a) is type(b) and hasattr(a, "__dict__") and not isinstance(a, type):
        sub = []
        for name in sorted(set(a.__dict__) | set(b.__dict__)):
            if name not in a.__dict__ or name not in b.__dict__:
                sub.append(name + " added/removed")
            else:
                d = _val_diff(a.__dict__[name], b.__dict__[name])
                if d:
                    sub.append("%s %s" % (name, d))
        return ("fields changed: " + ", ".join(sub)[:200]) if sub else ""
    if type(a) is not type(b):
        try:
            if a == b:
                return "type %s -> %s (equal value %r)" % (type(a).__name__, type(b).__name__, b)
        except Exception:  # noqa
            pass
        return "%r -> %r" % (a, b) if len(repr(a)) + len(repr(b)) < 80 else "type %s -> %s" % (type(a).__name__, type(b).__name__)
    try:
        if a == b:
            return ""
    except Exception:  # noqa
        return "uncomparable"
    ra, rb = repr(a), repr(b)
    return "%s -> %s" % (ra[:40], rb[:40])


def snap_diff(s0, s1):
    out = []
    for k in OBJ_KEYS:
        a, b = s0[k], s1[k]
        if k == "weather_df":
            d = _val_diff(a, b)
            if d:
                out.append("weather_df: " + d)
            continue
        for name in sorted(set(a) | set(b)):
            if name not in a:
                out.append("%s.%s: attribute added" % (k, name))
            elif name not in b:
                out.append("%s.%s: attribute removed" % (k, name))
            else:
                d = _val_diff(a[name], b[name])
                if d:
                    out.append("%s.%s: %s" % (k, name, d))
    return out


def attr_names(diff):
    return sorted({d.split(":")[0] for d in diff})


# ------------------------------------------------------------------ lattice
CROPS = [  # (crop, planting, weather, kind, note)
    ("Wheat", "10/15", "tunis", "cd", "Zmax 1.5 -> profile deepened 1.2->1.6"),
    ("Maize", "04/15", "champion", "cd", "Zmax 2.3 -> deepened to 2.4"),
    ("Tomato", "04/15", "champion", "cd", "Zmax 1.0 no deepening"),
    ("WheatGDD", "10/15", "tunis", "gdd", "thermal time"),
    ("MaizeChampionGDD", "04/15", "champion", "gdd", "thermal time, Zmax 1.7"),
    ("Potato", "04/15", "tunis", "switch", "SwitchGDD=1 root/tuber"),
    ("Tomato", "04/15", "tunis", "switch", "SwitchGDD=1 fruit/grain"),
    ("Cotton", "04/15", "champion", "cd", "Zmax 2.0"),
    ("Maize", "05/01", "champion", "switchharvest", "SwitchGDD=1 with an explicit latest harvest date (initialisation of the converted crop is not idempotent)"),
    # thorough only below
    ("Potato", "04/15", "tunis", "cd", ""), ("PotatoGDD", "04/15", "tunis", "gdd", ""),
    ("DryBeanGDD", "10/15", "tunis", "gdd", ""), ("Barley", "10/15", "tunis", "switch", "SwitchGDD=1, spans New Year"),
    ("Sorghum", "04/15", "champion", "cd", ""), ("Quinoa", "10/15", "tunis", "cd", ""),
]
IRR = ["0", "1", "2", "3", "4", "5", "1b"]
SOILS = [("SandyLoam", {}), ("Clay", {}), ("Loam", {"dz": [0.15] * 10}), ("ac_TunisLocal", {}), ("Paddy", {}),
         ("SiltClay", {"calc_cn": 1, "adj_rew": 0})]
IWCS = [None, {"value": ["WP"]}, {"wc_type": "Pct", "value": [50]},
        {"wc_type": "Pct", "method": "Depth", "depth_layer": [0.2, 0.9], "value": [30, 80]}, {"value": ["SAT"]}]
FIELDS = [None, {"mulches": True, "mulch_pct": 60, "f_mulch": 0.4}, {"bunds": True, "z_bund": 0.1, "bund_water": 10}]
CO2S = [None, {"constant_conc": True, "current_concentration": 500.0}, {"constant_conc": True},
        {"series": [[1900, 300.0], [1990, 355.0], [2100, 700.0]]}]
GWS = [None, None, "const", "var"]


def irr_cfg(code, y0, plant):
    mm, dd = plant.split("/")
    d0 = datetime.date(y0, int(mm), int(dd))
    if code == "0":
        return {"method": 0}
    if code == "1":
        return {"method": 1, "kw": {"SMT": [70, 60, 50, 40]}}
    if code == "1b":
        return {"method": 1, "kw": {"SMT": [40, 60, 70, 30], "MaxIrr": 15, "AppEff": 80}}
    if code == "2":
        return {"method": 2, "kw": {"IrrInterval": 7}}
    if code == "3":
        return {"method": 3, "sched": [[(d0 + datetime.timedelta(days=k)).isoformat(), dep]
                                       for k, dep in ((10, 20), (30, 25), (55, 30), (80, 25), (375, 20), (400, 30), (440, 25))]}
    if code == "4":
        return {"method": 4, "kw": {"NetIrrSMT": 70}}
    if code == "5":
        return {"method": 5, "kw": {"depth": 4}}
    raise ValueError(code)


def make_cfg(ci, code, rot, rng_year):
    crop, plant, wx, kind, _ = CROPS[ci]
    autumn = plant.startswith("1")
    y0 = rng_year
    cfg = {"crop": crop, "plant": plant, "wx": wx, "kind": kind}
    if kind == "switch":
        cfg["crop_kw"] = {"SwitchGDD": 1}
    if kind == "switchharvest":
        cfg["crop_kw"] = {"SwitchGDD": 1, "harvest_date": "10/30"}
    if autumn:
        cfg["start"], cfg["end"] = "%d/%s" % (y0, plant), "%d/09/30" % (y0 + 2)
    else:
        cfg["start"], cfg["end"] = ("%d/%s" % (y0, plant) if rot % 2 == 0 else "%d/01/01" % y0), "%d/12/30" % (y0 + 1)
    s, skw = SOILS[rot % len(SOILS)]
    cfg["soil"] = s
    if skw:
        cfg["soil_kw"] = skw
    cfg["iwc"] = IWCS[(rot // 2) % len(IWCS)]
    cfg["irr"] = irr_cfg(code, y0, plant)
    cfg["field"] = FIELDS[(rot // 3) % len(FIELDS)]
    cfg["co2"] = CO2S[(rot + ci) % len(CO2S)]
    g = GWS[(rot + 2 * ci) % len(GWS)]
    if g == "const":
        cfg["gw"] = {"water_table": "Y", "dates": [cfg["start"]], "values": [2.5]}
    elif g == "var":
        cfg["gw"] = {"water_table": "Y", "method": "Variable", "dates": [cfg["start"], cfg["end"]], "values": [2.0, 3.5]}
    if rot % 5 == 4:
        cfg["off_season"] = True
    return cfg


def sig(cfg):
    return "%s%s|%s|irr=%s|gw=%s|co2=%s|%s-%s" % (
        cfg["crop"], "+SwitchGDD" if cfg.get("crop_kw") else "", cfg["soil"], cfg["irr"]["method"],
        (cfg["gw"].get("method", "Constant") if cfg.get("gw") else "none"),
        ("none" if not cfg.get("co2") else sorted(cfg["co2"])[0]), cfg["start"], cfg["end"])


def shift_years(cfg, dy):
    v = copy.deepcopy(cfg)
    for k in ("start", "end"):
        y, rest = v[k].split("/", 1)
        v[k] = "%d/%s" % (int(y) + dy, rest)
    if v.get("gw"):
        g = v["gw"]
        g["dates"] = ["%d/%s" % (int(d.split("/", 1)[0]) + dy, d.split("/", 1)[1]) for d in g["dates"]]
    return v


def variant_for(kind, cfg):
    """A different valid configuration V in which the used object `kind` is re-used."""
    if kind in ("soil", "gw"):
        # same window, same everything, but a shallow-rooted calendar-day crop with the same planting day
        v = copy.deepcopy(cfg)
        autumn = cfg["plant"].startswith("1")
        cands = [("Quinoa", "10/15"), ("Barley", "10/15")] if autumn else \
            ([("Tomato", "04/15"), ("Tef", "04/15")] if cfg["wx"] == "champion" else [("Tomato", "04/15"), ("Potato", "04/15")])
        shallow = cands[0] if cfg["crop"] != cands[0][0] else cands[1]
        v["crop"], v["plant"] = shallow
        v.pop("crop_kw", None)
        v["kind"] = "cd"
        return v
    if kind in ("crop", "irr", "co2", "field", "iwc", "weather_df"):
        dy = 3 if kind != "irr" else 1
        v = shift_years(cfg, dy)
        # the re-used object keeps its own dated content (Schedule); V's fresh counterpart is rebuilt by the
        # caller from the ORIGINAL cfg so both carry identical user content
        return v
    raise ValueError(kind)


def cross_tag(k, cfg, changed):
    """short mechanism-level tag for cross-use signatures (no numbers, no attribute lists)."""
    names = {x.split(".", 1)[-1] for x in changed}
    if k == "soil":
        return "profile-deepened" if "zSoil" in names else ("same-depth" + ("+watertable" if cfg.get("gw") else ""))
    if k == "crop":
        return "crop-kind=" + cfg["kind"]
    if k == "co2":
        c = cfg.get("co2") or {}
        return "co2=" + ("default" if not c else ("series" if "series" in c else
                                                  ("constant-user-value" if c.get("current_concentration") else "constant-from-data")))
    if k == "irr":
        return "method=%s" % cfg["irr"]["method"]
    if k == "gw":
        return "gw=" + (cfg["gw"].get("method", "Constant") if cfg.get("gw") else "none")
    return "-"


def culprits(cfg, used, ref):
    """keys whose replacement (alone) by a fresh object makes a new model on the used objects reproduce ref."""
    cured = []
    for k in OBJ_KEYS:
        try:
            o = dict(used)
            o[k] = build_objects(cfg)[k]
            _, r = run(cfg, o)
            if compare(ref, r) is None:
                cured.append(k)
        except BaseException:  # noqa
            pass
    return cured


def run_case(job):
    cfg, do_cross = job["cfg"], job["cross"]
    out = {"sig": sig(cfg), "failures": [], "attr": [], "nontrivial": False, "harness": [], "cross_done": []}
    s = out["sig"]
    try:
        # fresh-object reference (harness sanity) ------------------------------------
        used = build_objects(cfg)
        s0 = snapshot(used)
        try:
            m, r1 = run(cfg, used)
        except BaseException as e:  # noqa
            out["harness"].append("config invalid on first run (excluded): %s: %s: %s" % (s, type(e).__name__, str(e)[:100]))
            return out
        if job.get("sanity"):
            _, rf = run(cfg, build_objects(cfg))
            if compare(rf, r1) is not None:
                out["harness"].append("two fresh builds of %s differ (C10 territory): %s" % (s, compare(rf, r1)))
        import numpy as np
        out["nontrivial"] = bool(np.nansum(np.abs(r1[1]["water_flux"][:, 5:])) > 0 and len(r1[1]["final_stats"]) > 0)
        s1 = snapshot(used)
        d01 = snap_diff(s0, s1)
        out["attr"] = d01
        repro_base = {"cfg": cfg, "how": "objs=build_objects(cfg) of /verif/e3/c11_inputs.py; m=make_model(cfg,objs); m.run_model(till_termination=True)"}

        def fail(clause_id, clause, detail, culprit, kind_txt):
            out["failures"].append({
                "signature": "%s|culprit=%s|%s" % (clause_id, culprit, kind_txt if ("crop" in culprit or "none" in culprit) else kind_txt.split("|")[0]),
                "clause": clause,
                "detail": "%s ; case %s ; input attributes changed by the first run: %s" % (detail, s, "; ".join(d01)[:700]),
                "repro": json.dumps(dict(repro_base, then=clause_id))})

        def classify(exc, diff):
            return ("raises-" + type(exc).__name__) if exc is not None else "differs"

        # RERUN ----------------------------------------------------------------------
        exc, diff = None, None
        try:
            m.run_model(till_termination=True)
            diff = compare(r1, result(m))
        except BaseException as e:  # noqa
            exc = e
        rerun_bad = exc is not None or diff is not None
        # RERUN after a partial run that asked for processed outputs (every 4th case) -------------
        if cfg.get("idx", 0) % 4 == 0:
            exc_p, diff_p = None, None
            try:
                m.run_model(num_steps=5, process_outputs=True)
                m.run_model(till_termination=True)
                diff_p = compare(r1, result(m))
            except BaseException as e:  # noqa
                exc_p = e
            if exc_p is not None or diff_p is not None:
                out["failures"].append({
                    "signature": "RERUN-after-partial-run-with-processed-outputs|%s" % (("raises-" + type(exc_p).__name__) if exc_p is not None else "differs"),
                    "clause": "re-running the same model object reproduces the first run's results exactly and does not raise",
                    "detail": ("run_model(num_steps=5, process_outputs=True) then run_model(till_termination=True) on the same model: %s ; case %s"
                               % (("raised %s: %s" % (type(exc_p).__name__, str(exc_p)[:120])) if exc_p is not None else "differs: " + str(diff_p), s)),
                    "repro": json.dumps(dict(repro_base, then="m.run_model(num_steps=5, process_outputs=True); m.run_model(till_termination=True)"))})
        # NEWMODEL ---------------------------------------------------------------------
        exc2, diff2 = None, None
        try:
            _, r3 = run(cfg, used)
            diff2 = compare(r1, r3)
        except BaseException as e:  # noqa
            exc2 = e
        new_bad = exc2 is not None or diff2 is not None
        cul = None
        if rerun_bad or new_bad:
            c = culprits(cfg, used, r1)
            cul = "+".join(c) if c else "none-alone"
        if rerun_bad:
            fail("RERUN", "re-running the same model object reproduces the first run's results exactly and does not raise",
                 ("second run_model raised %s: %s" % (type(exc).__name__, str(exc)[:120])) if exc is not None else "second run differs: " + diff,
                 cul, classify(exc, diff) + "|" + cfg["kind"])
        if new_bad:
            fail("NEWMODEL", "building a new model from the same input objects after a run reproduces the first run's results exactly and does not raise",
                 ("new model raised %s: %s" % (type(exc2).__name__, str(exc2)[:120])) if exc2 is not None else "new model differs: " + diff2,
                 cul, classify(exc2, diff2) + "|" + cfg["kind"])
        # NEWMODEL-k : further uses -------------------------------------------------------
        if not new_bad:
            exc3, diff3 = None, None
            try:
                _, r4 = run(cfg, used)
                diff3 = compare(r1, r4)
                _, r5 = run(cfg, used)
                diff3 = diff3 or compare(r1, r5)
            except BaseException as e:  # noqa
                exc3 = e
            if exc3 is not None or diff3 is not None:
                c = culprits(cfg, used, r1)
                fail("NEWMODEL-k", "every number of earlier runs that used the same objects",
                     ("3rd/4th use raised %s: %s" % (type(exc3).__name__, str(exc3)[:120])) if exc3 is not None else "3rd/4th use differs: " + diff3,
                     "+".join(c) if c else "none-alone", classify(exc3, diff3) + "|" + cfg["kind"])
            d15 = snap_diff(s1, snapshot(used))
            if d15:
                out["attr"] = d01 + ["(later runs) " + x for x in d15]
        # CROSS-USE -----------------------------------------------------------------------
        if do_cross:
            usedx = build_objects(cfg)       # objects used by exactly ONE run of cfg
            run(cfg, usedx)
            for k in do_cross:
                try:
                    v = variant_for(k, cfg)
                    fresh_v = build_objects(v)
                    if k in ("irr", "gw", "co2", "field", "iwc"):
                        fresh_v[k] = build_objects(cfg)[k]      # same user content as the re-used object
                    if k == "crop":
                        fresh_v[k] = build_objects(cfg)[k]
                    try:
                        _, rv = run(v, fresh_v)
                    except BaseException as e:  # noqa
                        out["harness"].append("cross-use variant invalid when fresh (skipped) %s reuse=%s: %s" % (sig(v), k, str(e)[:80]))
                        continue
                    ov = build_objects(v)
                    ov[k] = usedx[k]
                    out["cross_done"].append(k)
                    excx, diffx = None, None
                    try:
                        _, rx = run(v, ov)
                        diffx = compare(rv, rx)
                    except BaseException as e:  # noqa
                        excx = e
                    if excx is not None or diffx is not None:
                        changed = [a for a in attr_names(d01) if a.startswith(k + ".") or a == k]
                        out["failures"].append({
                            "signature": "CROSS-USE|%s|%s|%s" % (k, classify(excx, diffx), cross_tag(k, cfg, changed)),
                            "clause": "running a model does not change the meaning of the objects passed to it (object re-used, after one run, in a "
                                      "different configuration vs. a fresh identical object in that configuration)",
                            "detail": "%s ; first use %s ; then re-used %s in %s ; attributes of the object changed by the first run: %s" % (
                                ("raised %s: %s" % (type(excx).__name__, str(excx)[:120])) if excx is not None else diffx, s, k, sig(v),
                                "; ".join(x for x in d01 if x.startswith(k))[:500]),
                            "repro": json.dumps({"first": cfg, "then": v, "reused": CTOR_ARG[k]})})
                except BaseException:  # noqa
                    out["harness"].append("cross-use harness error %s %s: %s" % (s, k, traceback.format_exc()[-300:]))
    except BaseException:  # noqa
        out["harness"].append("case %s: %s" % (s, traceback.format_exc()[-600:]))
    return out


def source_digest():
    """sha256 over the .py files of the installed aquacrop package (to notice edits of /repo during the run)."""
    import hashlib
    import importlib.util
    root = os.path.dirname(importlib.util.find_spec("aquacrop").origin)
    h = hashlib.sha256()
    for d, _, fs in sorted(os.walk(root)):
        for f in sorted(fs):
            if f.endswith(".py"):
                h.update(f.encode())
                h.update(open(os.path.join(d, f), "rb").read())
    return h.hexdigest()


def main():
    ap = argparse.ArgumentParser()
    ap.add_argument("--tier", choices=["quick", "thorough"], default="quick")
    ap.add_argument("--seed", type=int, default=0)
    ap.add_argument("--out", required=True)
    a = ap.parse_args()
    import random
    import multiprocessing as mp
    t0 = time.time()
    rng = random.Random(a.seed)
    try:
        src0 = source_digest()
    except Exception:  # noqa
        src0 = None
    quick = a.tier == "quick"
    res = {"property": PROP, "tier": a.tier, "seed": a.seed}
    failures, exceptions, samples = [], [], []
    cases = nontrivial = 0
    try:
        ncrops = 9 if quick else len(CROPS)
        nrot = 1 if quick else 3
        jobs = []
        cross_kinds = ["soil", "crop", "irr", "co2", "gw", "field", "iwc", "weather_df"]
        n = 0
        for ci in range(ncrops):
            for ii, code in enumerate(IRR):
                for r in range(nrot):
                    rot = rng.randrange(0, 60) if r else (ci * 7 + ii + a.seed)
                    lo, hi = (1983, 1996) if CROPS[ci][2] == "champion" else (1980, 1994)
                    y0 = rng.randrange(lo, hi)
                    cfg = make_cfg(ci, code, rot, y0)
                    if quick:
                        cross = [cross_kinds[(n + j) % len(cross_kinds)] for j in range(2)] if n % 2 == 0 else []
                        if code == "3" and "irr" not in cross:
                            cross = cross[:1] + ["irr"]
                        # deterministic coverage of the object kinds that carry derived state
                        if code == "0":
                            cross = list(dict.fromkeys(cross + ["crop", "soil"]))
                        if cfg.get("co2") == {"constant_conc": True} and ci in (0, 3, 5):
                            cross = list(dict.fromkeys(cross + ["co2"]))
                    else:
                        cross = cross_kinds if r < 1 else [cross_kinds[(n + j) % len(cross_kinds)] for j in range(3)]
                    jobs.append({"cfg": cfg, "cross": cross, "sanity": not quick})
                    n += 1
        # fixed configuration (independent of the seed): bunds that overtop under monsoon rain on a slowly draining soil - the configured
        # bund height decides runoff, so a field-management object changed by a run shows in the re-run / the next model
        jobs.append({"cfg": {"crop": "PaddyRice", "plant": "06/01", "wx": "hyderabad", "kind": "cd", "start": "2001/06/01", "end": "2002/05/31",
                             "soil": "Paddy", "iwc": None, "irr": irr_cfg("0", 2001, "06/01"),
                             "field": {"bunds": True, "z_bund": 0.05, "bund_water": 10}, "co2": None},
                     "cross": ["field"], "sanity": not quick})
        with mp.Pool(16, maxtasksperchild=8) as pool:
            outs = pool.map(run_case, jobs, chunksize=1)
        attr_count = {}
        cross_count = {}
        seen = set()
        for job, o in zip(jobs, outs):
            exceptions.extend(o["harness"])
            if any(h.startswith("config invalid") for h in o["harness"]):
                continue
            cases += 1
            if o["nontrivial"] and o["sig"] not in seen:
                seen.add(o["sig"])
                nontrivial += 1
            for k in o["cross_done"]:
                cross_count[k] = cross_count.get(k, 0) + 1
            for d in o["attr"]:
                key = d.replace("(later runs) ", "later-runs ")
                key = key if len(key) < 110 else key[:110]
                # numbers make keys unstable -> aggregate on attribute name + kind of change
                nm = key.split(":")[0]
                kindc = "added" if "attribute added" in key else ("type-change" if "type " in key else "value-change")
                attr_count["%s [%s]" % (nm, kindc)] = attr_count.get("%s [%s]" % (nm, kindc), 0) + 1
            failures.extend(o["failures"])
            if len(samples) < 6 and (cases % max(1, len(jobs) // 6) == 1):
                samples.append({"case": o["sig"], "cfg": job["cfg"], "cross_use_checked": o["cross_done"],
                                "failed_clauses": sorted({f["signature"] for f in o["failures"]}),
                                "input_attributes_changed": o["attr"][:12]})
        ded = {}
        for f in failures:
            if f["signature"] in ded:
                ded[f["signature"]]["n"] += 1
            else:
                ded[f["signature"]] = dict(f, n=1)
        failures = []
        for f in ded.values():
            nrep = f.pop("n")
            f["detail"] = "[%d cases with this signature] %s" % (nrep, f["detail"])
            failures.append(f)
        samples.insert(0, {"attribute_changes": dict(sorted(attr_count.items())),
                           "note": "number of cases (of %d) in which the first run (or, 'later-runs', a subsequent one) changed this attribute "
                                   "of a user-supplied input object; informational, not counted as failures" % cases,
                           "cross_use_runs": cross_count})
        res["lattice"] = (
            "BOUNDED. %d cases = %d crop entries %s x 7 irrigation options (method 0,1,2,3[dated Schedule DataFrame],4,5 and 1 with MaxIrr/AppEff) x %d "
            "rotation(s) of auxiliary options (6 soils incl. custom dz and calc_cn, 5 IWC, 3 field-mngt, 4 CO2 [default, constant 500, constant from "
            "file, custom series], groundwater none/constant/variable, off_season, start at planting day or Jan 1; start year drawn from --seed), "
            "2-season windows on tunis/champion weather. Per case: fresh run, run on objects O (R1), re-run of same model, new model on O, "
            "3rd and 4th new model on O, snapshot diff of all input objects; cross-use re-use of a once-used object in a different configuration "
            "(soil with a shallow crop; crop/irrigation/CO2/groundwater/field/iwc/weather in a window shifted by 1 or 3 years): %s runs. "
            "Tables compared bitwise: water_flux, water_storage, crop_growth, final_stats."
            % (len(jobs), ncrops, [c[0] + ("+SwitchGDD" if c[3].startswith("switch") else "") for c in CROPS[:ncrops]], nrot, cross_count))
        res["rule"] = ("a case is one configuration put through the whole protocol; it is non-trivial when the reference run has non-zero daily "
                       "fluxes and at least one final_stats row (a harvested or terminated season), counted once per distinct configuration signature. "
                       "Configurations that raise on their very first run on fresh objects are excluded (listed under 'exceptions').")
    except Exception:  # noqa
        exceptions.append("harness: " + traceback.format_exc()[-1500:])
        res.setdefault("lattice", "harness error before enumeration completed")
        res.setdefault("rule", "")
    res["cases"] = cases
    res["distinct_nontrivial"] = nontrivial
    res["failures"] = failures
    res["samples"] = samples[:8]
    try:
        if src0 is not None and source_digest() != src0:
            exceptions.append("note: aquacrop source files changed on disk while the harness was running; every comparison is made between "
                              "runs of one worker process (one imported copy of the package), so reported results remain self-consistent")
    except Exception:  # noqa
        pass
    res["wall_s"] = round(time.time() - t0, 2)
    res["exceptions"] = exceptions
    json.dump(res, open(a.out, "w"), indent=1, default=str)
    print("%s %s: cases=%d nontrivial=%d failure-signatures=%d exceptions=%d wall=%.1fs" %
          (PROP, a.tier, cases, nontrivial, len(failures), len(exceptions), res["wall_s"]))
    return 0


if __name__ == "__main__":
    sys.exit(main())
