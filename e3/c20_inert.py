#!/venv/bin/python
"""
E3 bounded check for C20 - disabled features and neutral settings are inert.

    /venv/bin/python /verif/e3/c20_inert.py --tier quick|thorough --seed N --out x.json

BOUNDED, NOT A PROOF.  For each of 9 base configurations, every applicable transformation alone and
every pair of applicable transformations that touch disjoint parameters is applied to a fresh copy
of the base configuration; the transformed run's water_flux, water_storage and crop_growth tables
are compared bit for bit (IEEE-754 pattern, all rows, all columns) with the base run's, and the
summary table cell by cell.

Transformations (T = parameter of a switched-off feature, N = feature on at its neutral value):
  T mulch_params      mulch_pct=85, f_mulch=0.9 with mulches=False              (bases without mulches)
  T bund_params       z_bund=0.2 m, bund_water=40 mm with bunds=False           (bases without bunds)
  T cn_pct            curve_number_adj_pct=20 with curve_number_adj=False
  T smt / interval / schedule / depth / netsmt
                      SMT=[60,50,40,30] | IrrInterval=9 | a 4-event Schedule | depth=17 | NetIrrSMT=40
                      set while another irrigation method is selected
  T maxirr_unused     MaxIrr=3 under method 0 or 4 (no surface irrigation)
  T appeff / wetsurf  AppEff=55 | WetSurf=25 under method 0
  N mulch_pct0        mulches=True, mulch_pct=0, f_mulch=0.8      == no mulches
  N fmulch0           mulches=True, mulch_pct=70, f_mulch=0       == no mulches
  N depth0            method 5, depth 0                            == rainfed (bases with method 0)
  N sched_empty       method 3, empty schedule                     == rainfed
  N sched_zero        method 3, four dated events of depth 0       == rainfed
  N maxirr0_m1/m2/m5  method 1 (SMT 80x4) / 2 (interval 5) / 5 (depth 10) with MaxIrr=0        == rainfed
  N maxseason0_m1/m2/m5  same three methods with MaxIrrSeason=0                                == rainfed
  D harvest           harvest_date = the date the model derives itself (planting + MaturityCD + 30 days, read from
                      the base run's crop object after initialisation: read_model_parameters) stated explicitly
Field-management transformations are applied to both the in-season and the fallow management.
"""
import argparse
import copy
import itertools
import json
import os
import sys
import time
import traceback
import warnings
from multiprocessing import Pool

warnings.filterwarnings("ignore")
sys.path.insert(0, os.path.dirname(os.path.abspath(__file__)))

import numpy as np
import pandas as pd

import water_monitors as wm

TABLE_COLS = {
    "water_flux": "time_step_counter season_counter dap Wr z_gw surface_storage IrrDay Infl Runoff DeepPerc CR GwIn "
                  "Es EsPot Tr TrPot".split(),
    "crop_growth": "time_step_counter season_counter dap gdd gdd_cum z_root canopy_cover canopy_cover_ns biomass "
                   "biomass_ns harvest_index harvest_index_adj DryYield FreshYield YieldPot".split(),
}


# ------------------------------------------------------------------------------------- bases
def bases(seed, variant=0):
    """9 base configurations; `variant` shifts the start years (thorough tier runs variants 0 and 1)."""
    s = int(seed) + 3 * variant

    def mk(i, crop, planting, soil, irr, field, fallow, gw, iwc, wx, year, nseasons=1, off=False, pre=0):
        p0 = pd.Timestamp("%d/%s" % (year, planting))
        start = p0 - pd.Timedelta(days=pre)
        end = pd.Timestamp("%d/%s" % (year + nseasons, planting)) - pd.Timedelta(days=1)
        irr = copy.deepcopy(irr)
        if irr is not None and irr.get("schedule") == "rel":
            irr["schedule"] = wm._schedule(p0, nseasons, start, end)
        return {"base": "B%d" % i, "crop": crop, "planting": planting, "soil_label": soil, "soil": wm.soil_spec(soil),
                "irr": irr if irr is not None else {"method": 0}, "field": field, "fallow": fallow,
                "gw": None if gw is None else {"label": "const%g" % gw, "method": "Constant",
                                                "dates": [start.strftime("%Y/%m/%d")], "values": [gw]},
                "iwc": iwc, "wx": wx, "start": start.strftime("%Y/%m/%d"), "end": end.strftime("%Y/%m/%d"),
                "off_season": off, "p0": p0.strftime("%Y/%m/%d")}
    syn = lambda p: {"kind": "syn", "pattern": p, "seed": int(seed)}
    B = [
        mk(1, "Wheat", "10/15", "SandyLoam", None, None, None, None, "FC", {"kind": "tunis"}, 1981 + s % 15),
        mk(2, "Maize", "05/01", "Clay", None, None, None, None, "FC", {"kind": "champion"}, 1985 + s % 25),
        mk(3, "Potato", "04/01", "ClayLoam", None, None, None, None, ("Pct", 60), syn("storm"), 2002 + s % 3,
           nseasons=2, off=True, pre=20),
        mk(4, "Tomato", "05/01", "lowKsub", {"method": 1, "SMT": [80, 70, 60, 50], "AppEff": 80}, None, None, None, "FC",
           {"kind": "tunis"}, 1982 + s % 15),
        mk(5, "MaizeGDD", "05/01", "SandyLoam", {"method": 2, "IrrInterval": 6, "MaxIrr": 20}, None, None, 1.5, "FC",
           {"kind": "champion"}, 1986 + s % 25),
        mk(6, "Cotton", "04/15", "Loam", {"method": 3, "schedule": "rel", "MaxIrr": 30},
           {"mulches": True, "mulch_pct": 60, "f_mulch": 0.5}, {"mulches": True, "mulch_pct": 60, "f_mulch": 0.5}, None,
           "FC", syn("mixed"), 2002 + s % 4),
        mk(7, "PaddyRice", "05/15", "Paddy", {"method": 4, "NetIrrSMT": 85},
           {"bunds": True, "z_bund": 0.10, "bund_water": 30}, {"bunds": True, "z_bund": 0.10, "bund_water": 30}, None,
           "SAT", syn("wet"), 2002 + s % 4),
        mk(8, "Barley", "10/15", "SiltLoam", {"method": 5, "depth": 4.0, "WetSurf": 60}, None, None, None, "WP",
           {"kind": "tunis"}, 1983 + s % 14),
    ]
    # a calendar-day crop converted to thermal time at initialisation (SwitchGDD=1): its calendar is derived from the weather
    b9 = mk(9, "Maize", "05/01", "SandyLoam", None, None, None, None, "FC", {"kind": "champion"}, 1982 + s % 20, nseasons=2)
    b9["crop_kw"] = {"SwitchGDD": 1}
    B.append(b9)
    for b in B:
        b["variant"] = variant
    return B


# ------------------------------------------------------------------------------------- transformations
def _fm(cfg, **kw):
    for key in ("field", "fallow"):
        d = dict(cfg.get(key) or {})
        d.update(kw)
        cfg[key] = d


def _irr(cfg, **kw):
    d = dict(cfg.get("irr") or {"method": 0})
    d.update(kw)
    cfg["irr"] = d


def _sched(cfg, depth):
    p0 = pd.Timestamp(cfg["p0"])
    return [[(p0 + pd.Timedelta(days=o)).strftime("%Y/%m/%d"), depth] for o in (3, 30, 60, 95)]


def method(cfg):
    return (cfg.get("irr") or {"method": 0})["method"]


def has(cfg, flag):
    return bool((cfg.get("field") or {}).get(flag))


T = {}


def reg(tid, touches, applicable, apply, kind):
    T[tid] = {"id": tid, "touches": set(touches), "applicable": applicable, "apply": apply, "kind": kind}


reg("mulch_params", {"mulch_pct", "f_mulch"}, lambda c: not has(c, "mulches"),
    lambda c, h: _fm(c, mulch_pct=85, f_mulch=0.9), "T")
reg("bund_params", {"z_bund", "bund_water"}, lambda c: not has(c, "bunds"),
    lambda c, h: _fm(c, z_bund=0.2, bund_water=40), "T")
reg("cn_pct", {"cn_pct"}, lambda c: True, lambda c, h: _fm(c, curve_number_adj=False, curve_number_adj_pct=20), "T")
reg("smt", {"SMT"}, lambda c: method(c) != 1, lambda c, h: _irr(c, SMT=[60, 50, 40, 30]), "T")
reg("interval", {"IrrInterval"}, lambda c: method(c) != 2, lambda c, h: _irr(c, IrrInterval=9), "T")
reg("schedule", {"Schedule"}, lambda c: method(c) != 3, lambda c, h: _irr(c, schedule=_sched(c, 25.0)), "T")
reg("depth", {"depth"}, lambda c: method(c) != 5, lambda c, h: _irr(c, depth=17.0), "T")
reg("netsmt", {"NetIrrSMT"}, lambda c: method(c) != 4, lambda c, h: _irr(c, NetIrrSMT=40), "T")
reg("maxirr_unused", {"MaxIrr"}, lambda c: method(c) in (0, 4), lambda c, h: _irr(c, MaxIrr=3), "T")
reg("appeff", {"AppEff"}, lambda c: method(c) == 0, lambda c, h: _irr(c, AppEff=55), "T")
reg("wetsurf", {"WetSurf"}, lambda c: method(c) == 0, lambda c, h: _irr(c, WetSurf=25), "T")
reg("mulch_pct0", {"mulches", "mulch_pct", "f_mulch"}, lambda c: not has(c, "mulches"),
    lambda c, h: _fm(c, mulches=True, mulch_pct=0, f_mulch=0.8), "N")
reg("fmulch0", {"mulches", "mulch_pct", "f_mulch"}, lambda c: not has(c, "mulches"),
    lambda c, h: _fm(c, mulches=True, mulch_pct=70, f_mulch=0.0), "N")
reg("depth0", {"method", "depth"}, lambda c: method(c) == 0, lambda c, h: _irr(c, method=5, depth=0.0), "N")
reg("sched_empty", {"method", "Schedule"}, lambda c: method(c) == 0, lambda c, h: _irr(c, method=3, schedule=[]), "N")
reg("sched_zero", {"method", "Schedule"}, lambda c: method(c) == 0,
    lambda c, h: _irr(c, method=3, schedule=_sched(c, 0.0)), "N")
reg("maxirr0_m1", {"method", "MaxIrr"}, lambda c: method(c) == 0,
    lambda c, h: _irr(c, method=1, MaxIrr=0.0, **({} if "SMT" in c["irr"] else {"SMT": [80] * 4})), "N")
reg("maxirr0_m2", {"method", "MaxIrr"}, lambda c: method(c) == 0,
    lambda c, h: _irr(c, method=2, MaxIrr=0.0, **({} if "IrrInterval" in c["irr"] else {"IrrInterval": 5})), "N")
reg("maxirr0_m5", {"method", "MaxIrr", "depth"}, lambda c: method(c) == 0,
    lambda c, h: _irr(c, method=5, MaxIrr=0.0, depth=10.0), "N")
reg("maxseason0_m1", {"method", "MaxIrrSeason"}, lambda c: method(c) == 0,
    lambda c, h: _irr(c, method=1, MaxIrrSeason=0.0, **({} if "SMT" in c["irr"] else {"SMT": [80] * 4})), "N")
reg("maxseason0_m2", {"method", "MaxIrrSeason"}, lambda c: method(c) == 0,
    lambda c, h: _irr(c, method=2, MaxIrrSeason=0.0, **({} if "IrrInterval" in c["irr"] else {"IrrInterval": 5})), "N")
reg("maxseason0_m5", {"method", "MaxIrrSeason", "depth"}, lambda c: method(c) == 0,
    lambda c, h: _irr(c, method=5, MaxIrrSeason=0.0, depth=10.0), "N")
reg("harvest", {"harvest_date"}, lambda c: True,
    lambda c, h: c.__setitem__("crop_kw", dict(c.get("crop_kw", {}), harvest_date=h)), "D")
ORDER = list(T.keys())


def transform(base, tids, harvest):
    cfg = copy.deepcopy(base)
    # order: parameter-only transformations first so that a method switch keeps the parameters already set
    for tid in sorted(tids, key=lambda t: ("method" in T[t]["touches"], ORDER.index(t))):
        T[tid]["apply"](cfg, harvest)
    return cfg


def build(cfg):
    c = dict(cfg)
    irr = dict(c["irr"])
    if irr.get("schedule") is not None and len(irr["schedule"]) == 0:
        irr.pop("schedule")        # empty schedule = the constructor's empty DataFrame
    c["irr"] = irr
    return wm.build_model(c)


# ------------------------------------------------------------------------------------- runs
_BASE = {}


def run_tables(cfg):
    m = build(cfg)
    m.run_model(till_termination=True)
    tabs = {nm: np.array(wm.table(getattr(m._outputs, nm)), dtype=np.float64) for nm in
            ("water_flux", "water_storage", "crop_growth")}
    fs = m._outputs.final_stats.copy()
    return tabs, fs, m


def base_run(base):
    key = (base["base"], base["variant"])
    if key not in _BASE:
        tabs, fs, m = run_tables(base)
        # the date the model derived itself: read from the model's private crop copy (the user's Crop object is not modified by a run)
        derived = m._param_struct.Seasonal_Crop_List[0].harvest_date if m.crop.harvest_date is None else m.crop.harvest_date
        _BASE[key] = (tabs, fs, str(derived), int(m._clock_struct.n_seasons),
                      float(np.sum(tabs["water_flux"][:, 8])), float(np.sum(tabs["water_flux"][:, 6])))
    return _BASE[key]


def bits(a):
    return np.ascontiguousarray(a).view(np.int64)


def job(args):
    base, tids = args
    res = {"base": base["base"], "variant": base["variant"], "tids": list(tids), "diff": None, "model_exception": None,
           "harness_exception": None, "harvest": None, "base_runoff": 0.0, "base_irr": 0.0}
    try:
        try:
            btabs, bfs, harvest, nseas, runoff, irr = base_run(base)
        except Exception as e:
            res["model_exception"] = "base run: %s: %s" % (type(e).__name__, str(e)[:200])
            return res
        res["harvest"] = harvest
        res["base_runoff"] = runoff
        res["base_irr"] = irr
        if not tids:
            return res
        cfg = transform(base, tids, harvest)
        res["cfg"] = {k: v for k, v in cfg.items() if k not in ("soil",)}
        try:
            tabs, fs, m = run_tables(cfg)
        except Exception as e:
            res["model_exception"] = "transformed run: %s: %s" % (type(e).__name__, str(e)[:200])
            return res
        import hashlib
        hsh = hashlib.sha1()
        for nm in ("water_flux", "water_storage", "crop_growth"):
            hsh.update(np.ascontiguousarray(tabs[nm]).tobytes())
        hsh.update(repr(fs.values.tolist()).encode())
        res["digest"] = hsh.hexdigest()
        diffs = []
        for nm in ("water_flux", "water_storage", "crop_growth"):
            A, Bm = btabs[nm], tabs[nm]
            if A.shape != Bm.shape:
                diffs.append((0, nm + ".shape", str(A.shape), str(Bm.shape)))
                continue
            neq = bits(A) != bits(Bm)
            if neq.any():
                names = TABLE_COLS.get(nm) or (["time_step_counter", "growing_season", "dap"] +
                                               ["th%d" % i for i in range(1, A.shape[1] - 2)])
                rc = np.argwhere(neq)
                r0 = int(rc[:, 0].min())
                for r, c in rc[rc[:, 0] == r0]:
                    diffs.append((r0, "%s.%s" % (nm, names[c]), float(A[r, c]), float(Bm[r, c])))
                diffs.append((10 ** 7, "%s.count" % nm, int(neq.sum()), float(np.nanmax(np.abs(A - Bm)))))
        if bfs.shape != fs.shape:
            diffs.append((10 ** 6, "final_stats.shape", str(bfs.shape), str(fs.shape)))
        else:
            for col in bfs.columns:
                for i in range(len(bfs)):
                    x, y = bfs[col].iloc[i], fs[col].iloc[i]
                    same = (x == y) if not isinstance(x, float) else (bits(np.array([x]))[0] == bits(np.array([float(y)]))[0])
                    if not same:
                        diffs.append((10 ** 6, "final_stats.%s[%d]" % (col, i), str(x), str(y)))
        if diffs:
            real = [d for d in diffs if d[0] < 10 ** 7]
            real.sort(key=lambda d: (d[0], d[1]))
            counts = [d for d in diffs if d[0] == 10 ** 7]
            res["diff"] = {"first_row": real[0][0], "first_cols": [d[1] for d in real if d[0] == real[0][0]][:10],
                           "first": real[0], "cells": {d[1]: (d[2], d[3]) for d in counts},
                           "summary": [d[1:] for d in real if d[0] == 10 ** 6][:6]}
    except Exception as e:
        res["harness_exception"] = "%s: %s | %s" % (type(e).__name__, str(e)[:300], traceback.format_exc()[-600:])
    return res


PRIORITY = ["water_flux.IrrDay", "water_flux.Runoff", "water_flux.Infl", "water_flux.surface_storage", "water_flux.EsPot",
            "water_flux.Es", "water_flux.TrPot", "water_flux.Tr", "crop_growth.canopy_cover"]


def lead(cols):
    return sorted(cols, key=lambda c: (PRIORITY.index(c) if c in PRIORITY else len(PRIORITY),
                                       c.startswith("water_storage.th"), c))[0]


def main():
    ap = argparse.ArgumentParser()
    ap.add_argument("--tier", default="quick", choices=["quick", "thorough"])
    ap.add_argument("--seed", type=int, default=0)
    ap.add_argument("--out", required=True)
    ap.add_argument("--procs", type=int, default=16)
    a = ap.parse_args()
    t0 = time.time()
    out = {"property": "C20", "tier": a.tier, "seed": a.seed, "lattice": "", "cases": 0, "distinct_nontrivial": 0,
           "rule": "a (base, transformation set) case counts when both runs completed and the transformed configuration "
                   "differs from the base in at least one constructor argument that reaches the model (always true here) "
                   "and the base run has a non-empty season (summary row present)",
           "failures": [], "samples": [], "wall_s": 0.0, "exceptions": [], "model_raised": []}
    try:
        allb = bases(a.seed, 0) + (bases(a.seed, 1) if a.tier == "thorough" else [])
        jobs = []
        n_single = n_pair = 0
        # quick tier: singles on all 8 bases, pairs on 4 bases (one rainfed base chosen by the seed + B4, B6, B7);
        # thorough tier: singles and pairs on all 8 bases x 2 start-year variants
        pair_bases = {"B%d" % (1 + a.seed % 3), "B4", "B6", "B7"}
        for b in allb:
            app = [t for t in ORDER if T[t]["applicable"](b)]
            jobs.append((b, ()))
            for t in app:
                jobs.append((b, (t,)))
                n_single += 1
            if a.tier == "quick" and b["base"] not in pair_bases:
                continue
            for t1, t2 in itertools.combinations(app, 2):
                if T[t1]["touches"] & T[t2]["touches"]:
                    continue
                jobs.append((b, (t1, t2)))
                n_pair += 1
        # group jobs of one base together so the per-process base cache is effective
        with Pool(a.procs) as pool:
            results = pool.map(job, jobs, chunksize=4)
        single_fail = {}
        for r in results:
            if r["diff"] and len(r["tids"]) == 1:
                single_fail[(r["base"], r["variant"], r["tids"][0])] = r.get("digest")
        sigs = {}
        basefacts = {}
        good = []
        for r in results:
            bkey = "%s%s" % (r["base"], "" if r["variant"] == 0 else "v%d" % r["variant"])
            r["bkey"] = bkey
            if r["harness_exception"]:
                out["exceptions"].append("%s %s: %s" % (bkey, r["tids"], r["harness_exception"]))
                continue
            if r["model_exception"]:
                out["model_raised"].append("%s %s: %s" % (bkey, r["tids"], r["model_exception"]))
                continue
            if not r["tids"]:
                basefacts[bkey] = {"default_harvest_date": r["harvest"], "runoff_mm": round(r["base_runoff"], 2),
                                   "irrigation_mm": round(r["base_irr"], 2)}
                continue
            out["cases"] += 1
            good.append(r)
        for npass in (1, 2):           # singles first, then pairs
            for r in good:
                if len(r["tids"]) != npass or not r["diff"]:
                    continue
                tids = r["tids"]
                # a differing pair is attributed to a member that already differs alone on this base only if the pair's
                # outputs are bit-identical to that member's own outputs (the other member is inert next to it)
                culprits = [t for t in tids if single_fail.get((r["base"], r["variant"], t)) == r.get("digest")] \
                    if npass == 2 else []
                if culprits:
                    # explained by a member that already fails alone on this base: attributed to it
                    for t in culprits:
                        for s_ in sigs.values():
                            if s_["tids"] == [t]:
                                s_["pairs_explained"] += 1
                                break
                    continue
                ld = lead(r["diff"]["first_cols"])
                sig = "%s|first=%s" % ("+".join(tids), ld)
                e = sigs.get(sig)
                if e is None:
                    e = sigs[sig] = {"tids": tids, "n": 0, "bases": [], "pairs_explained": 0, "rec": r, "lead": ld}
                e["n"] += 1
                e["bases"].append(r["bkey"])
        for sig in sorted(sigs):
            e = sigs[sig]
            r = e["rec"]
            d = r["diff"]
            kind = "/".join(T[t]["kind"] for t in e["tids"])
            out["failures"].append({
                "signature": sig,
                "clause": {"T": "parameters of a switched-off feature have no effect", "N": "a feature switched on at its neutral "
                           "value behaves as off", "D": "stating the default harvest date explicitly gives the same results"
                           }.get(T[e["tids"][0]]["kind"]) + (" (in combination)" if len(e["tids"]) > 1 else "") + " [%s]" % kind,
                "detail": "differs from the base run on base(s) %s; first differing row %s, columns %s, e.g. %s base=%r "
                          "transformed=%r; differing cells / max abs diff per table %s; summary diffs %s; %d pair(s) "
                          "containing this transformation give outputs bit-identical to it alone and are attributed to it; base facts %s"
                          % (e["bases"], d["first_row"], d["first_cols"], d["first"][1], d["first"][2], d["first"][3],
                             d["cells"], d["summary"], e["pairs_explained"],
                             {b: basefacts.get(b) for b in e["bases"][:3]}),
                "repro": "import sys; sys.path.insert(0,'/verif/e3'); import c20_inert as c; b=[x for x in c.bases(%d,%d) if "
                         "x['base']=='%s'][0]; print(c.job((b, %r))['diff'])" % (a.seed, r["variant"], r["base"],
                                                                                 tuple(e["tids"]))})
        out["distinct_nontrivial"] = out["cases"]
        out["lattice"] = ("BOUNDED (not a proof). %d base configurations (%s) x [each applicable transformation alone: %d cases; "
                          "every pair of applicable transformations touching disjoint parameters: %d cases] = %d transformed runs, "
                          "each compared bitwise with its base run. Bases: B1 Wheat/SandyLoam/rainfed/Tunis, B2 Maize/Clay/rainfed/"
                          "Champion, B3 Potato/ClayLoam/rainfed/synthetic storms/off-season simulated/2 seasons/60%% TAW, B4 Tomato/"
                          "layered low-Ksat subsoil/SMT irrigation eff 80, B5 MaizeGDD/SandyLoam/6-day interval/water table 1.5 m, "
                          "B6 Cotton/Loam/schedule/mulches on, B7 PaddyRice/Paddy/net irrigation/bunds on/saturated start, B8 Barley/"
                          "SiltLoam/constant 4 mm/start at WP. 23 transformations, listed in the module docstring. Base facts: %s"
                          % (len(allb), "9 bases" + (" x 2 start-year variants, pairs on all bases" if a.tier == "thorough" else
                                         "; pairs only on bases %s in the quick tier" % sorted(pair_bases)), n_single, n_pair,
                             n_single + n_pair, basefacts))
        ok = [r for r in results if r.get("cfg")]
        out["samples"] = [{"base": r["base"], "transformations": r["tids"], "irr": r["cfg"]["irr"], "field": r["cfg"]["field"],
                           "crop_kw": r["cfg"].get("crop_kw")} for r in (ok[:3] + ok[len(ok) // 2:len(ok) // 2 + 3] + ok[-2:])]
    except Exception as e:
        out["exceptions"].append("harness crash: %s: %s | %s" % (type(e).__name__, e, traceback.format_exc()[-800:]))
    out["wall_s"] = round(time.time() - t0, 2)
    with open(a.out, "w") as fh:
        json.dump(out, fh, indent=1, default=str)
    return 0


if __name__ == "__main__":
    sys.exit(main())
