"""E3 (BOUNDED) for C09: any partition of a run into run_model(num_steps=k_i, initialize_model=False) calls gives the same tables,
summary and completion status as one run to termination; the model reports itself unfinished until then."""
import argparse, json, time, random, hashlib, itertools, sys, os
import numpy as np
import pandas as pd
from multiprocessing import Pool

def build(cfg):
    from aquacrop import AquaCropModel, Soil, Crop, InitialWaterContent, IrrigationManagement
    from aquacrop.utils import prepare_weather, get_filepath
    w = prepare_weather(get_filepath(cfg["wx"]))
    irr = IrrigationManagement(irrigation_method=cfg["irr"], SMT=[60]*4) if cfg["irr"] == 1 else IrrigationManagement(irrigation_method=cfg["irr"])
    return AquaCropModel(cfg["start"], cfg["end"], w, Soil(cfg["soil"]), Crop(cfg["crop"], planting_date=cfg["plant"]),
                         InitialWaterContent(value=["FC"]), irrigation_management=irr, off_season=cfg["off"])

def digest(m):
    h = hashlib.sha256()
    for a in (m._outputs.water_flux, m._outputs.water_storage, m._outputs.crop_growth):
        h.update(np.ascontiguousarray(np.asarray(a, dtype=float)).tobytes())
    h.update(m._outputs.final_stats.to_csv().encode())
    return h.hexdigest()

def run_case(arg):
    cfg, part = arg
    try:
        ref = build(cfg); ref.run_model(till_termination=True)
        dref = digest(ref); nref = int(ref._clock_struct.time_step_counter)
        m = build(cfg); m._initialize()
        fails = []
        done = False
        for i, k in enumerate(part):
            m.run_model(num_steps=k, initialize_model=False)
            fin = m.get_additional_information()["has_model_finished"]
            res = m.get_simulation_results()
            if fin != bool(m._clock_struct.model_is_finished):
                fails.append(("status", "has_model_finished=%s but clock says %s after call %d" % (fin, m._clock_struct.model_is_finished, i)))
            if not fin and res is not False:
                fails.append(("unfinished-has-summary", "summary returned before termination after call %d" % i))
            if fin:
                done = True
                break
        if not done:
            if sum(part) >= nref + 2:
                # the calls together ask for at least as many steps as the uninterrupted run needed, yet the model never reports termination
                fails.append(("never-finishes", "after %d calls asking for %d steps in total (the uninterrupted run needs %d) the model still reports itself unfinished"
                              % (len(part), sum(part), nref)))
                return dict(cfg=cfg, part=part[:6], n=len(part), trivial=False, fails=fails)
            return dict(cfg=cfg, part=part[:6], n=len(part), trivial=True, fails=fails)
        if digest(m) != dref:
            fails.append(("tables-differ", "tables/summary differ from the uninterrupted run (partition of %d calls)" % len(part)))
        if m.get_simulation_results() is False:
            fails.append(("finished-no-summary", "no summary after termination"))
        return dict(cfg=cfg, part=part[:6], n=len(part), trivial=False, fails=fails)
    except Exception as e:
        return dict(cfg=cfg, part=part[:6], n=len(part), trivial=True, fails=[], exc="%s: %s" % (type(e).__name__, e))

def compositions(n, maxparts):
    out = []
    for r in range(1, maxparts + 1):
        for cuts in itertools.combinations(range(1, n), r - 1):
            b = (0,) + cuts + (n,)
            out.append([b[i+1] - b[i] for i in range(r)])
    return out

def main():
    ap = argparse.ArgumentParser(); ap.add_argument("--tier", default="quick"); ap.add_argument("--seed", type=int, default=0); ap.add_argument("--out", required=True)
    a = ap.parse_args(); t0 = time.time(); rng = random.Random(a.seed)
    cfgs = [dict(wx="champion_climate.txt", start="1982/05/01", end="1982/05/10", soil="SandyLoam", crop="Maize", plant="05/01", irr=0, off=False),
            dict(wx="champion_climate.txt", start="1982/05/01", end="1983/10/30", soil="ClayLoam", crop="Maize", plant="05/01", irr=1, off=False),
            dict(wx="champion_climate.txt", start="1982/04/20", end="1983/09/30", soil="SandyLoam", crop="Maize", plant="05/01", irr=2, off=True),
            dict(wx="tunis_climate.txt", start="1979/10/01", end="1982/05/30", soil="Loam", crop="Wheat", plant="10/01", irr=4, off=False)]
    cases = []
    ref0 = build(cfgs[0]); ref0.run_model(till_termination=True)
    N0 = int(ref0._clock_struct.time_step_counter) + 1 if not ref0._clock_struct.model_is_finished else None
    N0 = 0
    m0 = build(cfgs[0]); m0._initialize()
    nref0 = int(ref0._clock_struct.time_step_counter)
    stuck = False
    while not m0._clock_struct.model_is_finished:
        m0.run_model(num_steps=1, initialize_model=False); N0 += 1
        if N0 > nref0 + 5:
            stuck = True          # stepping day by day never reaches termination although the uninterrupted run did after nref0 steps
            break
    if stuck:
        sig = "never-finishes|%s|irr=%d|off=%s" % (cfgs[0]["crop"], cfgs[0]["irr"], cfgs[0]["off"])
        json.dump(dict(property="C09", tier=a.tier, seed=a.seed, lattice="aborted: the shortest window stepped one day per call never terminates", cases=1, distinct_nontrivial=1,
                       rule="-", failures=[dict(signature=sig, clause="stepwise execution equals one uninterrupted run",
                                                detail="run_model(num_steps=1) called %d times on a window the uninterrupted run finishes after %d steps: the model still reports itself unfinished" % (N0, nref0),
                                                repro="cfg=%r, one step per call" % (cfgs[0],))],
                       samples=[], wall_s=round(time.time() - t0, 1), exceptions=[]), open(a.out, "w"), indent=1)
        return
    # short window: ALL compositions of the 8-step run into up to 8 calls (plus overshooting last call)
    for part in compositions(N0, N0):
        cases.append((cfgs[0], part)); 
    cases += [(cfgs[0], p[:-1] + [p[-1] + 5]) for p in compositions(N0, 3)]
    nrand = 12 if a.tier == "quick" else 120
    for cfg in cfgs[1:]:
        for _ in range(nrand):
            part = []
            while sum(part) < 1200:
                part.append(rng.choice([1, 1, 2, 3, 7, 30, 100, 365, 400, 5000]))
            cases.append((cfg, part))
        cases.append((cfg, [1] * 1200)); cases.append((cfg, [100000]))
    with Pool(16) as pool:
        res = pool.map(run_case, cases, chunksize=4)
    fails = {}
    for r in res:
        for kind, detail in r["fails"]:
            sig = "%s|%s|irr=%d|off=%s" % (kind, r["cfg"]["crop"], r["cfg"]["irr"], r["cfg"]["off"])
            fails.setdefault(sig, dict(signature=sig, clause="stepwise execution equals one uninterrupted run", detail=detail,
                                       repro="cfg=%r partition starts %r (%d calls)" % (r["cfg"], r["part"], r["n"])))
    out = dict(property="C09", tier=a.tier, seed=a.seed,
               lattice="all %d compositions of the shortest window (every way of splitting its steps) into run calls (incl. overshooting last calls) + %d seeded random partitions each of 3 multi-season configurations (step sizes from {1,2,3,7,30,100,365,400,5000}), plus day-by-day and single-call runs" % (len(compositions(N0, N0)), nrand),
               cases=len(res), distinct_nontrivial=sum(1 for r in res if not r["trivial"]), rule="a case is non-trivial when the partition reaches termination and its tables were compared bitwise (sha256) with the uninterrupted run",
               failures=list(fails.values()), samples=[dict(cfg=r["cfg"], first_calls=r["part"], calls=r["n"]) for r in res[:3] + res[-3:]],
               wall_s=round(time.time() - t0, 1), exceptions=[r["exc"] for r in res if r.get("exc")][:5])
    json.dump(out, open(a.out, "w"), indent=1)

if __name__ == "__main__":
    main()
