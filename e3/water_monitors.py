#!/venv/bin/python
"""
E3 bounded whole-run monitors for properties C01 C02 C03 C04 C05 C06 C13 C19.

    /venv/bin/python /verif/e3/water_monitors.py --property C01 --tier quick|thorough --seed N --out x.json

BOUNDED, NOT A PROOF.  A finite, explicitly enumerated set of configurations of the
real model (crop x soil x irrigation x field management x groundwater x initial water
content x weather x off-season flag x 1-3 seasons) is stepped day by day with
run_model(num_steps=1, initialize_model=False).  From the state immediately before each
step, the output rows written by that step, and a harness-side ledger obtained by
rebinding the process functions in aquacrop.timestep.run_single_timestep's namespace
(no change to /repo), the clauses of the selected property are evaluated concretely.

The module is also the shared configuration -> model builder for c08_seasons.py and
c20_inert.py (build_model, make_weather).
"""
import argparse
import copy
import json
import math
import os
import random
import sys
import time
import traceback
import warnings
from multiprocessing import Pool

warnings.filterwarnings("ignore")
os.environ.setdefault("DEVELOPMENT", "True")

import numpy as np
import pandas as pd

from aquacrop import (AquaCropModel, Soil, Crop, InitialWaterContent,
                      IrrigationManagement, FieldMngt, GroundWater)
from aquacrop.utils import prepare_weather, get_filepath
from aquacrop.entities.crops.crop_params import crop_params
import aquacrop.timestep.run_single_timestep as RSTS
import aquacrop.core as CORE
from aquacrop.solution.root_zone_water import root_zone_water as _rzw

PROPS = ("C01", "C02", "C03", "C04", "C05", "C06", "C13", "C19")

# --------------------------------------------------------------------------------------
# weather
# --------------------------------------------------------------------------------------
_WX_CACHE = {}
WX_FILES = {"tunis": "tunis_climate.txt", "champion": "champion_climate.txt",
            "hyderabad": "hyderabad_climate.txt", "cordoba": "cordoba_climate.txt",
            "brussels": "brussels_climate.txt"}
WX_FIRST_YEAR = {"tunis": 1979, "champion": 1982, "hyderabad": 2000, "cordoba": 1991,
                 "brussels": 1976, "syn": 2001}
WX_LAST_FULL_YEAR = {"tunis": 2001, "champion": 2018, "hyderabad": 2010, "cordoba": 2021,
                     "brussels": 2005, "syn": 2008}
SYN_PATTERNS = ("storm", "drought", "wet", "mixed")


def synthetic_weather(pattern, seed, first_year=2001, years=8):
    """Daily synthetic weather, deterministic in (pattern, seed).
    Temperature: annual sinusoid (mean 17, amplitude 9 degC) +- noise; ET0 2-7 mm/d.
    storm  : 15 % rain days (exp. mean 10 mm) plus 2.5 % storm days of 60-300 mm
    drought: no rain at all (multi-year drought)
    wet    : 50 % rain days, exp. mean 9 mm
    mixed  : alternating 60-day wet / dry spells plus a few 150-300 mm storms"""
    rs = np.random.RandomState((hash_str(pattern) + 7919 * int(seed)) % (2 ** 31 - 1))
    dates = pd.date_range(f"{first_year}-01-01", f"{first_year + years - 1}-12-31", freq="D")
    n = len(dates)
    doy = dates.dayofyear.values.astype(float)
    tmean = 17.0 + 9.0 * np.sin(2 * np.pi * (doy - 110.0) / 365.0) + rs.normal(0, 2.0, n)
    spread = 5.0 + rs.uniform(0, 3.0, n)
    tmin = np.round(tmean - spread, 1)
    tmax = np.round(tmean + spread, 1)
    et0 = np.round(np.clip(4.2 + 2.6 * np.sin(2 * np.pi * (doy - 110.0) / 365.0)
                           + rs.normal(0, 0.6, n), 0.5, None), 1)
    u = rs.uniform(0, 1, n)
    depth = rs.exponential(1.0, n)
    big = rs.uniform(60.0, 300.0, n)
    if pattern == "storm":
        rain = np.where(u < 0.15, depth * 10.0, 0.0)
        rain = np.where(rs.uniform(0, 1, n) < 0.025, big, rain)
    elif pattern == "drought":
        rain = np.zeros(n)
    elif pattern == "wet":
        rain = np.where(u < 0.5, depth * 9.0, 0.0)
    elif pattern == "mixed":
        wetspell = ((np.arange(n) // 60) % 2) == 0
        rain = np.where(wetspell & (u < 0.45), depth * 11.0, 0.0)
        rain = np.where(rs.uniform(0, 1, n) < 0.008, np.maximum(big, 150.0), rain)
    else:
        raise ValueError(pattern)
    rain = np.round(rain, 1)
    return pd.DataFrame({"MinTemp": tmin, "MaxTemp": tmax, "Precipitation": rain,
                         "ReferenceET": et0, "Date": dates})


def hash_str(s):
    h = 0
    for ch in s:
        h = (h * 131 + ord(ch)) % 1000003
    return h


def make_weather(spec):
    """spec: {'kind': 'tunis'|'champion'|...} or {'kind': 'syn', 'pattern': p, 'seed': s}"""
    key = json.dumps(spec, sort_keys=True)
    if key not in _WX_CACHE:
        if spec["kind"] == "syn":
            _WX_CACHE[key] = synthetic_weather(spec["pattern"], spec.get("seed", 0))
        else:
            _WX_CACHE[key] = prepare_weather(get_filepath(WX_FILES[spec["kind"]]))
    return _WX_CACHE[key].copy()


# --------------------------------------------------------------------------------------
# configuration -> real objects (always fresh: the model mutates its inputs)
# --------------------------------------------------------------------------------------
SOILS = {
    # label: spec
    "SandyLoam": {"kind": "builtin", "type": "SandyLoam"},
    "Clay": {"kind": "builtin", "type": "Clay"},
    "ClayLoam": {"kind": "builtin", "type": "ClayLoam"},
    "Sand": {"kind": "builtin", "type": "Sand"},
    "SiltLoam": {"kind": "builtin", "type": "SiltLoam"},
    "Loam": {"kind": "builtin", "type": "Loam"},
    "SiltClay": {"kind": "builtin", "type": "SiltClay"},
    "LoamySand": {"kind": "builtin", "type": "LoamySand"},
    "Paddy": {"kind": "builtin", "type": "Paddy"},
    "TunisLocal": {"kind": "builtin", "type": "ac_TunisLocal"},
    # custom layered: (thickness, th_wp, th_fc, th_s, Ksat, penetrability)
    "lowKsub": {"kind": "layers", "kw": {"cn": 72, "rew": 9},
                "layers": [(0.4, 0.15, 0.31, 0.46, 500.0, 100),
                           (0.3, 0.30, 0.45, 0.52, 3.0, 100),
                           (3.0, 0.13, 0.33, 0.46, 250.0, 100)]},
    "fastOverSlow": {"kind": "layers", "kw": {"cn": 61, "rew": 6},
                     "layers": [(0.3, 0.06, 0.13, 0.36, 3000.0, 100),
                                (0.5, 0.20, 0.32, 0.47, 225.0, 100),
                                (3.0, 0.39, 0.54, 0.55, 20.0, 100)]},
    # strongly contrasting layers: what is field capacity for the sand is far below air-dry for the clay (and the clay's is above the sand's saturation)
    "sandOverClay": {"kind": "layers", "kw": {"cn": 65, "rew": 6},
                     "layers": [(0.2, 0.06, 0.13, 0.36, 1500.0, 100),
                                (3.0, 0.39, 0.54, 0.55, 35.0, 100)]},
    "clayOverSand": {"kind": "layers", "kw": {"cn": 77, "rew": 10},
                     "layers": [(0.3, 0.39, 0.54, 0.55, 35.0, 100),
                                (3.0, 0.06, 0.13, 0.36, 1500.0, 100)]},
    # two layers with the SAME field capacity but different saturation (the upper one has the smaller pore space)
    "sameFcDiffSat": {"kind": "layers", "kw": {"cn": 61, "rew": 9},
                      "layers": [(0.5, 0.10, 0.25, 0.41, 600.0, 100),
                                 (3.0, 0.12, 0.25, 0.50, 400.0, 100)]},
    "pen40": {"kind": "layers", "kw": {"cn": 61, "rew": 9},
              "layers": [(0.5, 0.15, 0.31, 0.46, 500.0, 100),
                         (0.4, 0.23, 0.39, 0.50, 125.0, 40),
                         (3.0, 0.15, 0.31, 0.46, 500.0, 100)]},
    "fc4dec": {"kind": "layers", "kw": {"cn": 61, "rew": 9},
               "layers": [(0.6, 0.1475, 0.3125, 0.4625, 400.0, 100),
                          (3.0, 0.2215, 0.3875, 0.4985, 120.0, 100)]},
    "texture": {"kind": "texture", "kw": {"cn": 61, "rew": 9},
                "layers": [(0.5, 40.0, 20.0, 2.5, 100), (3.0, 25.0, 35.0, 1.0, 100)]},
    "fineDz": {"kind": "builtin", "type": "SiltLoam",
               "kw": {"dz": [0.05] * 6 + [0.1] * 4 + [0.2] * 4}},
}


LAYERED = {"Paddy", "TunisLocal", "lowKsub", "fastOverSlow", "pen40", "fc4dec", "texture", "sandOverClay", "clayOverSand", "sameFcDiffSat"}


def soil_spec(label):
    return copy.deepcopy(SOILS[label])


def make_soil(spec):
    kw = dict(spec.get("kw", {}))
    if spec["kind"] == "builtin":
        return Soil(spec["type"], **kw)
    soil = Soil("custom", **kw)
    if spec["kind"] == "layers":
        for (thk, wp, fc, sat, ks, pen) in spec["layers"]:
            soil.add_layer(thk, wp, fc, sat, ks, pen)
    elif spec["kind"] == "texture":
        for (thk, sand, clay, om, pen) in spec["layers"]:
            soil.add_layer_from_texture(thk, sand, clay, om, pen)
    else:
        raise ValueError(spec["kind"])
    return soil


def make_iwc(spec, n_layers, soil=None):
    """spec: 'FC' | 'WP' | 'SAT' | ('Pct', v) | ('PctDepth', [d..],[v..]) | ('NumDepth',[d..],[v..])
    | ('NumLayer', [f1, f2, ..]) = numeric value th_wp + f*(th_s - th_wp) per layer (f cycled)"""
    if isinstance(spec, str):
        return InitialWaterContent(wc_type="Prop", method="Layer",
                                   depth_layer=list(range(1, n_layers + 1)),
                                   value=[spec] * n_layers)
    kind = spec[0]
    if kind == "Pct":
        return InitialWaterContent(wc_type="Pct", method="Layer",
                                   depth_layer=list(range(1, n_layers + 1)),
                                   value=[spec[1]] * n_layers)
    if kind == "PctLayer":
        return InitialWaterContent(wc_type="Pct", method="Layer",
                                   depth_layer=list(range(1, n_layers + 1)),
                                   value=[spec[1][(l) % len(spec[1])] for l in range(n_layers)])
    if kind == "PctDepth":
        return InitialWaterContent(wc_type="Pct", method="Depth",
                                   depth_layer=list(spec[1]), value=list(spec[2]))
    if kind == "NumLayer":
        vals = []
        for l in range(1, n_layers + 1):
            rows = soil.profile[soil.profile.Layer == l]
            wp, sat = float(rows.th_wp.iloc[0]), float(rows.th_s.iloc[0])
            f = spec[1][(l - 1) % len(spec[1])]
            vals.append(round(wp + f * (sat - wp), 4))
        return InitialWaterContent(wc_type="Num", method="Layer",
                                   depth_layer=list(range(1, n_layers + 1)), value=vals)
    if kind == "NumDepth":
        return InitialWaterContent(wc_type="Num", method="Depth",
                                   depth_layer=list(spec[1]), value=list(spec[2]))
    raise ValueError(spec)


def make_irr(spec):
    """spec: {'method': m, <IrrigationManagement kwargs>, 'schedule': [[date, depth], ...]}"""
    if spec is None:
        return None
    kw = {k: copy.deepcopy(v) for k, v in spec.items() if k not in ("method", "schedule")}
    if "schedule" in spec and spec["schedule"] is not None:
        sched = spec["schedule"]
        kw["Schedule"] = pd.DataFrame({"Date": pd.to_datetime([s[0] for s in sched]),
                                       "Depth": [float(s[1]) for s in sched]})
    return IrrigationManagement(irrigation_method=spec["method"], **kw)


def make_gw(spec):
    if spec is None:
        return None
    return GroundWater(water_table="Y", method=spec.get("method", "Constant"),
                       dates=list(spec["dates"]), values=list(spec["values"]))


def build_model(cfg):
    """cfg keys: crop, planting, crop_kw, soil (spec), iwc, irr, field, fallow, gw, wx,
    start, end, off_season.  Returns a fresh AquaCropModel (nothing is shared)."""
    soil = make_soil(cfg["soil"])
    crop = Crop(cfg["crop"], planting_date=cfg["planting"], **cfg.get("crop_kw", {}))
    iwc = make_iwc(cfg.get("iwc", "FC"), soil.nLayer, soil)
    kwargs = {}
    if cfg.get("irr") is not None:
        kwargs["irrigation_management"] = make_irr(cfg["irr"])
    if cfg.get("field") is not None:
        kwargs["field_management"] = FieldMngt(**cfg["field"])
    if cfg.get("fallow") is not None:
        kwargs["fallow_field_management"] = FieldMngt(**cfg["fallow"])
    if cfg.get("gw") is not None:
        kwargs["groundwater"] = make_gw(cfg["gw"])
    return AquaCropModel(sim_start_time=cfg["start"], sim_end_time=cfg["end"],
                         weather_df=make_weather(cfg["wx"]), soil=soil, crop=crop,
                         initial_water_content=iwc, off_season=bool(cfg.get("off_season", False)),
                         **kwargs)


def table(x):
    """numpy view of an output table whether or not it was already turned into a DataFrame"""
    return x.values if hasattr(x, "values") else x


# --------------------------------------------------------------------------------------
# harness-side ledger (rebinding names in run_single_timestep / core namespaces)
# --------------------------------------------------------------------------------------
TRACE = {}
_ORIG = {}


def _storage(prof, th):
    return float(np.sum(1000.0 * prof.dz * np.asarray(th, dtype=float)))


def install_wrappers():
    if _ORIG:
        return
    for name in ("irrigation", "check_groundwater_table", "capillary_rise", "pre_irrigation",
                 "transpiration", "groundwater_inflow", "root_development"):
        _ORIG[name] = getattr(RSTS, name)
    _ORIG["check_model_is_finished"] = CORE.check_model_is_finished

    def w_irrigation(*a):
        TRACE["irr_args"] = dict(method=a[0], SMT=np.array(a[1], dtype=float), AppEff=a[2],
                                 MaxIrr=a[3], Interval=a[4], Schedule=a[5], depth=a[6],
                                 MaxIrrSeason=a[7], stage=a[8], IrrCum=a[9], Epot=a[10],
                                 Tpot=a[11], Zroot=a[12], th=np.array(a[13], dtype=float),
                                 dap=a[14], tsc=a[15], crop=a[16], prof=a[17], zTop=a[18],
                                 gs=a[19], rain=a[20], runoff=a[21])
        r = _ORIG["irrigation"](*a)
        TRACE["irr_ret"] = r
        return r

    def w_cgt(*a):
        r = _ORIG["check_groundwater_table"](*a)
        TRACE["fcadj"] = None if r[0] is None else np.array(r[0], dtype=float)
        TRACE["wt_in_soil"] = r[1]
        return r

    def w_cr(prof, nl, fs, cond, fluxout, wt):
        b = np.array(cond.th, dtype=float)
        r = _ORIG["capillary_rise"](prof, nl, fs, cond, fluxout, wt)
        a_ = np.array(r[0].th, dtype=float)
        TRACE["cr_before"] = b
        TRACE["cr_after"] = a_
        TRACE["cr_act"] = _storage(prof, a_) - _storage(prof, b)
        TRACE["cr_rep"] = r[1]
        TRACE["cr_fcadj"] = np.array(r[0].th_fc_Adj, dtype=float)
        return r

    def w_pre(*a):
        r = _ORIG["pre_irrigation"](*a)
        TRACE["preirr"] = r[1]
        return r

    def w_tr(*a):
        r = _ORIG["transpiration"](*a)
        TRACE["irrnet"] = r[4]
        return r

    def w_gwin(prof, cond):
        r = _ORIG["groundwater_inflow"](prof, cond)
        TRACE["gwin"] = r[1]
        return r

    def w_root(*a):
        r = _ORIG["root_development"](*a)
        TRACE["zroot_in"] = a[3]
        return r

    def w_fin(*a):
        TRACE["harvest_flag"] = a[5]
        return _ORIG["check_model_is_finished"](*a)

    RSTS.irrigation = w_irrigation
    RSTS.check_groundwater_table = w_cgt
    RSTS.capillary_rise = w_cr
    RSTS.pre_irrigation = w_pre
    RSTS.transpiration = w_tr
    RSTS.groundwater_inflow = w_gwin
    RSTS.root_development = w_root
    CORE.check_model_is_finished = w_fin


# --------------------------------------------------------------------------------------
# mechanism-level description of a configuration (for signatures)
# --------------------------------------------------------------------------------------
def iwc_label(iwc):
    return iwc if isinstance(iwc, str) else str(iwc[0]) + (str(iwc[1]) if iwc[0] == "Pct" else "")


def mech(cfg):
    opts = []
    f = cfg.get("field") or {}
    fa = cfg.get("fallow") or {}
    if f.get("bunds"):
        opts.append("bunds")
    if fa.get("bunds") and not f.get("bunds"):
        opts.append("fallowbunds")
    if f.get("mulches") or fa.get("mulches"):
        opts.append("mulch")
    if f.get("sr_inhb"):
        opts.append("srinhb")
    if f.get("curve_number_adj_pct"):
        opts.append("cnadj")
    gw = cfg.get("gw")
    if gw is not None:
        opts.append("gw=" + gw.get("label", gw.get("method", "Constant")))
    if cfg.get("iwc", "FC") != "FC":
        opts.append("iwc=" + iwc_label(cfg["iwc"]))
    if cfg.get("off_season"):
        opts.append("offseason")
    if (cfg.get("crop_kw") or {}).get("harvest_date"):
        opts.append("harvest=" + cfg["crop_kw"]["harvest_date"])
    irr = cfg.get("irr") or {"method": 0}
    return "%s|%s|irr=%d|%s" % (cfg["crop"], cfg["soil_label"], irr["method"],
                                "+".join(opts) if opts else "plain")


# --------------------------------------------------------------------------------------
# the monitor
# --------------------------------------------------------------------------------------
WF = {n: i for i, n in enumerate(
    "time_step_counter season_counter dap Wr z_gw surface_storage IrrDay Infl Runoff DeepPerc "
    "CR GwIn Es EsPot Tr TrPot".split())}
CG = {n: i for i, n in enumerate(
    "time_step_counter season_counter dap gdd gdd_cum z_root canopy_cover canopy_cover_ns biomass "
    "biomass_ns harvest_index harvest_index_adj DryYield FreshYield YieldPot".split())}


class Fails:
    """per configuration: first occurrence + count + worst magnitude per clause"""

    def __init__(self):
        self.d = {}

    def add(self, clause, text, detail, mag=0.0, day=None, tag=None):
        """tag: recognised mechanism (the factors that determine this failure); None -> the full
        configuration description is used in the signature"""
        key = (clause, tag)
        e = self.d.get(key)
        if e is None:
            self.d[key] = {"clause": clause, "tag": tag, "text": text, "first": detail, "first_day": day,
                           "days": 1, "worst": float(abs(mag))}
        else:
            e["days"] += 1
            if abs(mag) > e["worst"]:
                e["worst"] = float(abs(mag))
                e["worst_detail"] = detail


def expected_zgw(cfg, time_span):
    gw = cfg.get("gw")
    if gw is None:
        return None
    dates = pd.to_datetime(list(gw["dates"]))
    vals = [float(v) for v in gw["values"]]
    n = len(time_span)
    if len(dates) == 1:
        return np.full(n, vals[0])
    out = np.full(n, np.nan)
    if gw.get("method", "Constant") == "Constant":
        order = sorted(range(len(dates)), key=lambda j: dates[j])        # observations may be listed in any order
        for i, d in enumerate(time_span):
            k = [j for j in order if dates[j] <= d]
            out[i] = vals[k[-1]] if k else vals[order[0]]
        return out
    # Variable: linear interpolation in time between observations (observations lie on days of
    # the window, first/last day given)
    pos = np.array([(d - time_span[0]).days for d in dates], dtype=float)
    order = np.argsort(pos)
    return np.interp(np.arange(n, dtype=float), pos[order], np.array(vals)[order])


def run_config(cfg, prop, max_days=None):
    """Step one configuration, evaluate the clauses of `prop`. Returns a plain dict."""
    install_wrappers()
    res = {"idx": cfg.get("idx", -1), "mech": mech(cfg), "days": 0, "inseason_days": 0,
           "nontrivial": False, "fails": [], "residue_max": 0.0, "cr_gap_max": 0.0,
           "model_exception": None, "harness_exception": None, "seasons_harvested": 0}
    F = Fails()
    try:
        model = build_model(cfg)
        model._initialize()
    except Exception as e:  # invalid configuration for the model: not this property's business
        res["model_exception"] = "init: %s: %s" % (type(e).__name__, str(e)[:200])
        return res
    try:
        pr = model._param_struct.Soil.Profile
        th_i = np.asarray(model._init_cond.th, dtype=float)
        if np.any(th_i < pr.th_wp - 1e-12) or np.any(th_i > pr.th_s + 1e-12):
            res["harness_exception"] = "lattice: initial water content outside [th_wp, th_s]; configuration not used"
            return res
        _monitor(cfg, prop, model, F, res, max_days)
    except Exception as e:
        res["harness_exception"] = "%s: %s | %s" % (type(e).__name__, str(e)[:300],
                                                    traceback.format_exc()[-600:])
    res["fails"] = list(F.d.values())
    return res


def _monitor(cfg, prop, model, F, res, max_days):
    ps = model._param_struct
    cs = model._clock_struct
    prof = ps.Soil.Profile
    ncomp = len(prof.dz)
    zsoil = float(np.sum(prof.dz))
    dz = np.array(prof.dz, dtype=float)
    th_s = np.array(prof.th_s, dtype=float)
    th_dry = np.array(prof.th_dry, dtype=float)
    th_fc = np.array(prof.th_fc, dtype=float)
    zmid = np.array(prof.zMid, dtype=float)
    th_init = np.array(model._init_cond.th, dtype=float)      # configured initial water content
    ss_init = float(model._init_cond.surface_storage)
    off = bool(cs.sim_off_season)
    weather = model._weather
    time_span = cs.time_span
    irr_user = cfg.get("irr") or {"method": 0}
    zgw_exp = expected_zgw(cfg, time_span) if prop == "C19" else None
    sched_exp = None
    if irr_user["method"] == 3:
        sched_exp = {}
        for d, v in (irr_user.get("schedule") or []):
            sched_exp[pd.Timestamp(d)] = float(v)

    # end-of-previous-day values
    prev_th_end = None
    prev_ss_end = None
    prev_season = None
    prev_cg = None
    prev_gs = False
    irr_sum = {}           # season -> sum IrrDay
    last_inseason_row = {}  # season -> last row simulated as in-season
    harvested = []         # seasons whose harvest flag was observed
    touched = False
    nontriv = False
    ndays = 0
    gdd_sum = 0.0

    while not cs.model_is_finished:
        tsc = int(cs.time_step_counter)
        season = int(cs.season_counter)
        cond = model._init_cond
        th0 = np.array(cond.th, dtype=float)
        ss0 = float(cond.surface_storage)
        date = time_span[tsc]
        TRACE.clear()

        # ---- C01 carry-over between consecutive simulated days
        if prop == "C01" and prev_th_end is not None:
            reset_expected = (season != prev_season) and (not off)
            if reset_expected:
                if not np.array_equal(th0, th_init):
                    j = int(np.argmax(np.abs(th0 - th_init)))
                    F.add("C01.reset_restores_initial_wc",
                          "documented reset to the configured initial water content at a season "
                          "start (off-season not simulated)",
                          "season %d start %s: th[%d]=%.6f but configured initial %.6f (max over "
                          "compartments)" % (season, date.date(), j, th0[j], th_init[j]),
                          float(np.max(np.abs(th0 - th_init)) * 1000 * dz[j]), str(date.date()),
                          tag=("irr=4|iwc=%s|stored-initial-wc-raised-by-pre-irrigation" % iwc_label(cfg.get("iwc", "FC"))
                               if (int(ps.IrrMngt.irrigation_method) == 4 and np.all(th0 >= th_init)) else None))
                fm = ps.FieldMngt
                ss_exp = min(fm.bund_water, fm.z_bund) if (fm.bunds and fm.z_bund > 0.001) else 0.0
                if ss0 != ss_exp:
                    F.add("C01.reset_restores_initial_ponding", "reset of ponding at season start",
                          "season %d start: surface_storage=%.6f expected %.6f" % (season, ss0, ss_exp),
                          ss0 - ss_exp, str(date.date()))
            else:
                if not np.array_equal(th0, prev_th_end) or ss0 != prev_ss_end:
                    dmm = float(np.sum(1000 * dz * (th0 - prev_th_end)) + (ss0 - prev_ss_end))
                    F.add("C01.carry_over_unchanged",
                          "between consecutive simulated days stored water is carried over unchanged",
                          "%s: storage entering the day differs from the end of the previous "
                          "simulated day by %.3e mm" % (date.date(), dmm), dmm, str(date.date()))

        try:
            model.run_model(num_steps=1, initialize_model=False)
        except Exception as e:   # the model itself raised: C16's business, not this property's
            res["model_exception"] = "step %s (%s): %s: %s" % (tsc, date.date(), type(e).__name__, str(e)[:200])
            break
        ndays += 1

        wf = table(model._outputs.water_flux)[tsc]
        ws = table(model._outputs.water_storage)[tsc]
        cg = table(model._outputs.crop_growth)[tsc]
        gs = bool(ws[1])
        th1 = np.array(ws[3:], dtype=float)
        ss1 = float(wf[WF["surface_storage"]])
        P = float(weather[tsc][2])
        et0 = float(weather[tsc][3])
        if gs:
            res["inseason_days"] += 1
        irrm = ps.IrrMngt if season >= 0 else ps.FallowIrrMngt
        method = int(irrm.irrigation_method)
        fm = ps.FieldMngt if gs else ps.FallowFieldMngt
        bunds_eff = bool(fm.bunds) and float(fm.z_bund) > 0.001
        crop = ps.Seasonal_Crop_List[season] if season >= 0 else ps.Fallow_Crop
        IrrDay = float(wf[WF["IrrDay"]])
        Infl = float(wf[WF["Infl"]])
        Runoff = float(wf[WF["Runoff"]])
        DeepPerc = float(wf[WF["DeepPerc"]])
        CR = float(wf[WF["CR"]])
        GwIn = float(wf[WF["GwIn"]])
        Es = float(wf[WF["Es"]])
        EsPot = float(wf[WF["EsPot"]])
        Tr = float(wf[WF["Tr"]])
        TrPot = float(wf[WF["TrPot"]])
        dstr = str(date.date())
        if gs:
            irr_sum[season] = irr_sum.get(season, 0.0) + IrrDay
            last_inseason_row[season] = tsc
        if TRACE.get("harvest_flag") and (season not in harvested) and season >= 0:
            harvested.append(season)

        # downstream of roots leaving [Zmin, Zmax] on a soil with a restrictive layer (C05's clause)
        roots_out = None
        if gs and np.any(prof.Penetrability < 100) and float(cg[CG["z_root"]]) < float(crop.Zmin) - 1e-9:
            roots_out = "z_root<Zmin on penetrability<100 soil"

        # dense canopy: adjusted canopy cover 1.72c - c^2 + 0.3c^3 exceeds 1 (c > 0.966) -> negative EsPot
        dense = None
        if gs:
            try:
                ccadj = float(model._init_cond.canopy_cover_adj)
            except Exception:
                ccadj = 0.0
            if ccadj > 1.0 or float(cg[CG["canopy_cover"]]) > 0.966:
                dense = "canopy_cover_adj>1 (canopy cover > 0.966)"

        # ------------------------------------------------------------------ C01
        if prop == "C01":
            S0 = float(np.sum(1000.0 * dz * th0))
            S1 = float(np.sum(1000.0 * dz * th1))
            netadd = IrrDay if (method == 4 and gs) else 0.0
            cr_act = float(TRACE.get("cr_act", 0.0))
            lhs = (S1 + ss1) - (S0 + ss0)
            rhs = Infl + netadd + cr_act + GwIn - DeepPerc - Es - Tr
            resid = lhs - rhs
            if abs(resid) > res["residue_max"] and abs(resid) <= 1e-6:
                res["residue_max"] = abs(resid)
            if abs(resid) > 1e-6:
                F.add("C01.daily_closure",
                      "d(storage+ponding) == Infl + netIrr + CR + GwIn - DeepPerc - Es - Tr (1e-6 mm)",
                      "%s dap=%d: dS=%.9f rhs=%.9f residual=%.3e mm (Infl=%.4f IrrDay=%.4f CRact=%.4f "
                      "GwIn=%.4f DP=%.4f Es=%.4f Tr=%.4f ss0=%.3f ss1=%.3f)"
                      % (dstr, int(ws[2]), lhs, rhs, resid, Infl, IrrDay, cr_act, GwIn, DeepPerc,
                         Es, Tr, ss0, ss1), resid, dstr)
            gap = abs(CR - cr_act)
            res["cr_gap_max"] = max(res["cr_gap_max"], gap)
            if gap > 0.05 * zsoil + 1e-9:
                F.add("C01.reported_CR_within_rounding",
                      "reported capillary rise differs from water added by <= 0.05 mm per metre of profile",
                      "%s: CR reported %.6f, added %.6f, gap %.6f > %.6f" % (dstr, CR, cr_act, gap,
                                                                            0.05 * zsoil), gap, dstr)
            if (Infl != 0 or DeepPerc != 0 or Tr != 0) and Es != 0:
                nontriv = True

        # ------------------------------------------------------------------ C02
        elif prop == "C02":
            irr_app = IrrDay if (method != 4 and gs) else 0.0
            eff = float(irrm.AppEff) / 100.0
            inp = P + eff * irr_app
            tol = 1e-9 * (1.0 + abs(inp) + ss0)
            if abs(inp - (Infl + Runoff)) > tol:
                F.add("C02.partition_sum", "rain + eff*irrigation == Infl + Runoff",
                      "%s: P=%.4f Irr=%.4f eff=%.2f Infl=%.6f Runoff=%.6f diff=%.3e ponded0=%.3f"
                      % (dstr, P, irr_app, eff, Infl, Runoff, inp - Infl - Runoff, ss0),
                      inp - Infl - Runoff, dstr)
            if Runoff < -tol:
                F.add("C02.runoff_nonneg", "Runoff >= 0", "%s: Runoff=%.6e" % (dstr, Runoff), Runoff, dstr)
            if Runoff > inp + ss0 + tol:
                F.add("C02.runoff_upper", "Runoff <= rain + applied irrigation + ponded at start",
                      "%s: Runoff=%.6f > P %.4f + eff*Irr %.4f + ponded %.4f" % (dstr, Runoff, P,
                                                                             eff * irr_app, ss0),
                      Runoff - inp - ss0, dstr)
            if Infl < -tol:
                if bunds_eff or ss0 <= 0:
                    F.add("C02.negative_infl_only_on_bund_removal",
                          "Infl < 0 only on the day bunds are removed with water ponded",
                          "%s: Infl=%.6f bunds_active=%s ponded0=%.4f" % (dstr, Infl, bunds_eff, ss0),
                          Infl, dstr)
                elif Infl < -ss0 - tol:
                    F.add("C02.negative_infl_bounded_by_ponding", "Infl >= -ponded water",
                          "%s: Infl=%.6f ponded0=%.4f" % (dstr, Infl, ss0), Infl + ss0, dstr)
            if P == 0 and irr_app == 0 and ss0 == 0 and (Infl != 0 or Runoff != 0):
                F.add("C02.zero_when_nothing_to_partition",
                      "no rain, no irrigation, nothing ponded => Infl == Runoff == 0",
                      "%s: Infl=%.6e Runoff=%.6e" % (dstr, Infl, Runoff), max(abs(Infl), abs(Runoff)), dstr)
            if Runoff > 0:
                nontriv = True

        # ------------------------------------------------------------------ C03
        elif prop == "C03":
            tol = 1e-9
            lo = th1 - th_dry
            hi = th1 - th_s
            if np.any(lo < -tol):
                j = int(np.argmin(lo))
                F.add("C03.th_ge_air_dry", "th >= th_dry for every compartment",
                      "%s dap=%d: th[%d]=%.8f < th_dry %.8f" % (dstr, int(ws[2]), j, th1[j], th_dry[j]),
                      float(lo[j]), dstr, tag=roots_out)
            if np.any(hi > tol):
                j = int(np.argmax(hi))
                F.add("C03.th_le_saturation", "th <= th_s for every compartment",
                      "%s dap=%d: th[%d]=%.8f > th_s %.8f" % (dstr, int(ws[2]), j, th1[j], th_s[j]),
                      float(hi[j]), dstr, tag=roots_out)
            if ss1 < 0:
                F.add("C03.ponding_nonneg", "surface_storage >= 0", "%s: %.6e" % (dstr, ss1), ss1, dstr)
            zb = float(fm.z_bund) if bunds_eff else 0.0
            if ss1 > zb + 1e-9:
                F.add("C03.ponding_le_bund" if bunds_eff else "C03.ponding_zero_without_bunds",
                      "surface_storage <= z_bund (0 without bunds)",
                      "%s: surface_storage=%.6f bund height=%.3f (bunds active=%s, Es=%.4f)" % (dstr, ss1, zb, bunds_eff, Es),
                      ss1 - zb, dstr, tag=(dense + "|negative Es added to ponding") if (dense and Es < 0) else None)
            if float(wf[WF["Wr"]]) < 0:
                F.add("C03.Wr_nonneg", "Wr >= 0", "%s: Wr=%.6e" % (dstr, wf[WF["Wr"]]), wf[WF["Wr"]], dstr)
            if ss1 > 0 or np.any(np.abs(hi) < 1e-9) or np.any(np.abs(lo) < 1e-6):
                nontriv = True

        # ------------------------------------------------------------------ C04
        elif prop == "C04":
            tol = 1e-9
            lowirr = -0.01 * ncomp if method == 4 else 0.0
            if IrrDay < lowirr - 1e-12:
                F.add("C04.IrrDay_nonneg", "irrigation >= 0 (net irrigation within 0.01 mm/compartment)",
                      "%s: IrrDay=%.6f (method %d)" % (dstr, IrrDay, method), IrrDay, dstr)
            for nm, v in (("Runoff", Runoff), ("DeepPerc", DeepPerc), ("CR", CR), ("GwIn", GwIn),
                          ("Es", Es), ("EsPot", EsPot), ("Tr", Tr), ("TrPot", TrPot)):
                if v < -1e-12:
                    F.add("C04.%s_nonneg" % nm, "%s >= 0" % nm,
                          "%s dap=%d: %s=%.6e (canopy_cover=%.4f)" % (dstr, int(ws[2]), nm, v,
                                                                    cg[CG["canopy_cover"]]), v, dstr,
                          tag=(dense if (nm in ("EsPot", "Es") and dense) else roots_out))
            if Es > EsPot + tol:
                F.add("C04.Es_le_EsPot", "Es <= EsPot",
                      "%s dap=%d: Es=%.6f EsPot=%.6f (canopy_cover=%.4f)" % (dstr, int(ws[2]), Es, EsPot,
                                                                            cg[CG["canopy_cover"]]),
                      Es - EsPot, dstr,
                      tag=dense)
            if Tr > TrPot + tol:
                F.add("C04.Tr_le_TrPot", "Tr <= TrPot", "%s: Tr=%.6f TrPot=%.6f" % (dstr, Tr, TrPot),
                      Tr - TrPot, dstr, tag=roots_out)
            if not gs and (Tr != 0 or TrPot != 0 or IrrDay != 0):
                F.add("C04.zero_out_of_season", "out of season Tr = TrPot = IrrDay = 0",
                      "%s: Tr=%.4e TrPot=%.4e IrrDay=%.4e" % (dstr, Tr, TrPot, IrrDay),
                      max(abs(Tr), abs(TrPot), abs(IrrDay)), dstr)
            if gs and Tr > 0 and Es > 0:
                nontriv = True

        # ------------------------------------------------------------------ C05
        elif prop == "C05":
            _check_c05(F, cg, wf, ws, gs, crop, ps, prev_cg, prev_gs, prev_season, season, dstr,
                       weather[tsc], prof)
            if gs and cg[CG["canopy_cover"]] > 0:
                nontriv = True

        # ------------------------------------------------------------------ C06
        elif prop == "C06":
            if gs:
                B1 = float(cg[CG["biomass"]])
                B0 = float(prev_cg[CG["biomass"]]) if (prev_cg is not None and prev_gs and prev_season == season) else 0.0
                dB = B1 - B0
                full = float(crop.WP) * float(crop.fCO2) * (Tr / et0)
                fac = min(1.0, float(crop.WPy) / 100.0)
                facx = max(1.0, float(crop.WPy) / 100.0)
                tolb = 1e-9 * (1.0 + abs(B1))
                if dB < full * fac - tolb or dB > full * facx + tolb:
                    F.add("C06.biomass_gain", "biomass gain == WP*fCO2*Tr/ET0 scaled down by no more than WPy",
                          "%s dap=%d: dB=%.8f expected in [%.8f, %.8f]" % (dstr, int(ws[2]), dB, full * fac,
                                                                       full * facx), dB - full, dstr)
                dy = (B1 / 100) * float(cg[CG["harvest_index_adj"]])
                if float(cg[CG["DryYield"]]) != dy:
                    F.add("C06.dry_yield", "DryYield == biomass/100 * HIadj",
                          "%s: DryYield=%.10f vs %.10f" % (dstr, cg[CG["DryYield"]], dy),
                          cg[CG["DryYield"]] - dy, dstr)
                fy = float(cg[CG["DryYield"]]) / (float(crop.YldWC) / 100) if float(crop.YldWC) != 0 else float("nan")   # YldWC = 0: known catalogue defect (C16)
                if float(crop.YldWC) != 0 and float(cg[CG["FreshYield"]]) != fy:
                    F.add("C06.fresh_yield", "FreshYield == DryYield / (YldWC/100)",
                          "%s: FreshYield=%.10f vs %.10f" % (dstr, cg[CG["FreshYield"]], fy),
                          cg[CG["FreshYield"]] - fy, dstr)
                yp = (float(cg[CG["biomass_ns"]]) / 100) * float(cg[CG["harvest_index"]])
                if float(cg[CG["YieldPot"]]) != yp:
                    F.add("C06.potential_yield", "YieldPot == biomass_ns/100 * harvest_index",
                          "%s: YieldPot=%.10f vs %.10f" % (dstr, cg[CG["YieldPot"]], yp),
                          cg[CG["YieldPot"]] - yp, dstr)

        # ------------------------------------------------------------------ C13
        elif prop == "C13":
            nt = _check_c13(F, TRACE, wf, ws, gs, method, irrm, IrrDay, ncomp, date, dstr, sched_exp,
                            irr_sum.get(season, 0.0), season)
            nontriv = nontriv or nt

        # ------------------------------------------------------------------ C19
        elif prop == "C19":
            nt = _check_c19(F, TRACE, ps, prof, wf, th1, th_s, th_fc, zmid, CR, GwIn, zgw_exp, tsc, dstr)
            nontriv = nontriv or nt

        prev_th_end, prev_ss_end, prev_season = th1, ss1, season
        prev_cg, prev_gs = np.array(cg, dtype=float), gs
        if max_days is not None and ndays >= max_days:
            break

    res["days"] = ndays
    res["seasons_harvested"] = len(harvested)

    # ---------------------------------------------------------------------- end of run
    if prop == "C06" and cs.model_is_finished:
        fs = model._outputs.final_stats
        wfa = table(model._outputs.water_flux)
        cga = table(model._outputs.crop_growth)
        seasons_in_table = [int(x) if x == x else None for x in list(fs["Season"])]      # a row without a season number (NaN) is a row too many
        if seasons_in_table != harvested:
            F.add("C06.one_row_per_harvested_season_in_order",
                  "exactly one summary row per season that reached harvest, in season order",
                  "summary seasons %s, seasons whose harvest was observed %s" % (seasons_in_table, harvested),
                  abs(len(seasons_in_table) - len(harvested)) + 1.0)
        for ridx in range(len(fs)):
            row = fs.iloc[ridx]
            if row["Season"] != row["Season"]:
                continue
            k = int(row["Season"])
            h = int(row["Harvest Date (Step)"])
            day = cga[h]
            for col, nm in (("Dry yield (tonne/ha)", "DryYield"), ("Fresh yield (tonne/ha)", "FreshYield"),
                            ("Yield potential (tonne/ha)", "YieldPot")):
                a_, b_ = float(row[col]), float(day[CG[nm]])
                if a_ != b_ and not (a_ != a_ and b_ != b_):      # nan repeats nan (non-finite values are the business of C05/C16, not of this clause)
                    F.add("C06.summary_repeats_harvest_day." + nm, "summary row repeats the harvest-day value",
                          "season %d step %d: summary %s=%.10f daily %.10f" % (k, h, nm, row[col], day[CG[nm]]),
                          float(row[col]) - float(day[CG[nm]]))
            if int(day[CG["season_counter"]]) != k or int(day[0]) != h:
                F.add("C06.summary_harvest_step", "summary harvest step is a row of that season",
                      "season %d step %d: daily row has step %d season %d" % (k, h, int(day[0]),
                                                                         int(day[CG["season_counter"]])), 1.0)
            if pd.Timestamp(row["Harvest Date (YYYY/MM/DD)"]) != time_span[h + 1]:
                F.add("C06.summary_harvest_date", "summary date is the date following the harvest step",
                      "season %d: %s vs %s" % (k, row["Harvest Date (YYYY/MM/DD)"], time_span[h + 1]), 1.0)
            s_irr = irr_sum.get(k, 0.0)
            if abs(float(row["Seasonal irrigation (mm)"]) - s_irr) > 1e-9 * (1 + abs(s_irr)):
                F.add("C06.seasonal_irrigation_is_sum_of_daily",
                      "seasonal irrigation == sum of the daily irrigation column over the season",
                      "season %d: summary %.6f (written at step %d), sum of IrrDay %.6f, last in-season row of the season %d"
                      % (k, row["Seasonal irrigation (mm)"], h, s_irr, last_inseason_row.get(k, -1)),
                      float(row["Seasonal irrigation (mm)"]) - s_irr,
                      tag=("in-season day simulated after the summary row (season ended by the harvest date, off-season "
                           "simulated)|irr=%d" % int(ps.IrrMngt.irrigation_method))
                      if (off and last_inseason_row.get(k, -1) > h) else None)
        nontriv = len(fs) > 0
    res["nontrivial"] = bool(nontriv)


# ------------------------------------------------------------------------------ C05 clauses
def _check_c05(F, cg, wf, ws, gs, crop, ps, prev_cg, prev_gs, prev_season, season, dstr, wrow, prof):
    tol = 1e-12
    roottag = ("penetrability<100|gw=%d" % int(ps.water_table == 1)) if np.any(prof.Penetrability < 100) else None
    dap = int(cg[CG["dap"]])
    if not np.all(np.isfinite(cg)):
        bad = [n for n, i in CG.items() if not np.isfinite(cg[i])]
        F.add("C05.finite", "all crop outputs finite", "%s dap=%d: non-finite %s" % (dstr, dap, bad), 1.0, dstr)
        return
    if not gs:
        for nm in ("dap", "canopy_cover", "biomass", "DryYield", "FreshYield"):
            if cg[CG[nm]] != 0:
                F.add("C05.zero_out_of_season." + nm, "outside a growing season canopy, biomass, yield and dap are zero",
                      "%s: %s=%.6e" % (dstr, nm, cg[CG[nm]]), cg[CG[nm]], dstr)
        for nm in ("canopy_cover_ns", "biomass_ns", "YieldPot"):
            if cg[CG[nm]] != 0:
                F.add("C05.zero_out_of_season_potential." + nm,
                      "outside a growing season (no-stress) canopy, biomass, yield are zero",
                      "%s: %s=%.6e" % (dstr, nm, cg[CG[nm]]), cg[CG[nm]], dstr)
        return
    cc = float(cg[CG["canopy_cover"]])
    ccns = float(cg[CG["canopy_cover_ns"]])
    if cc < 0 or cc > float(crop.CCx) + tol:
        F.add("C05.canopy_in_0_CCx", "0 <= canopy cover <= CCx",
              "%s dap=%d: CC=%.8f CCx=%.4f" % (dstr, dap, cc, crop.CCx), cc - crop.CCx, dstr)
    if cc > ccns + tol:
        F.add("C05.canopy_le_nostress", "canopy cover <= no-stress canopy cover",
              "%s dap=%d: CC=%.8f CC_ns=%.8f" % (dstr, dap, cc, ccns), cc - ccns, dstr)
    zr = float(cg[CG["z_root"]])
    zmin, zmax = float(crop.Zmin), float(crop.Zmax)
    if zr < zmin - 1e-9 or zr > zmax + 1e-9:
        F.add("C05.zroot_in_Zmin_Zmax", "Zmin <= z_root <= Zmax",
              "%s dap=%d: z_root=%.5f Zmin=%.2f Zmax=%.2f" % (dstr, dap, zr, zmin, zmax),
              max(zmin - zr, zr - zmax), dstr, tag=roottag)
    wt = ps.water_table == 1
    zgw = float(wf[WF["z_gw"]])
    if wt and zgw > 0 and zr > zgw + 1e-9 and not (zgw < zmin):
        F.add("C05.zroot_not_below_water_table", "z_root never below a present water table (unless table above Zmin)",
              "%s dap=%d: z_root=%.4f z_gw=%.4f" % (dstr, dap, zr, zgw), zr - zgw, dstr)
    same = prev_cg is not None and prev_gs and prev_season == season and dap > 1
    if same:
        zr0 = float(prev_cg[CG["z_root"]])
        forced = wt and zgw > 0 and abs(zr - max(zgw, zmin)) < 1e-9
        if zr < zr0 - 1e-9 and not forced:
            F.add("C05.zroot_nondecreasing", "z_root never shrinks except when a rising water table forces it",
                  "%s dap=%d: z_root %.6f -> %.6f" % (dstr, dap, zr0, zr), zr0 - zr, dstr, tag=roottag)
        for nm in ("harvest_index", "biomass", "gdd_cum"):
            if float(cg[CG[nm]]) < float(prev_cg[CG[nm]]) - tol * (1 + abs(prev_cg[CG[nm]])):
                F.add("C05.%s_nondecreasing" % nm, "%s never decreases within a season" % nm,
                      "%s dap=%d: %.10f -> %.10f" % (dstr, dap, prev_cg[CG[nm]], cg[CG[nm]]),
                      float(prev_cg[CG[nm]]) - float(cg[CG[nm]]), dstr)
        if abs(float(cg[CG["gdd_cum"]]) - (float(prev_cg[CG["gdd_cum"]]) + float(cg[CG["gdd"]]))) > 1e-9:
            F.add("C05.gdd_adds_up", "daily degree days add up to the reported cumulative value",
                  "%s dap=%d: gdd_cum %.6f != prev %.6f + gdd %.6f" % (dstr, dap, cg[CG["gdd_cum"]],
                                                                     prev_cg[CG["gdd_cum"]], cg[CG["gdd"]]), 1.0, dstr)
    elif dap == 1:
        if abs(float(cg[CG["gdd_cum"]]) - float(cg[CG["gdd"]])) > 1e-9:
            F.add("C05.gdd_adds_up", "daily degree days add up to the reported cumulative value",
                  "%s dap=1: gdd_cum %.6f != gdd %.6f" % (dstr, cg[CG["gdd_cum"]], cg[CG["gdd"]]), 1.0, dstr)
    hi = float(cg[CG["harvest_index"]])
    hia = float(cg[CG["harvest_index_adj"]])
    if hi > float(crop.HI0) + tol:
        F.add("C05.HI_le_HI0", "harvest index <= HI0", "%s dap=%d: HI=%.8f HI0=%.4f" % (dstr, dap, hi, crop.HI0),
              hi - crop.HI0, dstr)
    if hia > float(crop.HI0) * (1 + float(crop.dHI0) / 100) + tol:
        F.add("C05.HIadj_le_HI0_plus_dHI0", "HIadj <= HI0*(1+dHI0/100)",
              "%s dap=%d: HIadj=%.8f cap=%.8f" % (dstr, dap, hia, crop.HI0 * (1 + crop.dHI0 / 100)),
              hia - crop.HI0 * (1 + crop.dHI0 / 100), dstr)
    g = float(cg[CG["gdd"]])
    if g < 0 or g > float(crop.Tupp) - float(crop.Tbase) + tol:
        F.add("C05.gdd_range", "0 <= gdd <= Tupp - Tbase",
              "%s: gdd=%.4f Tupp-Tbase=%.2f (Tmin %.1f Tmax %.1f)" % (dstr, g, crop.Tupp - crop.Tbase,
                                                                   wrow[0], wrow[1]), g, dstr)


# ------------------------------------------------------------------------------ C13 clauses
def _check_c13(F, T, wf, ws, gs, method, irrm, IrrDay, ncomp, date, dstr, sched_exp, season_sum, season):
    a = T.get("irr_args")
    ret = T.get("irr_ret")
    if a is None or ret is None:
        return False
    Irr = float(ret[3])
    tol = 1e-9
    nt = False
    if not gs:
        if Irr != 0 or IrrDay != 0:
            F.add("C13.no_irrigation_out_of_season", "no irrigation outside a growing season",
                  "%s: Irr=%.4f IrrDay=%.4f" % (dstr, Irr, IrrDay), max(abs(Irr), abs(IrrDay)), dstr)
        return False
    maxirr = float(a["MaxIrr"])
    maxseason = float(a["MaxIrrSeason"])
    cum_in = float(a["IrrCum"])

    def cap(x):
        return min(x, max(0.0, maxseason - cum_in))

    if method in (0, 4) and Irr != 0:
        F.add("C13.no_surface_irrigation_method_%d" % method, "rainfed / net mode apply no surface irrigation",
              "%s: Irr=%.4f" % (dstr, Irr), Irr, dstr)
    if Irr < 0 or Irr > maxirr + tol:
        F.add("C13.daily_max", "0 <= single application <= MaxIrr",
              "%s: Irr=%.4f MaxIrr=%.2f (method %d)" % (dstr, Irr, maxirr, method), Irr - maxirr, dstr)
    if method != 4:
        if season_sum > maxseason + 1e-9 * (1 + maxseason):
            F.add("C13.seasonal_max", "season total <= MaxIrrSeason",
                  "%s: season total %.4f > MaxIrrSeason %.2f (method %d)" % (dstr, season_sum, maxseason, method),
                  season_sum - maxseason, dstr)
        if IrrDay != Irr:
            F.add("C13.reported_equals_applied", "reported IrrDay == applied depth",
                  "%s: IrrDay=%.6f Irr=%.6f" % (dstr, IrrDay, Irr), IrrDay - Irr, dstr)
    dap = int(a["dap"])
    if method == 2:
        k = int(a["Interval"])
        if Irr > 0 and (dap - 1) % k != 0:
            F.add("C13.interval_days_only", "fixed-interval irrigation only on days 1, 1+k, 1+2k, ...",
                  "%s: dap=%d interval=%d Irr=%.4f" % (dstr, dap, k, Irr), Irr, dstr)
    if method == 3:
        want = cap(min(maxirr, sched_exp.get(pd.Timestamp(date), 0.0)))
        if abs(Irr - want) > tol:
            F.add("C13.schedule_exact", "scheduled depth (capped) on scheduled dates, nothing on other dates",
                  "%s: Irr=%.4f expected %.4f (scheduled %.2f, MaxIrr %.2f, season so far %.2f / %.2f)"
                  % (dstr, Irr, want, sched_exp.get(pd.Timestamp(date), 0.0), maxirr, cum_in, maxseason),
                  Irr - want, dstr)
    if method == 5:
        want = cap(max(0.0, min(maxirr, float(a["depth"]))))
        if abs(Irr - want) > tol:
            F.add("C13.constant_depth_every_day", "constant depth (capped) on every in-season day",
                  "%s: Irr=%.4f expected %.4f" % (dstr, Irr, want), Irr - want, dstr)
    if method == 1:
        crop = a["crop"]
        r = _rzw(a["prof"], float(a["Zroot"]), a["th"], a["zTop"], float(crop.Zmin), crop.Aer)
        Dr_rz, taw_rz, th_act, th_fcr = r[2], r[4], r[5], r[7]
        abv = (th_act - th_fcr) * 1000 * max(a["Zroot"], crop.Zmin) if th_act > th_fcr else 0.0
        depl = Dr_rz + (a["Tpot"] + a["Epot"] - a["rain"] + a["runoff"] - abv)
        stage = 1 if dap == 1 else int(a["stage"])
        if stage < 1 or stage > 4:
            F.add("C13.smt_stage_index", "growth stage in 1..4 when the threshold is looked up",
                  "%s: dap=%d stage=%s" % (dstr, dap, a["stage"]), 1.0, dstr)
        else:
            thr = 1 - float(a["SMT"][stage - 1]) / 100
            if taw_rz > 0 and depl / taw_rz > thr:
                want = cap(min(maxirr, max(0.0, depl) * (2 - float(a["AppEff"]) / 100)))
            else:
                want = 0.0
            if abs(Irr - want) > 1e-9 * (1 + abs(want)):
                F.add("C13.smt_exact", "threshold irrigation exactly when depletion exceeds the stage's "
                                       "allowable depletion, refill adjusted for efficiency",
                      "%s dap=%d stage=%d: Irr=%.6f expected %.6f (depl %.4f taw %.4f thr %.3f)"
                      % (dstr, dap, stage, Irr, want, depl, taw_rz, thr), Irr - want, dstr)
    if method == 4:
        net = float(T.get("irrnet", 0.0)) + float(T.get("preirr", 0.0))
        if IrrDay != net:
            F.add("C13.net_reported", "net mode reports IrrNet + PreIrr",
                  "%s: IrrDay=%.6f IrrNet+PreIrr=%.6f" % (dstr, IrrDay, net), IrrDay - net, dstr)
        if IrrDay < -0.01 * ncomp:
            F.add("C13.net_requirement_nonneg", "net-irrigation requirement non-negative (0.01 mm/compartment)",
                  "%s: IrrDay=%.6f" % (dstr, IrrDay), IrrDay, dstr)
        if IrrDay != 0:
            nt = True
    if Irr > 0:
        nt = True
    return nt


# ------------------------------------------------------------------------------ C19 clauses
def _xmax(thfc):
    if thfc <= 0.1:
        return 1.0
    if thfc >= 0.3:
        return 2.0
    return math.exp((2 + 0.3 * (thfc - 0.1) / 0.2) * math.log(10)) / 100


def _check_c19(F, T, ps, prof, wf, th1, th_s, th_fc, zmid, CR, GwIn, zgw_exp, tsc, dstr):
    if ps.water_table != 1:
        if CR != 0 or GwIn != 0:
            F.add("C19.no_table_no_CR_GwIn", "without a water table CR and GwIn are zero",
                  "%s: CR=%.4e GwIn=%.4e" % (dstr, CR, GwIn), max(abs(CR), abs(GwIn)), dstr)
        return False
    zgw = float(wf[WF["z_gw"]])
    if zgw_exp is not None and abs(zgw - zgw_exp[tsc]) > 1e-9:
        F.add("C19.table_depth_follows_observations", "daily table depth follows the configured observations",
              "%s: z_gw=%.6f expected %.6f" % (dstr, zgw, zgw_exp[tsc]), zgw - zgw_exp[tsc], dstr)
    fc = T.get("fcadj")
    if fc is not None:
        if np.any(fc < th_fc - 1e-12) or np.any(fc > th_s + 1e-12):
            j = int(np.argmax(np.maximum(th_fc - fc, fc - th_s)))
            F.add("C19.fcadj_between_fc_and_sat", "th_fc <= adjusted FC <= th_s",
                  "%s: comp %d fcAdj=%.6f fc=%.4f sat=%.4f" % (dstr, j, fc[j], th_fc[j], th_s[j]), 1.0, dstr)
        far = all((zgw - zmid[j]) >= _xmax(th_fc[j]) for j in range(len(zmid)))
        if far and not np.array_equal(fc, th_fc):
            F.add("C19.fcadj_equals_fc_when_far", "adjusted FC == FC when the table is far below",
                  "%s: z_gw=%.3f max|fcAdj-fc|=%.3e" % (dstr, zgw, float(np.max(np.abs(fc - th_fc)))), 1.0, dstr)
    below = zmid >= zgw
    if np.any(below):
        d = th_s[below] - th1[below]
        if np.any(d > 1e-12):
            j = int(np.where(below)[0][int(np.argmax(d))])
            F.add("C19.saturated_below_table", "end of day: compartments with centre below the table are saturated",
                  "%s: comp %d zMid=%.3f z_gw=%.3f th=%.6f th_s=%.4f" % (dstr, j, zmid[j], zgw, th1[j], th_s[j]),
                  float(np.max(d)), dstr)
    b, a_, fca = T.get("cr_before"), T.get("cr_after"), T.get("cr_fcadj")
    if b is not None:
        lift = a_ - np.maximum(b, fca)
        if np.any(lift > 1e-12):
            j = int(np.argmax(lift))
            F.add("C19.CR_not_above_fcadj", "capillary rise never lifts a compartment above adjusted FC",
                  "%s: comp %d th %.8f -> %.8f, fcAdj %.8f (excess %.2e)" % (dstr, j, b[j], a_[j], fca[j], lift[j]),
                  float(lift[j]), dstr,
                  tag=("excess<=5e-5(room rounded to 4 decimals)" if float(np.max(lift)) <= 5e-5 + 1e-12 else None))
    return bool(CR > 0 or GwIn > 0)


# --------------------------------------------------------------------------------------
# far-table twin comparison (C19 last sentence)
# --------------------------------------------------------------------------------------
def run_far_twin(cfg):
    """cfg has no groundwater; twin has a constant table at cfg['far_depth'] m. Bitwise table
    comparison except the z_gw column."""
    res = {"idx": cfg.get("idx", -1), "mech": mech(cfg) + "|far=%sm" % cfg["far_depth"], "days": 0,
           "inseason_days": 0, "nontrivial": False, "fails": [], "residue_max": 0.0, "cr_gap_max": 0.0,
           "model_exception": None, "harness_exception": None, "seasons_harvested": 0, "twin": True}
    try:
        a = build_model(cfg)
        a.run_model(till_termination=True)
        c2 = copy.deepcopy(cfg)
        c2["gw"] = {"method": "Constant", "dates": [cfg["start"]], "values": [cfg["far_depth"]]}
        b = build_model(c2)
        b.run_model(till_termination=True)
    except Exception as e:
        res["model_exception"] = "twin: %s: %s" % (type(e).__name__, str(e)[:200])
        return res
    try:
        F = Fails()
        for nm in ("water_flux", "water_storage", "crop_growth"):
            A = table(getattr(a._outputs, nm)).astype(float)
            B = table(getattr(b._outputs, nm)).astype(float)
            if nm == "water_flux":
                A = np.delete(A, WF["z_gw"], axis=1)
                B = np.delete(B, WF["z_gw"], axis=1)
            if A.shape != B.shape or not np.array_equal(A, B, equal_nan=True):
                if A.shape == B.shape:
                    r, c = np.argwhere(~((A == B) | (np.isnan(A) & np.isnan(B))))[0]
                    det = "%s first difference row %d col %d: none=%.10g far=%.10g (max abs diff %.3e)" % (
                        nm, r, c, A[r, c], B[r, c], float(np.nanmax(np.abs(A - B))))
                else:
                    det = "%s shapes differ %s %s" % (nm, A.shape, B.shape)
                mx = float(np.nanmax(np.abs(A - B))) if A.shape == B.shape else 1.0
                F.add("C19.far_table_equals_none", "a water table far below the profile gives the same results as none",
                      det, mx, tag="%s|iwc=%s|%s" % (cfg["soil_label"], iwc_label(cfg.get("iwc", "FC")),
                                                     "ulp-level" if mx < 1e-9 else "macroscopic"))
        fa, fb = a._outputs.final_stats, b._outputs.final_stats
        if not fa.equals(fb):
            dd = float(np.max(np.abs(fa.iloc[:, 4:].values.astype(float) - fb.iloc[:, 4:].values.astype(float)))) \
                if fa.shape == fb.shape else 1.0
            F.add("C19.far_table_equals_none", "a water table far below the profile gives the same results as none",
                  "summary differs: %s vs %s" % (fa.iloc[:, 4:].values.tolist(), fb.iloc[:, 4:].values.tolist()), dd,
                  tag="%s|iwc=%s|%s" % (cfg["soil_label"], iwc_label(cfg.get("iwc", "FC")),
                                        "ulp-level" if dd < 1e-9 else "macroscopic"))
        res["days"] = int(np.count_nonzero(table(a._outputs.water_storage)[:, 3] != 0))
        res["nontrivial"] = True
        res["fails"] = list(F.d.values())
    except Exception as e:
        res["harness_exception"] = "%s: %s | %s" % (type(e).__name__, str(e)[:300], traceback.format_exc()[-500:])
    return res


# --------------------------------------------------------------------------------------
# lattice
# --------------------------------------------------------------------------------------
BAD_CROPS = {"PotatoLocalGDD", "localpaddy", "MaizeChampionGDD", "Cassava"}  # YldWC None -> TypeError (C16 domain)
WINTER = {"Wheat", "WheatGDD", "WheatGDD_1dec", "HydWheatGDD", "WheatLongGDD", "Barley", "BarleyGDD"}


def planting_for(crop):
    if crop in WINTER:
        return "10/15"
    if crop in ("Potato", "PotatoGDD", "SugarBeet", "SugarBeetGDD", "SugarBeetGDD_UK", "AlfalfaGDD", "Quinoa"):
        return "04/01"
    if crop in ("Cotton", "CottonGDD"):
        return "04/15"
    return "05/01"


def all_crops():
    return [c for c in crop_params.keys() if c not in BAD_CROPS]


IRR_LEVELS = [
    {"method": 0},
    {"method": 1, "SMT": [80, 70, 60, 50]},
    {"method": 1, "SMT": [40, 60, 70, 30], "AppEff": 75, "MaxIrr": 12},
    {"method": 1, "SMT": [90, 90, 90, 90], "MaxIrrSeason": 150, "AppEff": 60, "WetSurf": 40},
    {"method": 2, "IrrInterval": 7},
    {"method": 2, "IrrInterval": 3, "MaxIrr": 10, "AppEff": 80, "MaxIrrSeason": 200},
    {"method": 2, "IrrInterval": 1, "MaxIrr": 6},
    {"method": 3, "schedule": "rel", "MaxIrr": 30},
    {"method": 3, "schedule": "rel", "MaxIrr": 18, "AppEff": 70, "MaxIrrSeason": 60},
    {"method": 4, "NetIrrSMT": 80},
    {"method": 4, "NetIrrSMT": 50},
    {"method": 5, "depth": 3.0},
    {"method": 5, "depth": 40.0, "MaxIrr": 15, "AppEff": 85, "MaxIrrSeason": 300, "WetSurf": 30},
]
FIELD_LEVELS = [
    ("plain", None, None),
    ("bunds", {"bunds": True, "z_bund": 0.15, "bund_water": 0}, "same"),
    ("bunds50", {"bunds": True, "z_bund": 0.10, "bund_water": 50}, None),      # bunds removed off-season
    ("mulch", {"mulches": True, "mulch_pct": 80, "f_mulch": 0.6}, "same"),
    ("bunds+mulch", {"bunds": True, "z_bund": 0.05, "bund_water": 20, "mulches": True, "mulch_pct": 100,
                     "f_mulch": 0.9}, None),
    ("srinhb", {"sr_inhb": True}, None),
    ("cnadj", {"curve_number_adj": True, "curve_number_adj_pct": 20}, "same"),
    ("fallowbunds", None, {"bunds": True, "z_bund": 0.08, "bund_water": 10}),
]
GW_LEVELS = ["none", "c2.66", "c1.2", "c0.6", "c0.25", "vdeepshallow", "vshallow", "cstep", "c7", "voutside", "cstep_unsorted"]
IWC_LEVELS = ["FC", "WP", "SAT", ("Pct", 50), ("PctDepth", [0.3, 1.0], [30, 80]),
              ("NumLayer", [0.25, 0.6, 0.4])]
WX_LEVELS = [{"kind": "tunis"}, {"kind": "champion"}, {"kind": "syn", "pattern": "storm"},
             {"kind": "syn", "pattern": "drought"}, {"kind": "syn", "pattern": "mixed"},
             {"kind": "syn", "pattern": "wet"}]


def _balanced(rng, levels, n):
    seq = []
    while len(seq) < n:
        block = list(range(len(levels)))
        rng.shuffle(block)
        seq.extend(block)
    return [levels[i] for i in seq[:n]]


def _dates(cfg_crop, planting, wx, rng, nseasons, pre_days):
    kind = wx["kind"]
    y0 = WX_FIRST_YEAR[kind] + 1
    y1 = WX_LAST_FULL_YEAR[kind] - nseasons - 1
    year = rng.randint(y0, max(y0, y1))
    p0 = pd.Timestamp("%d/%s" % (year, planting))
    start = p0 - pd.Timedelta(days=pre_days)
    end = pd.Timestamp("%d/%s" % (year + nseasons, planting)) - pd.Timedelta(days=1)
    return p0, start, end


def _gw_spec(level, start, end):
    s, e = pd.Timestamp(start), pd.Timestamp(end)
    fmt = lambda d: d.strftime("%Y/%m/%d")
    if level == "none":
        return None
    if level.startswith("c") and not level.startswith("cstep"):
        return {"label": "const" + level[1:], "method": "Constant", "dates": [fmt(s)], "values": [float(level[1:])]}
    mid1 = s + (e - s) / 3
    mid2 = s + 2 * (e - s) / 3
    mid1 = pd.Timestamp(mid1.date())
    mid2 = pd.Timestamp(mid2.date())
    if level == "vdeepshallow":
        return {"label": "var3-0.5", "method": "Variable", "dates": [fmt(s), fmt(mid1), fmt(mid2), fmt(e)],
                "values": [3.0, 0.5, 1.8, 2.5]}
    if level == "vshallow":
        return {"label": "var1-0.2", "method": "Variable", "dates": [fmt(s), fmt(mid1), fmt(e)],
                "values": [1.0, 0.2, 1.4]}
    if level == "voutside":
        # observations before the first and after the last simulated day (interpolated in time across the window)
        return {"label": "varout1.2-0.4", "method": "Variable", "dates": [fmt(s - pd.Timedelta(days=61)), fmt(mid1), fmt(e + pd.Timedelta(days=45))],
                "values": [1.2, 0.4, 2.2]}
    if level == "cstep_unsorted":
        return {"label": "stepunsorted", "method": "Constant", "dates": [fmt(mid2), fmt(s), fmt(mid1)], "values": [1.5, 2.0, 0.8]}
    if level == "cstep":
        return {"label": "step2-0.8", "method": "Constant", "dates": [fmt(s), fmt(mid1), fmt(mid2)],
                "values": [2.0, 0.8, 1.5]}
    raise ValueError(level)


def _schedule(p0, nseasons, start, end):
    out = []
    offs = [(-400, 33.0), (-10, 22.0), (0, 20.0), (5, 20.0), (21, 35.0), (45, 15.0), (46, 10.0),
            (80, 40.0), (120, 25.0), (330, 28.0)]
    seen = set()
    for k in range(nseasons):
        pk = pd.Timestamp("%d/%02d/%02d" % (p0.year + k, p0.month, p0.day))
        for o, d in offs:
            dt = pk + pd.Timedelta(days=o)
            key = dt.strftime("%Y/%m/%d")
            if key in seen:
                continue
            seen.add(key)
            out.append([key, d])
    # entries dated outside the simulated window, spread so that an index computed from a date offset (instead of a date look-up) would land on many
    # different days of the run: they must have no effect at all
    for o in (1, 2, 3, 5, 8, 13, 21, 34, 55, 89, 144, 233, 377):
        for dt, d in ((start - pd.Timedelta(days=o), 17.0), (end + pd.Timedelta(days=o), 19.0)):
            key = dt.strftime("%Y/%m/%d")
            if key not in seen:
                seen.add(key)
                out.append([key, d])
    return out


def make_cfg(idx, crop, soil_label, irr, field, gwlevel, iwc, wx, off, nseasons, pre_days, rng, wseed, end_shift_days=0):
    wx = dict(wx)
    if wx["kind"] == "syn":
        wx["seed"] = wseed
    planting = planting_for(crop)
    p0, start, end = _dates(crop, planting, wx, rng, nseasons, pre_days)
    end = end + pd.Timedelta(days=end_shift_days)        # negative: the window ends in the middle of the last season (never harvested)
    irr = copy.deepcopy(irr)
    if irr.get("schedule") == "rel":
        irr["schedule"] = _schedule(p0, nseasons, start, end)
    if (not isinstance(iwc, str)) and iwc[0] == "PctDepth" and soil_label in LAYERED:
        # by-depth interpolation across layers with different th_wp leaves [th_wp, th_s]: use per-layer %
        iwc = ("PctLayer", list(iwc[2]) + [55])
    fl, fspec, fallow = field
    fallow_spec = copy.deepcopy(fspec) if fallow == "same" else copy.deepcopy(fallow)
    cfg = {"idx": idx, "crop": crop, "planting": planting, "soil_label": soil_label,
           "soil": soil_spec(soil_label), "irr": irr, "field": copy.deepcopy(fspec), "fallow": fallow_spec,
           "field_label": fl, "gw": _gw_spec(gwlevel, start, end), "iwc": iwc, "wx": wx,
           "start": start.strftime("%Y/%m/%d"), "end": end.strftime("%Y/%m/%d"),
           "off_season": bool(off), "nseasons": nseasons}
    return cfg


def anchors(rng, wseed):
    """fixed configurations aimed at the regimes named in the property quantifiers"""
    A = []
    fld = {f[0]: f for f in FIELD_LEVELS}
    add = lambda *a, **k: A.append(make_cfg(len(A), *a, rng=rng, wseed=wseed, **k))
    syn = lambda p: {"kind": "syn", "pattern": p}
    # dense canopy, irrigated (CCx 0.99)
    add("DryBean", "SandyLoam", IRR_LEVELS[1], fld["plain"], "none", "FC", {"kind": "tunis"}, False, 1, 0)
    # net irrigation from wilting point, two seasons (pre-irrigation, reset)
    add("Wheat", "SandyLoam", IRR_LEVELS[9], fld["plain"], "none", "WP", {"kind": "tunis"}, False, 2, 0)
    # bunds in season, removed in the simulated off-season; storms
    add("PaddyRice", "Paddy", IRR_LEVELS[11], fld["bunds50"], "none", "SAT", syn("storm"), True, 2, 20)
    # restrictive layer
    add("Maize", "pen40", IRR_LEVELS[4], fld["plain"], "none", "FC", {"kind": "champion"}, False, 1, 0)
    # shallow table inside the profile, variable
    add("Wheat", "SandyLoam", IRR_LEVELS[0], fld["plain"], "vshallow", "FC", {"kind": "tunis"}, True, 2, 10)
    # constant table of the regression test
    add("Wheat", "SandyLoam", IRR_LEVELS[0], fld["plain"], "c2.66", "FC", {"kind": "tunis"}, False, 1, 0)
    # low-Ksat sublayer under storms with mulches+bunds
    add("Cotton", "lowKsub", IRR_LEVELS[3], fld["bunds+mulch"], "none", "SAT", syn("storm"), True, 1, 15)
    # fast over slow, drought, schedule with binding seasonal cap
    add("Tomato", "fastOverSlow", IRR_LEVELS[8], fld["mulch"], "none", "WP", syn("drought"), False, 2, 0)
    # GDD crop, clay, wet, interval irrigation with seasonal cap
    add("MaizeGDD", "Clay", IRR_LEVELS[5], fld["cnadj"], "c1.2", ("Pct", 50), syn("wet"), False, 2, 0)
    # 4-decimal field capacity, far-ish table
    add("Barley", "fc4dec", IRR_LEVELS[0], fld["plain"], "c7", "FC", {"kind": "tunis"}, False, 1, 0)
    add("SugarBeetGDD", "texture", IRR_LEVELS[12], fld["srinhb"], "vdeepshallow", "FC", syn("mixed"), True, 1, 30)
    add("AlfalfaGDD", "SiltLoam", IRR_LEVELS[2], fld["fallowbunds"], "none", "FC", syn("mixed"), True, 2, 25)
    # season cut short by an explicit latest harvest date (before maturity), off-season simulated, daily irrigation
    add("Maize", "Loam", IRR_LEVELS[11], fld["plain"], "none", "FC", {"kind": "champion"}, True, 2, 10)
    A[-1]["crop_kw"] = {"harvest_date": "08/15"}
    # shallow tables under a soil whose layers share the field capacity but not the saturation
    add("Maize", "sameFcDiffSat", IRR_LEVELS[0], fld["plain"], "c1.2", "FC", {"kind": "champion"}, False, 1, 0)
    add("Wheat", "sameFcDiffSat", IRR_LEVELS[1], fld["plain"], "vshallow", "FC", {"kind": "tunis"}, True, 2, 10)
    # the window ends in the middle of the last season: that season is planted but never harvested (no summary row for it)
    add("Maize", "SandyLoam", IRR_LEVELS[0], fld["plain"], "none", "FC", {"kind": "champion"}, False, 3, 0, end_shift_days=-290)
    add("Maize", "Loam", IRR_LEVELS[4], fld["plain"], "none", "FC", {"kind": "champion"}, True, 3, 0, end_shift_days=-290)
    # net irrigation on strongly contrasting layers (each compartment is refilled to ITS layer's threshold), and with a binding seasonal maximum
    add("Maize", "sandOverClay", IRR_LEVELS[9], fld["plain"], "none", ("Pct", 50), {"kind": "champion"}, False, 2, 0)
    add("Wheat", "clayOverSand", IRR_LEVELS[10], fld["plain"], "none", ("Pct", 50), {"kind": "tunis"}, False, 2, 0)
    add("Wheat", "SandyLoam", {"method": 4, "NetIrrSMT": 80, "MaxIrrSeason": 10}, fld["plain"], "none", "WP", {"kind": "tunis"}, False, 2, 0)
    # degree-day methods 1 and 2 (36 of the 37 built-in crops use method 3) on weather with cold days
    add("MaizeChampionGDD", "SandyLoam", IRR_LEVELS[0], fld["plain"], "none", "FC", {"kind": "champion"}, False, 6, 0)   # six springs: cold days after planting
    add("Maize", "SandyLoam", IRR_LEVELS[0], fld["plain"], "none", "FC", {"kind": "champion"}, False, 6, 0)
    A[-1]["crop_kw"] = {"GDDmethod": 2}
    add("Wheat", "Loam", IRR_LEVELS[0], fld["plain"], "none", "FC", {"kind": "tunis"}, False, 1, 0)
    A[-1]["crop_kw"] = {"GDDmethod": 1}
    return A


def lattice(prop, tier, seed):
    rng = random.Random(int(seed) * 1000003 + hash_str(prop + tier))
    wseed = int(seed)
    quick = tier == "quick"
    n = {"C01": 96, "C02": 96, "C03": 96, "C04": 96, "C05": 112, "C06": 88, "C13": 104, "C19": 80}[prop] if quick else \
        {"C01": 1600, "C02": 1600, "C03": 1600, "C04": 1600, "C05": 1800, "C06": 1400, "C13": 1600, "C19": 1400}[prop]
    if quick:
        crops = ["Wheat", "Maize", "DryBean", "Cotton", "PaddyRice", "Potato", "WheatGDD", "MaizeGDD",
                 "SugarBeetGDD", "Tomato", "Soybean", "AlfalfaGDD"]
        soils = ["SandyLoam", "Clay", "Sand", "Paddy", "lowKsub", "fastOverSlow", "pen40", "fc4dec", "fineDz"]
    else:
        crops = all_crops()
        soils = list(SOILS.keys())
    if prop == "C05" and quick:
        crops = crops + ["Sunflower", "Quinoa", "Tef", "SorghumGDD", "Barley", "SugarCane"]
    irr = list(IRR_LEVELS)
    gwl = list(GW_LEVELS)
    if prop == "C13":
        irr = [x for x in IRR_LEVELS if x["method"] != 0] + [IRR_LEVELS[0]]
        gwl = ["none", "none", "none", "c1.2", "vdeepshallow"]
    elif prop == "C19":
        gwl = [g for g in GW_LEVELS if g != "none"] + ["none"]
    else:
        gwl = ["none", "none", "none"] + [g for g in GW_LEVELS if g != "none"]
    cfgs = anchors(rng, wseed)
    base = len(cfgs)
    m = max(0, n - base)
    f_crop = _balanced(rng, crops, m)
    f_soil = _balanced(rng, soils, m)
    f_irr = _balanced(rng, irr, m)
    f_field = _balanced(rng, FIELD_LEVELS, m)
    f_gw = _balanced(rng, gwl, m)
    f_iwc = _balanced(rng, IWC_LEVELS, m)
    f_wx = _balanced(rng, WX_LEVELS, m)
    f_off = _balanced(rng, [False, True], m)
    f_ns = _balanced(rng, [1, 2, 2, 3] if not quick else [1, 1, 2, 2, 3], m)
    f_pre = _balanced(rng, [0, 0, 25], m)
    for i in range(m):
        off = f_off[i]
        pre = f_pre[i] if not off else max(f_pre[i], 12)
        cfgs.append(make_cfg(base + i, f_crop[i], f_soil[i], f_irr[i], f_field[i], f_gw[i], f_iwc[i], f_wx[i],
                             off, f_ns[i], pre, rng, wseed))
    twins = []
    if prop == "C19":
        nt = 16 if quick else 160
        t_soil = _balanced(rng, ["SandyLoam", "fc4dec", "texture", "Clay", "lowKsub", "Paddy"], nt)
        t_crop = _balanced(rng, ["Wheat", "Maize", "Potato", "MaizeGDD", "Tomato"], nt)
        t_irr = _balanced(rng, [IRR_LEVELS[0], IRR_LEVELS[1], IRR_LEVELS[9], IRR_LEVELS[4]], nt)
        t_iwc = _balanced(rng, ["FC", "FC", "WP", ("Pct", 50)], nt)
        t_far = _balanced(rng, [30.0, 12.0, 8.0], nt)
        t_wx = _balanced(rng, WX_LEVELS, nt)
        # two fixed twins: 4-decimal field capacity / texture-derived soil started at field capacity
        for (tc, ts_, tf) in (("Wheat", "fc4dec", 30.0), ("Potato", "texture", 12.0)):
            c = make_cfg(len(cfgs) + len(twins), tc, ts_, IRR_LEVELS[0], FIELD_LEVELS[0], "none", "FC",
                         {"kind": "tunis"}, False, 1, 0, rng, wseed)
            c["far_depth"] = tf
            twins.append(c)
        for i in range(nt):
            c = make_cfg(len(cfgs) + len(twins), t_crop[i], t_soil[i], t_irr[i], FIELD_LEVELS[0], "none", t_iwc[i],
                         t_wx[i], False, 1, 0, rng, wseed)
            c["far_depth"] = t_far[i]
            twins.append(c)
    desc = ("%d configurations = %d fixed anchor configurations + %d drawn by seeded balanced sampling (every level "
            "of every factor appears floor/ceil(n/levels) times, factors combined by independent seeded shuffles) from "
            "crops(%d)%s x soils(%d: built-in uniform, built-in 2-layer Paddy/TunisLocal, custom lowKsub [Ksat 500/3/250], "
            "fastOverSlow [3000/225/20], pen40 [penetrability 40%% layer], fc4dec, texture-derived, fineDz) x irrigation "
            "levels(%d: methods 0-5 with MaxIrr/MaxIrrSeason/AppEff/WetSurf/SMT/interval/schedule incl. out-of-season and "
            "out-of-window dates/depth variants) x field management(8: none, bunds, bunds removed off-season, mulches, "
            "bunds+mulches, runoff inhibited, CN +20%%, fallow-only bunds) x groundwater(%d levels: none, constant "
            "2.66/1.2/0.6/0.25/7 m, stepwise constant, variable 3-0.5 m and 1-0.2 m) x initial water content(6: FC, WP, SAT, "
            "50%% TAW, by-depth %% TAW, numeric per layer) x weather(6: Tunis, Champion, synthetic storm [60-300 mm days], "
            "drought [no rain], mixed, wet) x off_season{F,T} x seasons{1,2,3} x lead-in days{0,25}; every simulated day "
            "of every run is checked" % (len(cfgs), base, m, len(crops), "", len(soils), len(irr), len(gwl)))
    if twins:
        desc += "; plus %d no-table vs far-table (8/12/30 m) twin runs compared bitwise" % len(twins)
    return cfgs, twins, desc


RULES = {
    "C01": "configuration with at least one day having evaporation together with infiltration, percolation or transpiration",
    "C02": "configuration with at least one day of non-zero runoff (the partition actually split water)",
    "C03": "configuration in which some compartment touched saturation or came within 1e-6 of air-dry, or water was ponded",
    "C04": "configuration with at least one in-season day with Tr > 0 and Es > 0",
    "C05": "configuration with at least one in-season day with canopy cover > 0",
    "C06": "configuration that ran to completion with at least one summary row",
    "C13": "configuration with at least one day of non-zero irrigation (or non-zero net requirement)",
    "C19": "configuration with a water table and at least one day with CR > 0 or GwIn > 0; every twin comparison",
}


def _job(args):
    cfg, prop, kind = args
    try:
        if kind == "twin":
            return run_far_twin(cfg)
        return run_config(cfg, prop)
    except Exception as e:  # pragma: no cover
        return {"idx": cfg.get("idx", -1), "mech": "?", "days": 0, "inseason_days": 0, "nontrivial": False,
                "fails": [], "residue_max": 0.0, "cr_gap_max": 0.0, "model_exception": None,
                "harness_exception": "%s: %s" % (type(e).__name__, str(e)[:300]), "seasons_harvested": 0}


def slim(cfg):
    c = {k: v for k, v in cfg.items() if k not in ("idx",)}
    return c


def main():
    ap = argparse.ArgumentParser()
    ap.add_argument("--property", required=True, choices=PROPS)
    ap.add_argument("--tier", default="quick", choices=["quick", "thorough"])
    ap.add_argument("--seed", type=int, default=0)
    ap.add_argument("--out", required=True)
    ap.add_argument("--procs", type=int, default=16)
    a = ap.parse_args()
    t0 = time.time()
    out = {"property": a.property, "tier": a.tier, "seed": a.seed, "lattice": "", "cases": 0,
           "distinct_nontrivial": 0, "rule": RULES[a.property], "failures": [], "samples": [], "wall_s": 0.0,
           "exceptions": []}
    try:
        cfgs, twins, desc = lattice(a.property, a.tier, a.seed)
        out["lattice"] = "BOUNDED (not a proof). " + desc
        jobs = [(c, a.property, "cfg") for c in cfgs] + [(c, a.property, "twin") for c in twins]
        allcfg = cfgs + twins
        with Pool(a.procs) as pool:
            results = pool.map(_job, jobs, chunksize=1)
        sigs = {}
        keys = set()
        days = 0
        resid = 0.0
        crgap = 0.0
        n_model_exc = 0
        model_raised = []
        for cfg, r in zip(allcfg, results):
            if r.get("harness_exception"):
                out["exceptions"].append("harness: cfg %d %s: %s" % (cfg["idx"], r["mech"], r["harness_exception"]))
            if r.get("model_exception"):
                n_model_exc += 1
                model_raised.append("cfg %d %s wx=%s: %s" % (cfg["idx"], mech(cfg), cfg["wx"].get("pattern", cfg["wx"]["kind"]),
                                                              r["model_exception"]))
            if r["days"] > 0:
                out["cases"] += 1
            days += r["days"]
            resid = max(resid, r["residue_max"])
            crgap = max(crgap, r["cr_gap_max"])
            if r["nontrivial"]:
                keys.add(json.dumps(slim(cfg), sort_keys=True, default=str))
            for f in r["fails"]:
                sig = "%s|%s" % (f["clause"], f["tag"] if f.get("tag") else r["mech"])
                e = sigs.get(sig)
                if e is None:
                    sigs[sig] = {"signature": sig, "clause": "%s: %s" % (f["clause"], f["text"]),
                                 "first": f["first"], "days": f["days"], "worst": f["worst"], "configs": 1,
                                 "cfg": cfg, "crops": {cfg["crop"]}, "soils": {cfg["soil_label"]}}
                else:
                    e["days"] += f["days"]
                    e["configs"] += 1
                    e["crops"].add(cfg["crop"])
                    e["soils"].add(cfg["soil_label"])
                    e["worst"] = max(e["worst"], f["worst"])
        for sig in sorted(sigs):
            e = sigs[sig]
            out["failures"].append({
                "signature": e["signature"], "clause": e["clause"],
                "detail": "first: %s; %d failing day(s) in %d configuration(s) with this signature; worst magnitude %.3e; "
                          "crops %s; soils %s" % (e["first"], e["days"], e["configs"], e["worst"], sorted(e["crops"]),
                                                  sorted(e["soils"])),
                "repro": "import sys; sys.path.insert(0,'/verif/e3'); import water_monitors as wm; "
                         "print(wm.%s(%r%s)['fails'])" % (
                             "run_far_twin" if "far_depth" in e["cfg"] else "run_config", slim(e["cfg"]),
                             "" if "far_depth" in e["cfg"] else ", %r" % a.property)})
        out["distinct_nontrivial"] = len(keys)
        out["samples"] = [slim(c) for c in (cfgs[:3] + cfgs[len(cfgs) // 2: len(cfgs) // 2 + 2] + cfgs[-2:])][:8]
        out["days_checked"] = days
        out["model_raised"] = model_raised   # configurations the model itself rejected / aborted (not failures of this property)
        if model_raised:
            out["lattice"] += ("; %d of them were rejected or aborted by the model itself (exception text in key 'model_raised'; "
                               "that is C16's subject, not a failure of this property)" % len(model_raised))
        if a.property == "C01":
            out["residue_max"] = resid
            out["cr_report_gap_max"] = crgap
    except Exception as e:
        out["exceptions"].append("harness crash: %s: %s | %s" % (type(e).__name__, e, traceback.format_exc()[-800:]))
    out["wall_s"] = round(time.time() - t0, 2)
    with open(a.out, "w") as fh:
        json.dump(out, fh, indent=1, default=str)
    return 0


if __name__ == "__main__":
    sys.exit(main())
