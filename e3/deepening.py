"""E3 (BOUNDED, never counted as proved) for C16/C18: the profile-deepening loop of read_model_parameters (pandas code, outside the
verifier's reach) terminates for every compartment list of a lattice x crops of different maximum rooting depth, the deepened profile
ends below the maximum rooting depth, and every compartment keeps the hydraulic properties of its layer."""
import argparse, json, time, itertools, signal, random
import numpy as np


class _Timeout(Exception):
    pass


def _alarm(sig, frm):
    raise _Timeout()


def main():
    ap = argparse.ArgumentParser(); ap.add_argument("--tier", default="quick"); ap.add_argument("--seed", type=int, default=0); ap.add_argument("--out", required=True)
    a = ap.parse_args(); t0 = time.time(); rng = random.Random(a.seed)
    from aquacrop import AquaCropModel, Soil, Crop, InitialWaterContent
    from aquacrop.utils import prepare_weather, get_filepath
    w = prepare_weather(get_filepath("champion_climate.txt"))
    dzs = [[0.1] * 12, [0.25] * 4, [0.3] * 3, [0.5] * 2, [1.0], [0.25, 0.3], [0.05] * 5, [0.1, 0.25, 0.25, 0.25, 0.05, 0.1, 0.05], [0.24] * 3, [0.1, 0.4], [0.2] * 8, [0.01] * 10]
    for _ in range(4 if a.tier == "quick" else 40):
        dzs.append([rng.choice([0.02, 0.05, 0.1, 0.15, 0.2, 0.25, 0.3, 0.4, 0.6]) for _ in range(rng.randint(1, 9))])
    crops = ["Maize", "Wheat", "Cotton", "Potato", "SugarCane", "Tomato"] if a.tier == "quick" else None
    if crops is None:
        from aquacrop.entities.crop import crop_params
        crops = sorted(crop_params.keys())
    soils = ["SandyLoam", "Clay"] if a.tier == "quick" else ["SandyLoam", "Clay", "Loam", "Paddy"]
    signal.signal(signal.SIGALRM, _alarm)
    cases, nontriv, fails, samples, exc = 0, 0, {}, [], []
    hung = set()
    for dz, crop, soil in itertools.product(dzs, crops, soils):
        if len(hung) >= 3 or tuple(dz) in hung:
            continue          # already reported; do not spend 30 s on every sibling case
        cases += 1
        try:
            s = Soil(soil, dz=list(dz))
            layer_props = {int(L): (float(g.th_fc.iloc[0]), float(g.th_s.iloc[0]), float(g.th_wp.iloc[0]), float(g.Ksat.iloc[0])) for L, g in s.profile.groupby("Layer")}
            c = Crop(crop, planting_date="05/01")
            m = AquaCropModel("1982/05/01", "1982/05/20", w, s, c, InitialWaterContent(value=["FC"]))
            signal.setitimer(signal.ITIMER_REAL, 30.0)
            try:
                m._initialize()
            finally:
                signal.setitimer(signal.ITIMER_REAL, 0)
        except _Timeout:
            hung.add(tuple(dz))
            sig = "profile-deepening|does-not-terminate|%s" % ("all-compartments-ge-0.25" if min(dz) >= 0.25 else "mixed")
            fails.setdefault(sig, dict(signature=sig, clause="initialisation (profile deepening for the crop's maximum rooting depth) terminates",
                                       detail="Soil(%r, dz=%r) with %s: _initialize() still running after 30 s" % (soil, dz, crop), repro="Soil(%r, dz=%r), Crop(%r)" % (soil, dz, crop)))
            continue
        except AssertionError as e:
            if "longer than 1 year" in str(e) or "not enough growing degree days" in str(e):
                continue
            exc.append("%s dz=%s %s: AssertionError %s" % (soil, dz, crop, e)); continue
        except Exception as e:
            exc.append("%s dz=%s %s: %s %s" % (soil, dz, crop, type(e).__name__, e)); continue
        S = m._param_struct.Soil; P = S.Profile
        zmax = float(m._param_struct.Seasonal_Crop_List[0].Zmax)
        deep = abs(float(np.sum(P.dz)) - sum(dz)) > 1e-9
        nontriv += 1 if deep else 0
        checks = {"ends_below_max_rooting_depth": float(P.dzsum[-1]) + 1e-9 >= zmax,
                  "bottoms_are_running_sum": bool(np.allclose(np.cumsum(P.dz), P.dzsum, atol=0.006)),
                  "compartment_count_kept": len(P.dz) == len(dz),
                  "layer_properties_kept": all(abs(float(P.th_fc[i]) - layer_props[int(P.Layer[i])][0]) < 1e-12 and abs(float(P.th_s[i]) - layer_props[int(P.Layer[i])][1]) < 1e-12
                                               and abs(float(P.th_wp[i]) - layer_props[int(P.Layer[i])][2]) < 1e-12 and abs(float(P.Ksat[i]) - layer_props[int(P.Layer[i])][3]) < 1e-9
                                               for i in range(len(P.dz)))}
        for k, ok in checks.items():
            if not ok:
                sig = "profile-deepening|%s" % k
                fails.setdefault(sig, dict(signature=sig, clause="deepened profile: " + k, detail="Soil(%r, dz=%r) with %s (Zmax %.2f): dz=%s dzsum[-1]=%s" % (soil, dz, crop, zmax, [float(x) for x in P.dz], float(P.dzsum[-1])),
                                           repro="Soil(%r, dz=%r), Crop(%r)" % (soil, dz, crop)))
        if len(samples) < 5 and deep:
            samples.append(dict(soil=soil, crop=crop, dz=dz, deepened=[float(x) for x in P.dz], zmax=zmax))
    # ---- layer-wise initial water content in the presence of a (deep) water table: every layer starts at the property it asked for
    from aquacrop import GroundWater
    import itertools as _it
    for soil2, vals in _it.product(["Paddy", "ac_TunisLocal"], _it.product(["WP", "FC", "SAT"], repeat=2)):
        cases += 1
        try:
            s2 = Soil(soil2)
            m = AquaCropModel("1982/05/01", "1982/05/20", w, s2, Crop("Tomato", planting_date="05/01"), InitialWaterContent("Prop", "Layer", [1, 2], list(vals)),
                              groundwater=GroundWater(water_table="Y", dates=["1982/05/01"], values=[10.0]))
            m._initialize()
        except Exception as e:
            exc.append("%s iwc=%s with water table: %s %s" % (soil2, vals, type(e).__name__, e)); continue
        P = m._param_struct.Soil.Profile; th = np.asarray(m._init_cond.th, dtype=float)
        nontriv += 1
        for i in range(len(th)):
            want = vals[int(P.Layer[i]) - 1]
            ok = (abs(th[i] - P.th_wp[i]) < 1e-9) if want == "WP" else (abs(th[i] - P.th_s[i]) < 1e-9) if want == "SAT" else (P.th_fc[i] - 1e-3 <= th[i] <= P.th_s[i] + 1e-9)
            if not ok:
                sig = "iwc-with-water-table|layer-does-not-start-at-the-requested-property"
                fails.setdefault(sig, dict(signature=sig, clause="the initial water content equals the requested property in each layer (field capacity = adjusted field capacity under a water table)",
                                           detail="Soil(%r), InitialWaterContent('Prop','Layer',[1,2],%r), water table at 10 m: compartment %d (layer %d) asked for %s, th=%.4f (th_wp %.4f th_fc %.4f th_s %.4f)"
                                                  % (soil2, list(vals), i, int(P.Layer[i]), want, th[i], P.th_wp[i], P.th_fc[i], P.th_s[i]),
                                           repro="Soil(%r); InitialWaterContent('Prop','Layer',[1,2],%r); GroundWater('Y', dates=['1982/05/01'], values=[10.0])" % (soil2, list(vals))))
                break
    json.dump(dict(property="C18", tier=a.tier, seed=a.seed,
                   lattice="2 two-layer soils x 9 layer-wise WP/FC/SAT specifications under a 10 m water table; %d compartment lists (incl. every compartment >= 0.25 m, single compartment, 1 cm compartments, %d seeded random lists) x %d crops x %d soils; initialisation under a 30 s alarm" % (len(dzs), len(dzs) - 12, len(crops), len(soils)),
                   cases=cases, distinct_nontrivial=nontriv, rule="a case is non-trivial when the profile was actually deepened for the crop",
                   failures=list(fails.values()), samples=samples, wall_s=round(time.time() - t0, 1), exceptions=exc[:8]), open(a.out, "w"), indent=1)


if __name__ == "__main__":
    main()
