#!/venv/bin/python
"""E3 bounded check for property C14 -- no look-ahead.

BOUNDED, NOT PROVED.  Three clauses, each over an explicitly enumerated finite set:

 CUT      crops whose calendar is given in calendar days.  Base run on weather W; perturbed run
          on W' that equals W on every record dated < t and differs on records dated >= t in
          exactly one of {temperature, precipitation, reference ET} (several perturbation
          shapes, several cut days t placed before planting, in every growth phase, at
          harvest, in the gap between seasons and in the second season).  All rows with index
          < index(t) of water_flux, water_storage, crop_growth, and the final_stats rows of
          seasons harvested before t, must be bitwise identical.
          Calendar-day crops with SwitchGDD=1 are enumerated separately (their calendar IS given
          in calendar days; the conversion reads season-long temperature sums).
 OUTSIDE  every crop (calendar-day, thermal-time, SwitchGDD=1).  Base: weather table clipped
          exactly to the simulation window.  Variants: L leading and T trailing extra daily
          records, (L,T) from {0,1,30,365,400}^2, filled with the real records, with
          extreme-but-finite garbage, or with NaN.  All four tables bitwise identical; no raise.
 EXTEND   every crop.  Base window [s,e]; extended window [s,e+d], d in 1 d .. 2 y (12 values),
          same weather table.  For every season that has a final_stats row in the base run
          (harvested/matured), that row must be identical, and all daily rows up to and
          including the harvest step of the last such season must be bitwise identical.
          Extended windows on which the model raises for its own reasons (e.g. a newly scheduled
          last season too short for a thermal-time crop) are invalid configurations: skipped and
          counted, not failures.
"""
import argparse
import copy
import datetime
import json
import os
import sys
import time
import traceback
import warnings

warnings.filterwarnings("ignore")
os.environ.setdefault("OMP_NUM_THREADS", "1")
os.environ.setdefault("OPENBLAS_NUM_THREADS", "1")

PROP = "C14"
DAILY = ("water_flux", "water_storage", "crop_growth")
WF_COLS = ["time_step_counter", "season_counter", "dap", "Wr", "z_gw", "surface_storage", "IrrDay", "Infl", "Runoff",
           "DeepPerc", "CR", "GwIn", "Es", "EsPot", "Tr", "TrPot"]
CG_COLS = ["time_step_counter", "season_counter", "dap", "gdd", "gdd_cum", "z_root", "canopy_cover", "canopy_cover_ns",
           "biomass", "biomass_ns", "harvest_index", "harvest_index_adj", "DryYield", "FreshYield", "YieldPot"]
_W = {}


def weather(key):
    from aquacrop.utils import prepare_weather, get_filepath
    if key not in _W:
        _W[key] = prepare_weather(get_filepath(key + "_climate.txt"))
    return _W[key]


def build_model(cfg, wdf):
    import pandas as pd
    from aquacrop import (AquaCropModel, Soil, Crop, InitialWaterContent, IrrigationManagement, FieldMngt, GroundWater, CO2)
    soil = Soil(cfg["soil"], **cfg.get("soil_kw", {}))
    crop = Crop(cfg["crop"], planting_date=cfg["plant"], **cfg.get("crop_kw", {}))
    iwc = InitialWaterContent(**cfg["iwc"]) if cfg.get("iwc") else InitialWaterContent(value=["FC"])
    kw = {}
    irr = cfg.get("irr")
    if irr:
        ikw = dict(irr.get("kw", {}))
        if irr["method"] == 3:
            ikw["Schedule"] = pd.DataFrame({"Date": pd.to_datetime([d for d, _ in irr["sched"]]),
                                            "Depth": [float(x) for _, x in irr["sched"]]})
        kw["irrigation_management"] = IrrigationManagement(irrigation_method=irr["method"], **ikw)
    if cfg.get("field"):
        kw["field_management"] = FieldMngt(**cfg["field"])
    if cfg.get("gw"):
        kw["groundwater"] = GroundWater(**cfg["gw"])
    if cfg.get("co2"):
        kw["co2_concentration"] = CO2(**cfg["co2"])
    if cfg.get("off_season"):
        kw["off_season"] = True
    return AquaCropModel(cfg["start"], cfg["end"], wdf, soil, crop, iwc, **kw)


def run(cfg, wdf):
    """returns dict of float arrays (+ final_stats non-numeric as list of str)."""
    import numpy as np
    m = build_model(cfg, wdf)
    m.run_model(till_termination=True)
    o = m._outputs
    r = {t: np.ascontiguousarray(np.asarray(getattr(getattr(o, t), "values", getattr(o, t)), dtype=float)) for t in DAILY}
    fs = o.final_stats
    r["final_num"] = np.ascontiguousarray(fs.select_dtypes("number").to_numpy(dtype=float))
    r["final_str"] = [" ".join(str(v) for v in row) for row in fs.select_dtypes(exclude="number").to_numpy().tolist()]
    r["harvest_steps"] = [int(x) for x in fs["Harvest Date (Step)"].tolist()]
    return r


def rows_equal(a, b, n):
    """compare first n rows of the daily tables bitwise; None or description."""
    import numpy as np
    out = []
    for t in DAILY:
        x, y = a[t][:n], b[t][:n]
        if x.shape[1] != y.shape[1]:
            out.append("%s: column count %d vs %d" % (t, x.shape[1], y.shape[1]))
            continue
        if x.tobytes() == y.tobytes():
            continue
        neq = ~((x == y) | (np.isnan(x) & np.isnan(y)))
        if neq.any():
            r, c = np.argwhere(neq)[0]
            cols = WF_COLS if t == "water_flux" else (CG_COLS if t == "crop_growth" else None)
            cname = cols[c] if cols else ("th%d" % (c - 2) if c >= 3 else ["time_step_counter", "growing_season", "dap"][c])
            out.append((t, cname, "%s.%s row %d: base=%.6g variant=%.6g (%d cells differ in rows<%d, max|d|=%.3g)"
                        % (t, cname, r, x[r, c], y[r, c], int(neq.sum()), n, float(np.nanmax(np.abs(x - y))))))
        else:
            out.append((t, "bits", "%s: equal as floats, bit pattern differs" % t))
    if not out:
        return None
    return out


def final_equal(a, b, nseasons):
    import numpy as np
    x, y = a["final_num"][:nseasons], b["final_num"][:nseasons]
    if x.shape != y.shape:
        return "final_stats: %d rows expected, variant has %d" % (x.shape[0], y.shape[0])
    if x.tobytes() != y.tobytes() or a["final_str"][:nseasons] != b["final_str"][:nseasons]:
        neq = np.argwhere(~((x == y) | (np.isnan(x) & np.isnan(y))))
        if len(neq):
            r, c = neq[0]
            return "final_stats row %d numeric col %d: base=%.6g variant=%.6g" % (r, c, x[r, c], y[r, c])
        return "final_stats non-numeric columns differ: %s vs %s" % (a["final_str"][:nseasons], b["final_str"][:nseasons])
    return None


# --------------------------------------------------------------------------- lattice pieces
CD_CROPS = [("Wheat", "10/15", "tunis"), ("Maize", "04/15", "champion"), ("Potato", "04/15", "tunis"),
            ("Tomato", "04/15", "champion"), ("Cotton", "04/15", "champion"), ("Barley", "10/15", "tunis"),
            ("Sorghum", "04/15", "champion"), ("Soybean", "04/15", "tunis"), ("SugarBeet", "04/15", "champion"),
            ("DryBean", "04/15", "champion"), ("Quinoa", "10/15", "tunis"), ("Sunflower", "04/15", "champion"),
            ("PaddyRice", "10/15", "tunis"), ("Tef", "04/15", "champion"), ("Default", "10/15", "tunis"),
            ("SugarCane", "04/15", "tunis"), ("Cassava", "04/15", "tunis")]
GDD_CROPS = [("WheatGDD", "10/15", "tunis"), ("MaizeChampionGDD", "04/15", "champion"), ("PotatoGDD", "04/15", "tunis"),
             ("BarleyGDD", "10/15", "champion"), ("SugarBeetGDD", "04/15", "champion"), ("MaizeGDD", "04/15", "champion"),
             ("SunflowerGDD", "04/15", "champion"), ("DryBeanGDD", "10/15", "tunis"), ("CottonGDD", "04/15", "tunis"),
             ("PaddyRiceGDD", "10/15", "tunis"), ("PotatoLocalGDD", "04/15", "champion"), ("SorghumGDD", "04/15", "champion"),
             ("SoybeanGDD", "04/15", "tunis"), ("SugarBeetGDD_UK", "04/15", "champion"), ("TomatoGDD", "04/15", "tunis"),
             ("WheatGDD_1dec", "10/15", "champion"), ("HydWheatGDD", "10/15", "tunis"), ("WheatLongGDD", "10/15", "tunis"),
             ("localpaddy", "10/15", "tunis")]
SWITCH_CROPS = [("Potato", "04/15", "tunis"), ("Tomato", "04/15", "tunis"), ("Wheat", "10/15", "tunis"), ("Maize", "04/15", "champion")]
SOILS = [("SandyLoam", {}), ("Clay", {}), ("Loam", {}), ("ac_TunisLocal", {}), ("Paddy", {}), ("SiltLoam", {"dz": [0.15] * 10})]
IRRS = [None, {"method": 1, "kw": {"SMT": [70, 60, 50, 40]}}, {"method": 2, "kw": {"IrrInterval": 7}},
        {"method": 4, "kw": {"NetIrrSMT": 70}}, {"method": 5, "kw": {"depth": 3}}, "sched"]
IWCS = [None, {"value": ["WP"]}, {"wc_type": "Pct", "value": [50]}]
FIELDS = [None, None, {"mulches": True, "mulch_pct": 60, "f_mulch": 0.4}, {"bunds": True, "z_bund": 0.1, "bund_water": 10}]


def mk_cfg(entry, kind, y0, rot, nseasons=2):
    crop, plant, wx = entry
    autumn = plant.startswith("1")
    cfg = {"crop": crop, "plant": plant, "wx": wx, "kind": kind}
    if kind == "switch":
        cfg["crop_kw"] = {"SwitchGDD": 1}
    if autumn:
        cfg["start"] = "%d/%s" % (y0, ["10/15", "09/01", "01/01"][rot % 3] if plant == "10/15" else plant)
        cfg["end"] = "%d/09/30" % (y0 + nseasons)
    else:
        cfg["start"] = "%d/%s" % (y0, [plant, "01/01", "03/01"][rot % 3])
        cfg["end"] = "%d/12/30" % (y0 + nseasons - 1)
    s, skw = SOILS[rot % len(SOILS)]
    cfg["soil"] = s
    if skw:
        cfg["soil_kw"] = skw
    irr = IRRS[(rot // 2) % len(IRRS)]
    if irr == "sched":
        mm, dd = plant.split("/")
        d0 = datetime.date(y0, int(mm), int(dd))
        irr = {"method": 3, "sched": [[(d0 + datetime.timedelta(days=k)).isoformat(), dep]
                                      for k, dep in ((10, 20), (30, 25), (55, 30), (80, 25), (375, 20), (400, 30), (440, 25))]}
    cfg["irr"] = irr
    cfg["iwc"] = IWCS[(rot // 3) % len(IWCS)]
    cfg["field"] = FIELDS[(rot // 5) % len(FIELDS)]
    if rot % 7 == 3:
        cfg["gw"] = {"water_table": "Y", "dates": [cfg["start"]], "values": [2.5]}
    if rot % 11 == 5:
        cfg["off_season"] = True
    if rot % 4 == 1:
        cfg["co2"] = {"constant_conc": True, "current_concentration": 450.0}
    return cfg


def sig(cfg):
    return "%s%s|%s|irr=%s|%s%s|%s-%s" % (cfg["crop"], "+SwitchGDD" if cfg.get("crop_kw") else "", cfg["soil"],
                                          cfg["irr"]["method"] if cfg.get("irr") else 0, "gw" if cfg.get("gw") else "nogw",
                                          "|offseason" if cfg.get("off_season") else "", cfg["start"], cfg["end"])


def clip(wdf, start, end, lead=0, trail=0):
    import pandas as pd
    s = pd.to_datetime(start) - pd.Timedelta(days=lead)
    e = pd.to_datetime(end) + pd.Timedelta(days=trail)
    return wdf[(wdf.Date >= s) & (wdf.Date <= e)].reset_index(drop=True).copy()


PERTURB = {
    "temp": ["plus6", "minus9", "swing", "const"],
    "rain": ["zero", "storms", "scale3"],
    "et0": ["scale1.8", "min0.1", "plus2"],
}


def perturb(w, k, var, shape):
    """return copy of w with records at positions >= k changed in one variable only."""
    import numpy as np
    w = w.copy()
    n = len(w) - k
    idx = np.arange(k, len(w))
    if var == "temp":
        tmin, tmax = w["MinTemp"].to_numpy().copy(), w["MaxTemp"].to_numpy().copy()
        if shape == "plus6":
            tmin[idx] += 6.0
            tmax[idx] += 6.0
        elif shape == "minus9":
            tmin[idx] -= 9.0
            tmax[idx] -= 9.0
        elif shape == "swing":
            d = 5.0 * np.sin(np.arange(n) / 3.0)
            tmin[idx] += d
            tmax[idx] += d + 1.5
        elif shape == "const":
            tmin[idx] = 12.0
            tmax[idx] = 24.0
        w["MinTemp"], w["MaxTemp"] = tmin, tmax
    elif var == "rain":
        p = w["Precipitation"].to_numpy().copy()
        if shape == "zero":
            p[idx] = 0.0
        elif shape == "storms":
            p[idx] = np.where(np.arange(n) % 3 == 0, p[idx] + 40.0, p[idx])
        elif shape == "scale3":
            p[idx] = p[idx] * 3.0 + 0.5
        w["Precipitation"] = p
    elif var == "et0":
        e = w["ReferenceET"].to_numpy().copy()
        if shape == "scale1.8":
            e[idx] *= 1.8
        elif shape == "min0.1":
            e[idx] = 0.1
        elif shape == "plus2":
            e[idx] += 2.0
        w["ReferenceET"] = e
    return w


# --------------------------------------------------------------------------- job runners
def job_cut(job):
    import numpy as np
    cfg = job["cfg"]
    out = {"type": "CUT", "sig": sig(cfg), "cases": 0, "nontrivial": 0, "failures": [], "harness": [], "skipped": 0, "sample": None}
    try:
        w = clip(weather(cfg["wx"]), cfg["start"], cfg["end"], job.get("lead", 0), job.get("trail", 0))
        off = job.get("lead", 0)
        try:
            base = run(cfg, w)
        except BaseException as e:  # noqa
            out["harness"].append("invalid base config (excluded) %s: %s: %s" % (out["sig"], type(e).__name__, str(e)[:80]))
            return out
        for (k, var, shape, where) in job["variants"]:
            wp = perturb(w, k + off, var, shape)
            try:
                v = run(cfg, wp)
            except BaseException as e:  # noqa
                out["skipped"] += 1
                out["harness"].append("perturbed weather made the model raise (skipped) %s k=%d %s/%s: %s" % (out["sig"], k, var, shape, str(e)[:80]))
                continue
            out["cases"] += 1
            after_differs = any(base[t][k:].tobytes() != v[t][k:].tobytes() for t in DAILY) if base["water_flux"].shape == v["water_flux"].shape else True
            active_before = k > 0 and float(np.nansum(np.abs(base["water_flux"][:k, 5:]))) > 0
            if after_differs and active_before:
                out["nontrivial"] += 1
            bad = rows_equal(base, v, k)
            nseas = sum(1 for h in base["harvest_steps"] if h < k - 1)
            fbad = final_equal(base, v, nseas) if nseas else None
            if bad or fbad:
                first = bad[0] if bad else ("final_stats", "row", fbad)
                if cfg["kind"] == "switch":
                    signature = "CUT|SwitchGDD=1|var=%s" % var
                    note = " [CD->GDD calendar conversion (compute_crop_calendar/prepare_gdd) reads temperatures of the whole window]"
                else:
                    signature = "CUT|calendar-day|var=%s|irr=%s|leak=%s.%s" % (var, cfg["irr"]["method"] if cfg.get("irr") else 0, first[0], first[1])
                    note = ""
                out["failures"].append({
                    "signature": signature,
                    "clause": "for calendar-day crops changing weather on day t or later never changes any output for a day before t",
                    "detail": "cut index k=%d (%s), %s perturbed (%s) on records >= k; %s%s%s ; case %s" % (
                        k, where, var, shape, "; ".join(b[2] for b in bad[:3]) if bad else "", (" ; " + fbad) if fbad else "", note, out["sig"]),
                    "repro": json.dumps({"cfg": cfg, "weather": "prepare_weather(%s) clipped to window" % cfg["wx"], "perturb_from_row": k,
                                         "variable": var, "shape": shape, "see": "perturb() in /verif/e3/c14_lookahead.py"})})
            if out["sample"] is None:
                out["sample"] = {"clause": "CUT", "case": out["sig"], "cut_row": k, "where": where, "variable": var, "shape": shape,
                                 "rows_after_cut_changed": bool(after_differs), "rows_before_cut_identical": not bool(bad)}
    except BaseException:  # noqa
        out["harness"].append("job_cut %s: %s" % (out["sig"], traceback.format_exc()[-500:]))
    return out


def garbage(w, mode):
    import numpy as np
    w = w.copy()
    if mode == "extreme":
        w["MinTemp"], w["MaxTemp"], w["Precipitation"], w["ReferenceET"] = -35.0, 58.0, 300.0, 25.0
    elif mode == "nan":
        for c in ("MinTemp", "MaxTemp", "Precipitation", "ReferenceET"):
            w[c] = np.nan
    return w


def job_outside(job):
    import pandas as pd
    cfg = job["cfg"]
    out = {"type": "OUTSIDE", "sig": sig(cfg), "cases": 0, "nontrivial": 0, "failures": [], "harness": [], "skipped": 0, "sample": None}
    try:
        full = weather(cfg["wx"])
        w0 = clip(full, cfg["start"], cfg["end"])
        try:
            base = run(cfg, w0)
        except BaseException as e:  # noqa
            out["harness"].append("invalid base config (excluded) %s: %s: %s" % (out["sig"], type(e).__name__, str(e)[:80]))
            return out
        n = len(base["water_flux"])
        for (L, T, mode) in job["variants"]:
            wl = clip(full, cfg["start"], cfg["end"], L, T)
            if mode == "gap":
                # the extra leading records are not contiguous: a block of days is missing from them (all of it before the window)
                s_ = pd.to_datetime(cfg["start"])
                lead_idx = wl.index[wl.Date < s_]
                if len(lead_idx) >= 20:
                    drop = lead_idx[len(lead_idx) // 3: len(lead_idx) // 3 + 9]
                    wl = wl.drop(index=drop).reset_index(drop=True)
            elif mode != "real":
                s, e = pd.to_datetime(cfg["start"]), pd.to_datetime(cfg["end"])
                outside = (wl.Date < s) | (wl.Date > e)
                g = garbage(wl, mode)
                for c in ("MinTemp", "MaxTemp", "Precipitation", "ReferenceET"):
                    wl[c] = wl[c].where(~outside, g[c])
            nl = int((wl.Date < pd.to_datetime(cfg["start"])).sum())
            nt = int((wl.Date > pd.to_datetime(cfg["end"])).sum())
            out["cases"] += 1
            if nl + nt > 0:
                out["nontrivial"] += 1
            exc = None
            try:
                v = run(cfg, wl)
                bad = rows_equal(base, v, n) if v["water_flux"].shape[0] == n else [("water_flux", "rows", "row count %d vs %d" % (n, v["water_flux"].shape[0]))]
                fbad = final_equal(base, v, len(base["final_num"])) if len(base["final_num"]) == len(v["final_num"]) else "final_stats row count differs"
            except BaseException as e:  # noqa
                exc, bad, fbad = e, None, None
            if exc is not None or bad or fbad:
                out["failures"].append({
                    "signature": "OUTSIDE|%s|lead=%s|trail=%s|%s" % (cfg["kind"], "0" if nl == 0 else "+", "0" if nt == 0 else "+",
                                                                      ("raises-" + type(exc).__name__) if exc is not None else "differs"),
                    "clause": "for every crop, weather records outside the simulation window have no effect",
                    "detail": "%d leading / %d trailing extra records (%s values): %s ; case %s" % (
                        nl, nt, mode, ("raised %s: %s" % (type(exc).__name__, str(exc)[:120])) if exc is not None else
                        ("; ".join(b[2] for b in (bad or [])[:3]) + (" ; " + fbad if fbad else "")), out["sig"]),
                    "repro": json.dumps({"cfg": cfg, "leading_rows": nl, "trailing_rows": nt, "fill": mode})})
            if out["sample"] is None and nl + nt > 0:
                out["sample"] = {"clause": "OUTSIDE", "case": out["sig"], "leading": nl, "trailing": nt, "fill": mode,
                                 "identical": exc is None and not bad and not fbad}
    except BaseException:  # noqa
        out["harness"].append("job_outside %s: %s" % (out["sig"], traceback.format_exc()[-500:]))
    return out


def job_extend(job):
    import pandas as pd
    cfg = job["cfg"]
    out = {"type": "EXTEND", "sig": sig(cfg), "cases": 0, "nontrivial": 0, "failures": [], "harness": [], "skipped": 0, "sample": None}
    try:
        full = weather(cfg["wx"])
        try:
            base = run(cfg, full.copy())
        except BaseException as e:  # noqa
            out["harness"].append("invalid base config (excluded) %s: %s: %s" % (out["sig"], type(e).__name__, str(e)[:80]))
            return out
        hs = base["harvest_steps"]
        ndone = len(hs)
        upto = (max(hs) + 1) if hs else 0
        for d in job["variants"]:
            c2 = copy.deepcopy(cfg)
            e2 = pd.to_datetime(cfg["end"]) + pd.Timedelta(days=d)
            if e2 > full.Date.iloc[-1]:
                continue
            c2["end"] = e2.strftime("%Y/%m/%d")
            try:
                v = run(c2, full.copy())
            except BaseException as e:  # noqa
                out["skipped"] += 1
                continue
            out["cases"] += 1
            if ndone > 0:
                out["nontrivial"] += 1
            bad = rows_equal(base, v, upto) if upto else None
            fbad = final_equal(base, v, ndone) if ndone and len(v["final_num"]) >= ndone else (
                "extended run has only %d final_stats rows, base had %d" % (len(v["final_num"]), ndone) if ndone else None)
            if bad or fbad:
                newyear = cfg["plant"].startswith("1")
                out["failures"].append({
                    "signature": ("EXTEND|SwitchGDD=1" if cfg["kind"] == "switch" else
                                  "EXTEND|%s|%s" % (cfg["kind"], "season-spans-new-year" if newyear else "season-within-year")),
                    "clause": "extending the end date leaves the results of already completed seasons unchanged",
                    "detail": "end %s -> %s (+%d d); base completed %d season(s), last harvest step %d; %s%s%s ; case %s" % (
                        cfg["end"], c2["end"], d, ndone, upto - 1, "; ".join(b[2] for b in (bad or [])[:3]), (" ; " + fbad) if fbad else "",
                        " [CD->GDD conversion averages growth-stage GDD over all seasons in the window (prepare_gdd)]" if cfg["kind"] == "switch" else "",
                        out["sig"]),
                    "repro": json.dumps({"cfg": cfg, "extended_end": c2["end"]})})
            if out["sample"] is None and ndone:
                out["sample"] = {"clause": "EXTEND", "case": out["sig"], "extended_end": c2["end"], "completed_seasons_in_base": ndone,
                                 "rows_compared": upto, "identical": not bad and not fbad}
    except BaseException:  # noqa
        out["harness"].append("job_extend %s: %s" % (out["sig"], traceback.format_exc()[-500:]))
    return out


def dispatch(job):
    return {"CUT": job_cut, "OUTSIDE": job_outside, "EXTEND": job_extend}[job["type"]](job)


def cut_positions(cfg, rng):
    """cut rows (index into the window) with a label."""
    import pandas as pd
    s, e = pd.to_datetime(cfg["start"]), pd.to_datetime(cfg["end"])
    n = (e - s).days + 1
    mm, dd = cfg["plant"].split("/")
    p0 = pd.Timestamp(s.year, int(mm), int(dd))
    if p0 < s:
        p0 = pd.Timestamp(s.year + 1, int(mm), int(dd))
    k0 = (p0 - s).days
    pos = [(1, "second day of window")]
    if k0 > 3:
        pos.append((k0 - 2, "before first planting"))
    for dap, lab in ((0, "planting day"), (1, "dap 1"), (6, "emergence phase"), (25, "canopy growth"), (60, "mid season"),
                     (95, "yield formation"), (130, "late season"), (200, "after harvest / gap"), (330, "gap before 2nd planting"),
                     (366, "2nd season dap 1"), (420, "2nd season mid")):
        pos.append((k0 + dap, lab))
    pos.append((k0 + rng.randrange(2, 150), "random in season 1"))
    pos.append((n - 3, "end of window"))
    return [(k, lab) for k, lab in pos if 1 <= k < n - 1]


def source_digest():
    """sha256 over the .py files of the installed aquacrop package (to notice edits of /repo during the run)."""
    import hashlib
    import importlib.util
    root = os.path.dirname(importlib.util.find_spec("aquacrop").origin)
    h = hashlib.sha256()
    for d, _, fs in sorted(os.walk(root)):
        for f in sorted(fs):
            if f.endswith(".py"):
                h.update(f.encode())
                h.update(open(os.path.join(d, f), "rb").read())
    return h.hexdigest()


def main():
    ap = argparse.ArgumentParser()
    ap.add_argument("--tier", choices=["quick", "thorough"], default="quick")
    ap.add_argument("--seed", type=int, default=0)
    ap.add_argument("--out", required=True)
    a = ap.parse_args()
    import random
    import multiprocessing as mp
    t0 = time.time()
    rng = random.Random(a.seed)
    try:
        src0 = source_digest()
    except Exception:  # noqa
        src0 = None
    quick = a.tier == "quick"
    res = {"property": PROP, "tier": a.tier, "seed": a.seed}
    failures, exceptions, samples = [], [], []
    tot = {"CUT": [0, 0, 0], "OUTSIDE": [0, 0, 0], "EXTEND": [0, 0, 0]}
    try:
        jobs = []

        def year(wx):
            return rng.randrange(1983, 1996) if wx == "champion" else rng.randrange(1980, 1995)

        # ---- CUT ------------------------------------------------------------------
        ncd = 6 if quick else len(CD_CROPS)
        nrot_cut = 1 if quick else 2
        ncutjobs = 0
        cut_entries = [(e, "cd") for e in CD_CROPS[:ncd]] + [(e, "switch") for e in SWITCH_CROPS[: (1 if quick else 2)]]
        for ei, (entry, kind) in enumerate(cut_entries):
            for r in range(nrot_cut):
                rot = ei + 3 * r + a.seed if r == 0 else rng.randrange(0, 400)
                cfg = mk_cfg(entry, kind, year(entry[2]), rot)
                pos = cut_positions(cfg, rng)
                if quick or r > 0:
                    pos = [pos[i] for i in sorted(rng.sample(range(len(pos)), min(6, len(pos))))]
                variants = []
                for (k, lab) in pos:
                    for var in ("temp", "rain", "et0"):
                        if quick:
                            shapes = [PERTURB[var][(k + ei) % len(PERTURB[var])]]
                        elif r == 0:
                            # two shapes per variable and cut row, rotating so that all shapes occur for every configuration
                            pi = [p[0] for p in pos].index(k)
                            shapes = [PERTURB[var][(pi + j) % len(PERTURB[var])] for j in range(2)]
                        else:
                            shapes = PERTURB[var]
                        for sh in shapes:
                            variants.append((k, var, sh, lab))
                # split into chunks for parallelism
                step = 9 if quick else 14
                for i in range(0, len(variants), step):
                    jobs.append({"type": "CUT", "cfg": cfg, "variants": variants[i:i + step],
                                 "lead": 0 if r % 2 == 0 else 45, "trail": 0 if r % 2 == 0 else 20})
                    ncutjobs += 1
        # ---- OUTSIDE --------------------------------------------------------------
        all_entries = [(e, "cd") for e in CD_CROPS] + [(e, "gdd") for e in GDD_CROPS] + [(e, "switch") for e in SWITCH_CROPS[:2]]
        if quick:
            all_entries = [all_entries[i] for i in (0, 1, 3, 17, 18, 19, 36)]
        LT = [0, 1, 30, 365, 400]
        for ei, (entry, kind) in enumerate(all_entries):
            cfg = mk_cfg(entry, kind, year(entry[2]) + (1 if entry[2] == "champion" else 2), ei + a.seed + 1)
            # need >= 400 days of real records before the window: champion starts 1982, tunis 1979
            combos = [(L, T) for L in LT for T in LT if (L, T) != (0, 0)]
            if quick:
                combos = [combos[i] for i in sorted(rng.sample(range(len(combos)), 5))]
            variants = []
            for ci, (L, T) in enumerate(combos):
                if quick:
                    modes = [["real", "extreme", "nan"][(ci + ei) % 3]]
                else:
                    modes = ["real", "extreme", "nan"] if (L in (0, 1, 400) and T in (0, 1, 400)) else [["real", "extreme", "nan"][(ci + ei) % 3]]
                for mo in modes:
                    variants.append((L, T, mo))
                if L >= 30 and (T == 0 or not quick):
                    variants.append((L, T, "gap"))
            step = 5 if quick else 12
            for i in range(0, len(variants), step):
                jobs.append({"type": "OUTSIDE", "cfg": cfg, "variants": variants[i:i + step]})
        # ---- EXTEND ---------------------------------------------------------------
        DELTAS = [1, 2, 7, 30, 61, 91, 182, 365, 366, 400, 548, 730]
        ext_entries = all_entries if quick else [(e, "cd") for e in CD_CROPS] + [(e, "gdd") for e in GDD_CROPS] + [(e, "switch") for e in SWITCH_CROPS]
        for ei, (entry, kind) in enumerate(ext_entries):
            autumn = entry[1].startswith("1")
            ends = (["+1/09/30", "+1/06/20", "+2/02/01", "+1/10/10"] if autumn else ["+0/12/30", "+1/03/01", "+1/08/01", "+0/10/15"])
            if quick:
                ends = [ends[(ei + a.seed) % len(ends)], ends[(ei + a.seed + 2) % len(ends)]]
            else:
                ends = [ends[(ei + a.seed + j) % len(ends)] for j in range(3)]
            for bi, en in enumerate(ends):
                y0 = year(entry[2])
                cfg = mk_cfg(entry, kind, y0, ei + 2 * bi + a.seed)
                dy, md = en[1:].split("/", 1)
                cfg["end"] = "%d/%s" % (y0 + int(dy), md)
                if cfg.get("irr") and cfg["irr"]["method"] == 3:
                    pass
                ds = DELTAS if not quick else sorted(set([DELTAS[i] for i in rng.sample(range(len(DELTAS)), 3)] + [365]))
                step = 4 if quick else 6
                for i in range(0, len(ds), step):
                    jobs.append({"type": "EXTEND", "cfg": cfg, "variants": ds[i:i + step]})
        # fixed EXTEND case (independent of the seed): years between the decadal rows of the default CO2 record (2010, 2020, ...); the
        # extension crosses 2020, so a concentration derived from the simulated period instead of the record would change completed seasons
        cfgx = mk_cfg(("Potato", "04/15", "cambridge"), "cd", 2009, 0, nseasons=6)
        jobs.append({"type": "EXTEND", "cfg": cfgx, "variants": [365, 2200]})
        # longest jobs first
        order = sorted(range(len(jobs)), key=lambda i: -len(jobs[i]["variants"]))
        with mp.Pool(16, maxtasksperchild=20) as pool:
            outs_sorted = pool.map(dispatch, [jobs[i] for i in order], chunksize=1)
        outs = [None] * len(jobs)
        for i, o in zip(order, outs_sorted):
            outs[i] = o
        skipped = {"CUT": 0, "OUTSIDE": 0, "EXTEND": 0}
        cfgs_by_type = {"CUT": set(), "OUTSIDE": set(), "EXTEND": set()}
        per_type_samples = {"CUT": [], "OUTSIDE": [], "EXTEND": []}
        for o in outs:
            t = o["type"]
            tot[t][0] += o["cases"]
            tot[t][1] += o["nontrivial"]
            skipped[t] += o["skipped"]
            if o["cases"]:
                cfgs_by_type[t].add(o["sig"])
            for h in o["harness"]:
                # model raising on a perturbed/garbage input or an invalid window is bookkeeping, not a harness fault;
                # keep the list short
                if len(exceptions) < 40 and h not in exceptions:
                    exceptions.append(h)
            failures.extend(o["failures"])
            if o["sample"]:
                per_type_samples[t].append(o["sample"])
        for t in ("CUT", "OUTSIDE", "EXTEND"):
            samples.extend(per_type_samples[t][:2])
        ded = {}
        for f in failures:
            if f["signature"] in ded:
                ded[f["signature"]]["n"] += 1
            else:
                ded[f["signature"]] = dict(f, n=1)
        failures = []
        for f in ded.values():
            nrep = f.pop("n")
            f["detail"] = "[%d cases with this signature] %s" % (nrep, f["detail"])
            failures.append(f)
        res["lattice"] = (
            "BOUNDED. CUT: %d configurations (%d calendar-day crop entries + %d SwitchGDD=1 entries, x%d rotation(s) of 6 soils/6 irrigation "
            "options incl. dated schedule/3 IWC/4 field-mngt/groundwater/off_season/CO2; 2-season windows; real tunis/champion weather, on odd rotations "
            "with 45 leading + 20 trailing extra records) x cut rows {2nd day, before planting, planting day, dap 1/6/25/60/95/130/200/330/366/420, "
            "random, end of window}%s x variables {temp,rain,et0} x shapes %s = %d perturbed runs. "
            "OUTSIDE: %d configurations (calendar-day, thermal-time and SwitchGDD=1 crops) x (leading,trailing) in {0,1,30,365,400}^2 minus (0,0)%s "
            "x fill {real records, extreme finite values, NaN}%s = %d runs against the exactly-clipped table. "
            "EXTEND: %d base windows (each crop entry x %d of 4 base end dates: after harvest / mid-season / before next planting / in gap) x end-date "
            "extension by %s days%s = %d extended runs (%d extended windows on which the model itself raises were skipped as invalid). "
            "All comparisons bitwise on water_flux, water_storage, crop_growth rows and final_stats rows."
            % (len(cfgs_by_type["CUT"]), ncd, len(cut_entries) - ncd, nrot_cut, " (6 sampled per configuration)" if quick else " (all for the first rotation, 6 sampled for the second)",
               "1 per variable (rotating)" if quick else "2 rotating per variable and cut row (first rotation) / all (second rotation) of " + json.dumps(PERTURB), tot["CUT"][0],
               len(cfgs_by_type["OUTSIDE"]), " (5 sampled per configuration)" if quick else "", " (1 rotating)" if quick else " (all three when L,T in {0,1,400}, else 1 rotating)", tot["OUTSIDE"][0],
               len(cfgs_by_type["EXTEND"]), 2 if quick else 3, DELTAS, " (365 d + 3 sampled per base window)" if quick else "", tot["EXTEND"][0], skipped["EXTEND"]))
        res["rule"] = ("a case is one variant run compared with its base run. Non-trivial -- CUT: the perturbation changed at least one output row "
                       ">= the cut row AND the base run has non-zero fluxes before the cut row (so there was something to protect); OUTSIDE: at least "
                       "one extra record was actually added; EXTEND: the base run completed at least one season (has a final_stats row). Base "
                       "configurations / extended windows / perturbed inputs on which the model raises by itself are excluded and listed under 'exceptions' "
                       "(bookkeeping, not harness faults).")
    except Exception:  # noqa
        exceptions.append("harness: " + traceback.format_exc()[-1500:])
        res.setdefault("lattice", "harness error before enumeration completed")
        res.setdefault("rule", "")
    res["cases"] = sum(v[0] for v in tot.values())
    res["distinct_nontrivial"] = sum(v[1] for v in tot.values())
    res["failures"] = failures
    res["samples"] = samples[:8]
    try:
        if src0 is not None and source_digest() != src0:
            exceptions.append("note: aquacrop source files changed on disk while the harness was running; every comparison is made between "
                              "runs of one worker process (one imported copy of the package), so reported results remain self-consistent")
    except Exception:  # noqa
        pass
    res["wall_s"] = round(time.time() - t0, 2)
    res["exceptions"] = exceptions
    json.dump(res, open(a.out, "w"), indent=1, default=str)
    print("%s %s: cases=%d (CUT %d, OUTSIDE %d, EXTEND %d) nontrivial=%d failure-signatures=%d exceptions=%d wall=%.1fs" %
          (PROP, a.tier, res["cases"], tot["CUT"][0], tot["OUTSIDE"][0], tot["EXTEND"][0], res["distinct_nontrivial"],
           len(failures), len(exceptions), res["wall_s"]))
    return 0


if __name__ == "__main__":
    sys.exit(main())
