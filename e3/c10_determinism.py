#!/venv/bin/python
"""E3 bounded check for property C10 -- runs are deterministic, model instances are isolated.

BOUNDED, NOT PROVED.  What is enumerated (see the 'lattice' field of the output):

  (a) instance isolation.  A pool of N valid configurations is generated from --seed.  Every
      configuration B is run ALONE in a fresh interpreter subprocess (reference).  Then a set
      of seeded HISTORIES is run, each in one fresh interpreter subprocess: a history is a
      sequence of steps (config, kind) with kind in
          run        build entities + model, run till termination           (compared)
          construct  build entities + model only
          init       build + model._initialize() only
          partial    build + run 40 steps
          runtwice   build + run till termination twice on the same model (may raise; caught)
          raise      build a configuration that raises during initialisation (caught)
      Every 'run' step of a history is compared table by table (sha256 of the raw
      bytes of water_flux, water_storage, crop_growth and of the final_stats columns) with the
      ALONE reference of the same configuration.
      A second, separately reported clause configures A by an in-place edit of an attribute of
      A's own entity object (iwc = InitialWaterContent(); iwc.value[0] = 'WP') and then runs a
      B that uses the default-constructed entity; this exposes default-argument objects that
      are shared between instances.  A third clause builds A from the same configuration with
      keyword overrides of built-in crop / soil parameters (Crop(name, CCx=..), Soil(name, cn=..))
      and then runs the plain configuration; this exposes built-in parameter tables that are
      written through.
  (b) process / hash-seed independence.  Every configuration is run alone in fresh
      interpreters with different PYTHONHASHSEED values; all hashes must agree.

Usage: c10_determinism.py --tier quick|thorough --seed N --out path.json
"""
import argparse
import hashlib
import json
import os
import subprocess
import sys
import tempfile
import time
import traceback
import warnings

warnings.filterwarnings("ignore")

PROP = "C10"
PY = sys.executable
TABLES = ("water_flux", "water_storage", "crop_growth", "final_stats")

# ----------------------------------------------------------------------------------------
# configuration -> model   (pure function of a JSON-able dict; used by the worker processes)
# ----------------------------------------------------------------------------------------
_WCACHE = {}


def get_weather(key):
    import pandas as pd
    from aquacrop.utils import prepare_weather, get_filepath
    if key not in _WCACHE:
        _WCACHE[key] = prepare_weather(get_filepath(key + "_climate.txt"))
    return _WCACHE[key].copy()


def build(cfg):
    """Build fresh entity objects and a model from a configuration dict."""
    import pandas as pd
    from aquacrop import (AquaCropModel, Soil, Crop, InitialWaterContent,
                          IrrigationManagement, FieldMngt, GroundWater, CO2)
    wdf = get_weather(cfg["wx"])
    soil = Soil(cfg["soil"], **cfg.get("soil_kw", {}))
    crop = Crop(cfg["crop"], planting_date=cfg["plant"], **cfg.get("crop_kw", {}))
    iwc = InitialWaterContent(**cfg["iwc"]) if cfg.get("iwc") is not None else InitialWaterContent()
    kw = {}
    irr = cfg.get("irr")
    if irr is not None:
        ikw = dict(irr.get("kw", {}))
        if irr["method"] == 3:
            sch = pd.DataFrame({"Date": pd.to_datetime([d for d, _ in irr["sched"]]),
                                "Depth": [float(x) for _, x in irr["sched"]]})
            ikw["Schedule"] = sch
        kw["irrigation_management"] = IrrigationManagement(irrigation_method=irr["method"], **ikw)
    if cfg.get("field") is not None:
        kw["field_management"] = FieldMngt(**cfg["field"])
    if cfg.get("fallow") is not None:
        kw["fallow_field_management"] = FieldMngt(**cfg["fallow"])
    if cfg.get("gw") is not None:
        kw["groundwater"] = GroundWater(**cfg["gw"])
    if cfg.get("co2") is not None:
        c = dict(cfg["co2"])
        if "series" in c:
            ser = c.pop("series")
            c["co2_data"] = pd.DataFrame({"year": [y for y, _ in ser], "ppm": [p for _, p in ser]})
        kw["co2_concentration"] = CO2(**c)
    if cfg.get("off_season"):
        kw["off_season"] = True
    model = AquaCropModel(cfg["start"], cfg["end"], wdf, soil, crop, iwc, **kw)
    return model


def table_bytes(x):
    import numpy as np
    import pandas as pd
    if isinstance(x, pd.DataFrame):
        parts = []
        for c in x.columns:
            col = x[c]
            if col.dtype.kind in "fiub":
                parts.append(str(c).encode() + b"|" + str(col.dtype).encode() + b"|" +
                             np.ascontiguousarray(col.to_numpy()).tobytes())
            else:
                parts.append(str(c).encode() + b"|" + "\x1f".join(str(v) for v in col.tolist()).encode())
        return str(x.shape).encode() + b"#" + b"#".join(parts)
    a = np.ascontiguousarray(np.asarray(x))
    return str(a.shape).encode() + str(a.dtype).encode() + a.tobytes()


def outcome(model, dump=None):
    """sha256 per table + a small summary used for the non-triviality rule."""
    import numpy as np
    o = model._outputs
    h, summ = {}, {}
    for t in TABLES:
        h[t] = hashlib.sha256(table_bytes(getattr(o, t))).hexdigest()
    wf = np.asarray(getattr(o.water_flux, "values", o.water_flux), dtype=float)
    summ["rows"] = int(wf.shape[0])
    summ["active_rows"] = int((np.nansum(np.abs(wf[:, 5:]), axis=1) > 0).sum())
    summ["seasons"] = int(len(o.final_stats))
    if dump:
        arrs = {}
        for t in TABLES[:3]:
            arrs[t] = np.asarray(getattr(getattr(o, t), "values", getattr(o, t)), dtype=float)
        fs = o.final_stats
        arrs["final_stats"] = fs.select_dtypes("number").to_numpy(dtype=float)
        np.savez(dump, **arrs)
    return {"hash": h, "summary": summ}


def do_step(step, cfgs, dumpdir=None, pos=0):
    kind = step["kind"]
    cfg = cfgs[step["cfg"]]
    res = {"cfg": step["cfg"], "kind": kind}
    try:
        if kind == "edit_iwc":
            # configure A by editing A's own entity object in place (user-level action)
            from aquacrop import InitialWaterContent
            iwc = InitialWaterContent()
            iwc.value[0] = "WP"
            m = build(cfg)
            m.initial_water_content = iwc
            m.run_model(till_termination=True)
            return res
        if kind == "edit_gw":
            from aquacrop import GroundWater
            gw = GroundWater()
            gw.water_table = "Y"
            gw.dates.append(cfg["start"])
            gw.values.append(2.0)
            m = build(cfg)
            m.groundwater = gw
            m.run_model(till_termination=True)
            return res
        if kind == "override":
            # A = the same configuration with keyword overrides of built-in crop / soil parameters (user-level action); history step only
            c2 = dict(cfg)
            kw = dict(cfg.get("crop_kw", {})); kw.update({"CCx": 0.55, "HI0": 0.30, "WP": 20.0}); c2["crop_kw"] = kw
            skw = dict(cfg.get("soil_kw", {})); skw.update({"cn": 85, "rew": 4.0}); c2["soil_kw"] = skw
            m = build(c2)
            m.run_model(till_termination=True)
            return res
        m = build(cfg)
        if kind == "construct":
            return res
        if kind == "init":
            m._initialize()
            return res
        if kind == "partial":
            m.run_model(num_steps=40)
            return res
        if kind == "raise":
            m.run_model(till_termination=True)
            return res
        m.run_model(till_termination=True)
        if kind == "runtwice":
            # history step only (whether a re-run reproduces the first run is property C11, not C10)
            m.run_model(till_termination=True)
            return res
        dump = os.path.join(dumpdir, "p%d.npz" % pos) if dumpdir else None
        res.update(outcome(m, dump))
    except BaseException as e:  # noqa
        res["exc"] = "%s: %s" % (type(e).__name__, str(e)[:160])
    return res


def worker_main(specfile):
    spec = json.load(open(specfile))
    out = []
    for i, st in enumerate(spec["steps"]):
        out.append(do_step(st, spec["cfgs"], spec.get("dumpdir"), i))
    sys.stdout.write("\n@@RESULT@@" + json.dumps(out) + "\n")


# ----------------------------------------------------------------------------------------
# harness
# ----------------------------------------------------------------------------------------
CROPS = [  # (crop, planting, weather, kind)   all verified to run on SandyLoam 2-3 seasons
    ("Wheat", "10/15", "tunis", "cd"), ("Maize", "04/15", "champion", "cd"),
    ("Potato", "04/15", "tunis", "cd"), ("Tomato", "04/15", "champion", "cd"),
    ("Cotton", "04/15", "champion", "cd"), ("Barley", "10/15", "tunis", "cd"),
    ("Sorghum", "04/15", "champion", "cd"), ("Soybean", "04/15", "tunis", "cd"),
    ("SugarBeet", "04/15", "champion", "cd"), ("DryBean", "04/15", "champion", "cd"),
    ("Quinoa", "10/15", "tunis", "cd"), ("Sunflower", "04/15", "champion", "cd"),
    ("PaddyRice", "10/15", "tunis", "cd"), ("Tef", "04/15", "champion", "cd"),
    ("WheatGDD", "10/15", "tunis", "gdd"), ("MaizeChampionGDD", "04/15", "champion", "gdd"),
    ("PotatoGDD", "04/15", "tunis", "gdd"), ("BarleyGDD", "10/15", "champion", "gdd"),
    ("SugarBeetGDD", "04/15", "champion", "gdd"), ("MaizeGDD", "04/15", "champion", "gdd"),
    ("SunflowerGDD", "04/15", "champion", "gdd"), ("DryBeanGDD", "10/15", "tunis", "gdd"),
    ("Potato", "04/15", "tunis", "switch"), ("Tomato", "04/15", "tunis", "switch"),
]
SOILS = [("SandyLoam", {}), ("Clay", {}), ("Loam", {}), ("ClayLoam", {}), ("Sand", {}),
         ("Paddy", {}), ("ac_TunisLocal", {}), ("SiltLoam", {}),
         ("SandyLoam", {"dz": [0.1] * 12}), ("Loam", {"dz": [0.15] * 10}),
         ("ClayLoam", {"dz": [0.05] * 4 + [0.1] * 10}), ("SiltClay", {"calc_cn": 1, "adj_rew": 0})]
IWCS = [None, None, {"value": ["FC"]}, {"value": ["WP"]}, {"value": ["SAT"]},
        {"wc_type": "Pct", "value": [50]}, {"wc_type": "Num", "value": [0.2]},
        {"wc_type": "Pct", "method": "Depth", "depth_layer": [0.2, 0.9], "value": [30, 80]}]
FIELDS = [None, None, None, {"mulches": True, "mulch_pct": 60, "f_mulch": 0.4},
          {"bunds": True, "z_bund": 0.1, "bund_water": 10}, {"sr_inhb": True},
          {"curve_number_adj": True, "curve_number_adj_pct": -10}]
CO2S = [None, None, None, {"constant_conc": True, "current_concentration": 500.0},
        {"constant_conc": True}, {"series": [[1900, 300.0], [1990, 355.0], [2100, 700.0]]}]


def irr_options(year0, plant):
    mm, dd = plant.split("/")
    import datetime
    d0 = datetime.date(year0, int(mm), int(dd))
    sched = [[(d0 + datetime.timedelta(days=k)).isoformat(), dep]
             for k, dep in ((10, 20), (30, 25), (55, 30), (80, 25), (380, 20), (410, 30))]
    return [None, None, {"method": 0}, {"method": 1, "kw": {"SMT": [70, 60, 50, 40]}},
            {"method": 1, "kw": {"SMT": [40, 60, 70, 30], "MaxIrr": 15}},
            {"method": 2, "kw": {"IrrInterval": 7}}, {"method": 2, "kw": {}},
            {"method": 3, "sched": sched}, {"method": 4, "kw": {"NetIrrSMT": 70}},
            {"method": 4, "kw": {}}, {"method": 5, "kw": {"depth": 4}}]


def gen_pool(rng, n):
    """n configurations; the first len(CROPS) use each crop once so all crops are covered."""
    pool = []
    for i in range(n):
        crop, plant, wx, kind = CROPS[i % len(CROPS)] if i < len(CROPS) else CROPS[rng.randrange(len(CROPS))]
        lo = 1983 if wx == "champion" else 1980
        y0 = rng.randrange(lo, 1996)
        nyears = rng.choice([1, 2, 2, 3])
        autumn = plant.startswith("1")
        start = "%d/%s" % (y0, rng.choice(["01/01", plant, "03/01"] if not autumn else ["01/01", plant, "09/01"]))
        if autumn:
            end = "%d/%s" % (y0 + nyears, rng.choice(["09/30", "08/15"]))
        else:
            end = "%d/%s" % (y0 + nyears - 1, rng.choice(["12/30", "12/31"]))
        cfg = {"crop": crop, "plant": plant, "wx": wx, "start": start, "end": end}
        if kind == "switch":
            cfg["crop_kw"] = {"SwitchGDD": 1}
        s, skw = SOILS[rng.randrange(len(SOILS))] if i >= 4 else SOILS[i]
        cfg["soil"] = s
        if skw:
            cfg["soil_kw"] = skw
        cfg["iwc"] = IWCS[rng.randrange(len(IWCS))]
        cfg["irr"] = irr_options(y0, plant)[rng.randrange(11)]
        cfg["field"] = FIELDS[rng.randrange(len(FIELDS))]
        cfg["co2"] = CO2S[rng.randrange(len(CO2S))]
        g = rng.randrange(8)
        if g == 0:
            cfg["gw"] = {"water_table": "Y", "dates": [start], "values": [2.0]}
        elif g == 1:
            cfg["gw"] = {"water_table": "Y", "method": "Variable",
                         "dates": [start, end], "values": [1.5, 3.0]}
        elif g == 2:
            cfg["gw"] = {}          # explicit default-constructed GroundWater()
        if rng.randrange(6) == 0:
            cfg["off_season"] = True
        pool.append(cfg)
    return pool


def sig(cfg):
    irr = cfg.get("irr")
    parts = [cfg["crop"] + ("+switch" if cfg.get("crop_kw") else ""), cfg["soil"] + ("+kw" if cfg.get("soil_kw") else ""),
             "irr=%s" % (irr["method"] if irr else "none"),
             "iwc=%s" % ("default" if cfg.get("iwc") is None else "%s%s" % (cfg["iwc"].get("wc_type", "Prop"), cfg["iwc"]["value"][0])),
             "gw=%s" % ("none" if cfg.get("gw") is None else ("default" if not cfg["gw"] else cfg["gw"].get("method", "Constant"))),
             "fm=%s" % ("none" if not cfg.get("field") else sorted(cfg["field"])[0]),
             "co2=%s" % ("none" if not cfg.get("co2") else sorted(cfg["co2"])[0]),
             "off" if cfg.get("off_season") else "noff", cfg["start"] + "-" + cfg["end"]]
    return "|".join(parts)


def source_digest():
    """sha256 over all .py files of the installed aquacrop package (detects edits of /repo during the run)."""
    import aquacrop
    root = os.path.dirname(aquacrop.__file__)
    h = hashlib.sha256()
    for d, _, fs in sorted(os.walk(root)):
        for f in sorted(fs):
            if f.endswith(".py"):
                h.update(f.encode())
                h.update(open(os.path.join(d, f), "rb").read())
    return h.hexdigest()


def launch(spec, hashseed, tmpdir, tag):
    """Run one worker interpreter; returns (list_of_step_results | None, error_text)."""
    p = os.path.join(tmpdir, tag + ".json")
    json.dump(spec, open(p, "w"))
    env = dict(os.environ)
    env["PYTHONHASHSEED"] = str(hashseed)
    env["PYTHONWARNINGS"] = "ignore"
    env["OMP_NUM_THREADS"] = "1"
    env["OPENBLAS_NUM_THREADS"] = "1"
    try:
        r = subprocess.run([PY, os.path.abspath(__file__), "--worker", p], env=env,
                           capture_output=True, text=True, timeout=800)
    except subprocess.TimeoutExpired:
        return None, "worker timeout"
    k = r.stdout.rfind("@@RESULT@@")
    if k < 0:
        return None, "worker failed rc=%s stderr=%s" % (r.returncode, r.stderr[-400:])
    return json.loads(r.stdout[k + 10:]), ""


def first_diff(npz_a, npz_b):
    import numpy as np
    a, b = np.load(npz_a), np.load(npz_b)
    out = []
    for t in TABLES:
        x, y = a[t], b[t]
        if x.shape != y.shape:
            out.append("%s shape %s vs %s" % (t, x.shape, y.shape))
            continue
        neq = ~((x == y) | (np.isnan(x) & np.isnan(y)))
        if neq.any():
            r, c = np.argwhere(neq)[0]
            out.append("%s first diff row %d col %d: alone=%.6g history=%.6g (cells differing: %d, max|d|=%.3g)"
                       % (t, r, c, x[r, c], y[r, c], int(neq.sum()), float(np.nanmax(np.abs(x - y)))))
    return "; ".join(out) if out else "arrays equal as float64 (difference only in non-numeric/bit pattern)"


def main():
    ap = argparse.ArgumentParser()
    ap.add_argument("--tier", choices=["quick", "thorough"], default="quick")
    ap.add_argument("--seed", type=int, default=0)
    ap.add_argument("--out")
    ap.add_argument("--worker")
    a = ap.parse_args()
    if a.worker:
        worker_main(a.worker)
        return 0
    if not a.out:
        ap.error("--out is required")
    import random
    from concurrent.futures import ThreadPoolExecutor
    t0 = time.time()
    rng = random.Random(a.seed)
    quick = a.tier == "quick"
    n_cfg = 14 if quick else 64
    n_hist = 16 if quick else 160
    hist_len = (4, 6) if quick else (6, 10)
    hashseeds = [0, 1 + (a.seed * 7919 + 4242) % 4000000000] if quick else \
        [0, 1 + (a.seed * 7919 + 4242) % 4000000000, 1 + (a.seed * 104729 + 99) % 4000000000, "random"]
    exceptions, failures, samples = [], [], []
    res = {"property": PROP, "tier": a.tier, "seed": a.seed}
    tmpdir = tempfile.mkdtemp(prefix="c10_")
    src0 = source_digest()
    try:
        pool = gen_pool(rng, n_cfg)
        # a configuration that raises at initialisation (D10: window without a season)
        bad_cfg = {"crop": "Wheat", "plant": "10/01", "wx": "tunis", "soil": "SandyLoam",
                   "start": "1980/09/01", "end": "1980/10/31", "iwc": None}
        cfgs = pool + [bad_cfg]
        BAD = len(pool)
        # ---------------- (b) + reference: alone runs under several hash seeds -------------
        jobs = []
        for i in range(len(pool)):
            for hs in hashseeds:
                jobs.append((i, hs))
        with ThreadPoolExecutor(16) as ex:
            alone = list(ex.map(lambda j: launch({"cfgs": cfgs, "steps": [{"cfg": j[0], "kind": "run"}]},
                                                 j[1], tmpdir, "alone_%d_%s" % j), jobs))
        ref = {}
        cases = 0
        nontrivial = 0
        valid = []
        for (i, hs), (r, err) in zip(jobs, alone):
            if r is None:
                exceptions.append("alone cfg %d hashseed %s: %s" % (i, hs, err))
                continue
            ref.setdefault(i, {})[str(hs)] = r[0]
        for i in range(len(pool)):
            rr = ref.get(i, {})
            if str(hashseeds[0]) not in rr:
                continue
            base = rr[str(hashseeds[0])]
            if "exc" in base:
                # not a valid configuration for this property; consistent exceptions are not C10's concern
                exceptions.append("pool config %d raises alone and is excluded: %s -- %s" % (i, sig(pool[i]), base["exc"]))
                continue
            valid.append(i)
            for hs in hashseeds[1:]:
                if str(hs) not in rr:
                    continue
                cases += 1
                o = rr[str(hs)]
                if base["summary"]["active_rows"] > 0:
                    nontrivial += 1
                bad_t = [t for t in TABLES if o.get("hash", {}).get(t) != base["hash"][t]]
                if bad_t or "exc" in o:
                    r1, _ = launch({"cfgs": cfgs, "steps": [{"cfg": i, "kind": "run"}]}, hashseeds[0], tmpdir, "cf_a%d" % i)
                    r2, _ = launch({"cfgs": cfgs, "steps": [{"cfg": i, "kind": "run"}]}, hs if hs != "random" else 4242, tmpdir, "cf_b%d" % i)
                    if r1 and r2 and r1[0].get("hash") == r2[0].get("hash") and "exc" not in r2[0]:
                        exceptions.append("UNCONFIRMED hash-seed difference (not reproduced on re-run): cfg %s" % sig(pool[i]))
                        continue
                    failures.append({
                        "signature": "hashseed|%s" % sig(pool[i]),
                        "clause": "bit-identical outputs across fresh interpreter processes, for any hash seed",
                        "detail": "PYTHONHASHSEED=%s vs %s: tables differing %s %s" % (hashseeds[0], hs, bad_t, o.get("exc", "")),
                        "repro": json.dumps({"cfg": pool[i], "hashseeds": [hashseeds[0], hs], "cmd": "see build() in c10_determinism.py"})})
        # ---------------- (a) histories -------------------------------------------------
        kinds = ["run"] * 6 + ["construct", "init", "partial", "runtwice", "raise"]
        hists = []
        for h in range(n_hist):
            L = rng.randrange(hist_len[0], hist_len[1] + 1)
            steps = []
            for _ in range(L):
                k = rng.choice(kinds)
                steps.append({"cfg": BAD if k == "raise" else rng.choice(valid), "kind": k})
            steps.append({"cfg": rng.choice(valid), "kind": "run"})
            hists.append(steps)
        # make sure every valid config appears at least once as the LAST step of a history
        for j, i in enumerate(valid):
            hists[j % len(hists)][-1] = {"cfg": i, "kind": "run"}
        # edit-clause histories: A configured by in-place edit, then B with default entity
        default_iwc = [i for i in valid if pool[i].get("iwc") is None]
        edit_hists = []
        for i in default_iwc[: (2 if quick else 6)]:
            other = rng.choice(valid)
            edit_hists.append([{"cfg": other, "kind": "edit_iwc"}, {"cfg": i, "kind": "run"}])
        default_gw = [i for i in valid if pool[i].get("gw") is None or pool[i].get("gw") == {}]
        for i in default_gw[: (2 if quick else 6)]:
            other = rng.choice(valid)
            edit_hists.append([{"cfg": other, "kind": "edit_gw"}, {"cfg": i, "kind": "run"}])
        # override-clause histories: A built with keyword overrides of built-in parameters, then the plain configuration
        for i in valid[: (3 if quick else 10)]:
            edit_hists.append([{"cfg": i, "kind": "override"}, {"cfg": i, "kind": "run"}])
        all_h = [("hist", h) for h in hists] + [("edit", h) for h in edit_hists]
        if os.environ.get("C10_DEBUG_DUMP"):
            json.dump({"cfgs": cfgs, "hists": all_h}, open(os.environ["C10_DEBUG_DUMP"], "w"))
        with ThreadPoolExecutor(16) as ex:
            outs = list(ex.map(lambda t: launch({"cfgs": cfgs, "steps": t[1][1]}, hashseeds[t[0] % len(hashseeds)]
                                                if hashseeds[t[0] % len(hashseeds)] != "random" else 0,
                                                tmpdir, "h%d" % t[0]), list(enumerate(all_h))))
        seen_nt = set()
        for hi, ((typ, steps), (r, err)) in enumerate(zip(all_h, outs)):
            if r is None:
                exceptions.append("history %d: %s" % (hi, err))
                continue
            for pos, (st, o) in enumerate(zip(steps, r)):
                if st["kind"] != "run":
                    continue
                cases += 1
                i = st["cfg"]
                base = ref[i][str(hashseeds[0])]
                preds = [(s["cfg"], s["kind"]) for s in steps[:pos]]
                if any(p[0] != i for p in preds) and base["summary"]["active_rows"] > 0:
                    key = (i, tuple(preds), st["kind"])
                    if key not in seen_nt:
                        seen_nt.add(key)
                        nontrivial += 1
                bad_t = [t for t in TABLES if o.get("hash", {}).get(t) != base["hash"][t]]
                if not bad_t and "exc" not in o:
                    continue
                # ---- candidate failure: CONFIRM by re-running both sides back to back (also yields numbers)
                detail = "tables differing: %s %s" % (bad_t, o.get("exc", ""))
                confirmed = True
                try:
                    d1 = tempfile.mkdtemp(dir=tmpdir)
                    d2 = tempfile.mkdtemp(dir=tmpdir)
                    ra, _ = launch({"cfgs": cfgs, "steps": [{"cfg": i, "kind": "run"}], "dumpdir": d1}, 0, tmpdir, "re_a%d_%d" % (hi, pos))
                    rb, _ = launch({"cfgs": cfgs, "steps": steps[:pos + 1], "dumpdir": d2}, 0, tmpdir, "re_h%d_%d" % (hi, pos))
                    if ra and rb and ra[0].get("hash") == rb[pos].get("hash") and "exc" not in rb[pos]:
                        confirmed = False
                    fa, fb = os.path.join(d1, "p0.npz"), os.path.join(d2, "p%d.npz" % pos)
                    if os.path.exists(fa) and os.path.exists(fb):
                        detail += " | " + first_diff(fa, fb)
                except Exception as e:  # noqa
                    exceptions.append("confirmation rerun failed: %r" % (e,))
                if not confirmed:
                    exceptions.append("UNCONFIRMED difference (not reproduced when both sides were re-run back to back; "
                                      "source tree edited during the run or transient): history %d step %d cfg %s" % (hi, pos, sig(pool[i])))
                    continue
                if typ == "edit" and steps[0]["kind"] == "override":
                    signature = "builtin-parameters-written-through|%s" % pool[i]["crop"]
                    clause = ("instances are isolated: a model built with keyword overrides of built-in crop / soil parameters must not change a later "
                              "model built from the plain built-ins")
                    repro = "Crop(%r, CCx=0.55, HI0=0.30, WP=20.0), Soil(%r, cn=85, rew=4.0) run first; then B=%s" % (pool[i]["crop"], pool[i]["soil"], json.dumps(pool[i]))
                elif typ == "edit":
                    ek = steps[0]["kind"]
                    signature = "default-arg-alias|%s" % ("InitialWaterContent.value" if ek == "edit_iwc" else "GroundWater.dates/values")
                    clause = ("instances are isolated: configuring A by an in-place edit of an attribute of A's own entity "
                              "object must not change B built with the default-constructed entity (shared default-argument object)")
                    repro = ("from aquacrop import *; a=InitialWaterContent(); a.value[0]='WP'; b=InitialWaterContent(); print(b.value)  # ['WP']"
                             if ek == "edit_iwc" else
                             "from aquacrop import *; a=GroundWater(); a.dates.append('1990/01/01'); a.values.append(2.0); print(GroundWater().dates)")
                    repro += " ; B=" + json.dumps(pool[i])
                else:
                    signature = "isolation|B=%s|%s|after=%s" % (sig(pool[i]), st["kind"],
                                                                   ",".join("%s:%s" % (k, sig(cfgs[c]).split("|")[0]) for c, k in preds[-3:]))
                    clause = "running other models first then B gives B exactly the results B gives alone"
                    repro = json.dumps({"history": [{"cfg": cfgs[s["cfg"]], "kind": s["kind"]} for s in steps[:pos + 1]]})
                failures.append({"signature": signature, "clause": clause, "detail": detail, "repro": repro})
            if len(samples) < 6 and typ == "hist":
                samples.append({"history": ["%s:%s" % (s["kind"], sig(cfgs[s["cfg"]])) for s in steps],
                                "compared_steps": sum(1 for s in steps if s["kind"] == "run"),
                                "hashseed": str(hashseeds[hi % len(hashseeds)])})
        if edit_hists:
            samples.append({"edit_history": ["%s:%s" % (s["kind"], sig(cfgs[s["cfg"]])) for s in edit_hists[0]]})
        # dedupe failures by signature (keep first, count)
        ded = {}
        for f in failures:
            if f["signature"] in ded:
                ded[f["signature"]]["detail"] += " [+1 more case]" if "[+" not in ded[f["signature"]]["detail"] else ""
            else:
                ded[f["signature"]] = f
        failures = list(ded.values())
        res["lattice"] = (
            "BOUNDED. pool of %d seeded configurations (%d valid; each of %d crop entries [14 calendar-day, 8 GDD, 2 SwitchGDD=1] x "
            "12 soil variants x 8 IWC x 11 irrigation options (methods 0-5 incl. dated Schedule, and 'argument omitted') x 7 field-mngt x 6 CO2 x "
            "4 groundwater (none/default object/constant/variable) x off_season, windows of 1-3 years on tunis/champion weather, sampled by seed); "
            "(b) every configuration run alone in %d fresh interpreters with PYTHONHASHSEED in %s; "
            "(a) %d seeded histories of %d-%d steps + final run, step kinds run/construct/init/partial(40 steps)/runtwice/raise(D10 window), "
            "each history in its own fresh interpreter, every 'run' step compared with the alone reference; "
            "+ %d two-step 'in-place edit of A's default-constructed entity then run B' histories. "
            "Compared bitwise: sha256 of raw bytes of water_flux, water_storage, crop_growth, final_stats (all columns)."
            % (len(pool), len(valid), len(CROPS), len(hashseeds), hashseeds, len(hists), hist_len[0], hist_len[1], len(edit_hists)))
        res["cases"] = cases
        res["distinct_nontrivial"] = nontrivial
        res["rule"] = ("a case is one compared run: (config, other hash seed) for clause (b), or one 'run' step of a history for clause (a). "
                       "Non-trivial: the configuration's reference run has >0 rows with non-zero fluxes/state AND, for clause (a), at least one "
                       "step with a DIFFERENT configuration precedes it in the same process (distinct (config, predecessor sequence) counted once).")
    except Exception:  # harness crash inside main logic -> still write json
        exceptions.append("harness: " + traceback.format_exc()[-1500:])
        res.setdefault("lattice", "harness error before enumeration completed")
        res.setdefault("cases", 0)
        res.setdefault("distinct_nontrivial", 0)
        res.setdefault("rule", "")
    finally:
        import shutil
        shutil.rmtree(tmpdir, ignore_errors=True)
    try:
        if source_digest() != src0:
            exceptions.append("aquacrop source files changed on disk while the harness was running; "
                              "every reported failure was nevertheless confirmed by an immediate back-to-back re-run of both sides")
    except Exception as e:  # noqa
        exceptions.append("source digest: %r" % (e,))
    res["failures"] = failures
    res["samples"] = samples[:8]
    res["wall_s"] = round(time.time() - t0, 2)
    res["exceptions"] = exceptions
    json.dump(res, open(a.out, "w"), indent=1)
    print("%s %s: cases=%d nontrivial=%d failures=%d exceptions=%d wall=%.1fs" %
          (PROP, a.tier, res["cases"], res["distinct_nontrivial"], len(failures), len(exceptions), res["wall_s"]))
    return 0


if __name__ == "__main__":
    sys.exit(main())
