"""Runs under /venv/bin/python.  Captures real calls of the process functions during real model runs:
for every wrapped function, a sample of (deep-copied arguments, result) pairs is written as JSON.
Used by the engine-vs-CPython cross-check (./vcheck crosscheck): the VC generator's own interpreter is run in concrete
mode on the same arguments and must reproduce CPython's results."""
import argparse, json, copy, random, sys, os, types
import numpy as np

FUNCS = ["growing_degree_day", "check_groundwater_table", "pre_irrigation", "drainage", "rainfall_partition", "irrigation", "infiltration",
         "capillary_rise", "germination", "growth_stage", "canopy_cover", "soil_evaporation", "transpiration", "groundwater_inflow",
         "HIref_current_day", "biomass_accumulation", "harvest_index", "root_zone_water", "root_development"]


def ser(x, depth=0):
    if isinstance(x, (bool, np.bool_)):
        return bool(x)
    if isinstance(x, (int, np.integer)):
        return int(x)
    if isinstance(x, (float, np.floating)):
        return float(x)
    if x is None or isinstance(x, str):
        return x
    if isinstance(x, np.ndarray):
        if x.dtype.kind in "fiub":
            return {"__arr__": [float(v) for v in x.tolist()], "int": x.dtype.kind in "iu"}
        return {"__opaque__": "ndarray"}
    if isinstance(x, (list, tuple)):
        return {"__tuple__": [ser(v, depth + 1) for v in x]}
    if hasattr(x, "__dict__") and depth < 3:
        d = {}
        for k, v in x.__dict__.items():
            s = ser(v, depth + 1)
            d[k] = s
        return {"__obj__": type(x).__name__, "fields": d}
    return {"__opaque__": type(x).__name__}


def main():
    ap = argparse.ArgumentParser(); ap.add_argument("--out", required=True); ap.add_argument("--seed", type=int, default=0); ap.add_argument("--per_func", type=int, default=25)
    a = ap.parse_args()
    rng = random.Random(a.seed)
    import aquacrop.timestep.run_single_timestep as rst
    from aquacrop import AquaCropModel, Soil, Crop, InitialWaterContent, IrrigationManagement, FieldMngt, GroundWater
    from aquacrop.utils import prepare_weather, get_filepath
    samples = {f: [] for f in FUNCS}
    seen = {f: 0 for f in FUNCS}

    def wrap(name, fn):
        def w(*args, **kw):
            seen[name] += 1
            take = len(samples[name]) < a.per_func and (seen[name] <= 3 or rng.random() < 0.08)
            if take:
                sargs = [ser(copy.deepcopy(x)) for x in args]
            r = fn(*args, **kw)
            if take:
                samples[name].append({"args": sargs, "result": ser(copy.deepcopy(r))})
            return r
        return w
    for f in FUNCS:
        if hasattr(rst, f):
            setattr(rst, f, wrap(f, getattr(rst, f)))
    wt = prepare_weather(get_filepath("tunis_climate.txt")); wc = prepare_weather(get_filepath("champion_climate.txt"))
    cfgs = [
        dict(w=wt, s="1979/10/01", e="1981/05/30", soil=Soil("SandyLoam"), crop=Crop("Wheat", planting_date="10/01"), iwc=InitialWaterContent(value=["FC"]), kw={}),
        dict(w=wc, s="1982/05/01", e="1983/10/30", soil=Soil("ClayLoam"), crop=Crop("Maize", planting_date="05/01"), iwc=InitialWaterContent(wc_type="Pct", value=[40]),
             kw=dict(irrigation_management=IrrigationManagement(irrigation_method=1, SMT=[60, 60, 50, 40], AppEff=80), field_management=FieldMngt(mulches=True, mulch_pct=60, f_mulch=0.6))),
        dict(w=wc, s="1982/05/01", e="1982/10/30", soil=Soil("Paddy"), crop=Crop("PaddyRice", planting_date="05/01"), iwc=InitialWaterContent(value=["SAT"]),
             kw=dict(irrigation_management=IrrigationManagement(irrigation_method=5, depth=8), field_management=FieldMngt(bunds=True, z_bund=0.15, bund_water=30))),
        dict(w=wt, s="1979/10/01", e="1980/05/30", soil=Soil("SandyLoam"), crop=Crop("Wheat", planting_date="10/01"), iwc=InitialWaterContent(value=["FC"]),
             kw=dict(groundwater=GroundWater(water_table="Y", dates=["1979/10/01"], values=[1.6]), irrigation_management=IrrigationManagement(irrigation_method=4, NetIrrSMT=70))),
        dict(w=wc, s="1982/04/20", e="1983/09/30", soil=Soil("Loam"), crop=Crop("Potato", planting_date="05/01"), iwc=InitialWaterContent(value=["WP"]),
             kw=dict(irrigation_management=IrrigationManagement(irrigation_method=2, IrrInterval=5, MaxIrr=20), off_season=True)),
    ]
    for c in cfgs:
        m = AquaCropModel(c["s"], c["e"], c["w"], c["soil"], c["crop"], c["iwc"], **c["kw"])
        m.run_model(till_termination=True)
    json.dump(samples, open(a.out, "w"))
    print({k: len(v) for k, v in samples.items()})


if __name__ == "__main__":
    main()
