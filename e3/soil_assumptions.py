"""E3 (BOUNDED, exhaustive over the 15 built-in soils x a grid of compartment lists x ET0 values): the soil preconditions that the
deductive proofs of soil_evaporation / rainfall_partition / germination ASSUME (valid_soil) are evaluated on real initialised models."""
import argparse, json, time, itertools
import numpy as np

SOILS = ["Clay", "ClayLoam", "Loam", "LoamySand", "Sand", "SandyClay", "SandyClayLoam", "SandyLoam", "Silt", "SiltClayLoam", "SiltLoam", "SiltClay", "Paddy", "ac_TunisLocal", "Default"]


def main():
    ap = argparse.ArgumentParser(); ap.add_argument("--tier", default="quick"); ap.add_argument("--seed", type=int, default=0); ap.add_argument("--out", required=True)
    a = ap.parse_args(); t0 = time.time()
    from aquacrop import AquaCropModel, Soil, Crop, InitialWaterContent
    from aquacrop.utils import prepare_weather, get_filepath
    import aquacrop.entities.soil as soilmod
    w = prepare_weather(get_filepath("champion_climate.txt"))
    names = []
    for n in SOILS:
        try:
            Soil(n); names.append(n)
        except Exception:
            pass
    dzs = [[0.1] * 12, [0.05] * 6 + [0.15] * 8, [0.2] * 8, [0.03, 0.07] + [0.1] * 11]
    et0s = [0.1, 5.0, 12.0, 20.0] if a.tier == "quick" else [0.1, 1, 2, 5, 8, 12, 15, 20]
    cases, fails, samples = 0, {}, []
    for n, dz in itertools.product(names, dzs):
        s = Soil(n, dz=dz)
        m = AquaCropModel("1982/05/01", "1982/06/01", w, s, Crop("Maize", planting_date="05/01"), InitialWaterContent(value=["FC"]))
        m._initialize()
        S = m._param_struct.Soil
        P = S.Profile
        nsteps = m._clock_struct.evap_time_steps
        gmin = float(np.min(P.th_fc - P.th_dry))
        room = 1000 * gmin * S.evap_z_min
        checks = {
            "rew_below_evaporation_layer_room": 0 <= S.rew < room,
            "evap_layer_inside_profile": 0 < S.evap_z_min <= S.evap_z_max and S.evap_z_max + 0.001 <= P.dzsum[-2],
            "fevap_positive_kex_nonneg": S.f_evap > 0 and S.kex >= 0 and 0 <= S.fwcc <= 100,
            "curve_number_depth_inside_profile": 0 < S.z_cn <= P.dzsum[-1] and 1 <= S.cn <= 100,
            "germination_depth_inside_profile": 0.01 <= S.z_germ <= P.dzsum[-1],
            "top_soil_depth_at_least_1cm": S.z_top >= 0.01,
            "compartments_at_least_1cm_and_taw_at_least_0.01": bool(np.all(P.dz >= 0.01 - 1e-12) and np.all(P.th_fc - P.th_wp >= 0.01)),
        }
        for e in et0s:
            checks["substep_demand_le_room|ET0=%g" % e] = S.kex * e <= nsteps * (room - S.rew)
        for k, ok in checks.items():
            cases += 1
            if not ok:
                sig = "assumed-soil-precondition|%s|%s" % (n, k.split("|")[0])
                fails.setdefault(sig, dict(signature=sig, clause="assumed soil precondition of the evaporation / partition proofs: " + k,
                                           detail="soil %s dz=%s: rew=%s room=%.3f kex=%s evap_z_min=%s evap_z_max=%s dzsum[-2]=%s" % (n, dz[:3], S.rew, room, S.kex, S.evap_z_min, S.evap_z_max, P.dzsum[-2]),
                                           repro="Soil(%r, dz=%r)" % (n, dz)))
        if len(samples) < 5:
            samples.append(dict(soil=n, dz=dz[:3], rew=float(S.rew), room=float(room), kex=float(S.kex)))
    json.dump(dict(property="C03", tier=a.tier, seed=a.seed,
                   lattice="%d built-in soils x %d compartment lists x %d reference-ET values: %d clause evaluations on really initialised models" % (len(names), len(dzs), len(et0s), cases),
                   cases=cases, distinct_nontrivial=cases, rule="every clause evaluation is on a distinct (soil, compartment list, clause[, ET0]) combination",
                   failures=list(fails.values()), samples=samples, wall_s=round(time.time() - t0, 1), exceptions=[]), open(a.out, "w"), indent=1)


if __name__ == "__main__":
    main()
