"""E3 (BOUNDED, never counted as proved) for C12: content hash of every configured parameter object before the first and after every
step of real runs. Components: soil (scalars + every profile array), irrigation / field / fallow-field management, groundwater series,
weather matrix and weather frame, CO2 table; the crop of season k may change only on the step that starts season k."""
import argparse, json, time, random, hashlib, sys, os, warnings
warnings.filterwarnings("ignore")
import numpy as np
import pandas as pd
from multiprocessing import Pool


def fp(o, depth=0):
    """structural content fingerprint"""
    h = hashlib.sha256()
    def rec(x, d):
        if d > 6:
            return
        if isinstance(x, np.ndarray):
            h.update(b"A" + str(x.shape).encode() + str(x.dtype).encode())
            h.update(np.ascontiguousarray(x).tobytes() if x.dtype != object else repr(x.tolist()).encode())
        elif isinstance(x, pd.Index):
            v = x.values
            if v.dtype.kind == "M":
                v = v.astype("int64")
            h.update(b"I" + (np.ascontiguousarray(v).tobytes() if v.dtype != object else repr(v.tolist()).encode()))
        elif isinstance(x, (pd.DataFrame, pd.Series)):
            h.update(b"D" + str(x.shape).encode()); h.update(repr(list(getattr(x, "columns", []))).encode())
            try:
                for col in ([x] if isinstance(x, pd.Series) else [x[c] for c in x.columns]):
                    v = col.values
                    if v.dtype.kind == "M":
                        v = v.astype("int64")
                    h.update(np.ascontiguousarray(v).tobytes() if v.dtype != object else repr(v.tolist()).encode())
                h.update(repr(x.index[:3].tolist()).encode() + str(len(x.index)).encode())
            except Exception:
                h.update(x.to_csv().encode())
        elif isinstance(x, (list, tuple)):
            h.update(b"L%d" % len(x))
            for e in x:
                rec(e, d + 1)
        elif isinstance(x, dict):
            h.update(b"M%d" % len(x))
            for k in sorted(x, key=repr):
                h.update(repr(k).encode()); rec(x[k], d + 1)
        elif hasattr(x, "__dict__") and not callable(x):
            h.update(b"O" + type(x).__name__.encode())
            for k in sorted(vars(x)):
                h.update(k.encode()); rec(vars(x)[k], d + 1)
        elif hasattr(x, "__slots__"):
            for k in x.__slots__:
                h.update(k.encode()); rec(getattr(x, k, None), d + 1)
        else:
            h.update(repr(x).encode())
    rec(o, depth)
    return h.hexdigest()


def attr_fps(o):
    if hasattr(o, "__dict__"):
        return {k: fp(v) for k, v in vars(o).items()}
    return {"*": fp(o)}


def components(m):
    ps = m._param_struct
    out = {}
    soil = ps.Soil
    for k, v in vars(soil).items():
        if k == "Profile" or k == "profile":
            continue
        out["soil." + k] = fp(v)
    prof = getattr(soil, "Profile", None)
    if prof is not None:
        for k in (getattr(prof, "__slots__", None) or (vars(prof).keys() if hasattr(prof, "__dict__") else [])):
            out["profile." + k] = fp(getattr(prof, k, None))
        if not any(k.startswith("profile.") for k in out):
            out["profile.*"] = fp(prof)
    for name, ob in (("irrigation", ps.IrrMngt), ("field", ps.FieldMngt), ("fallow_field", ps.FallowFieldMngt)):
        for k, v in attr_fps(ob).items():
            out["%s.%s" % (name, k)] = v
    for k in ("water_table", "z_gw", "zGW_dates", "WTMethod", "CO2data"):
        out["groundwater_or_co2." + k] = fp(getattr(ps, k, None))
    out["weather.matrix"] = fp(m._weather)
    out["weather.frame"] = fp(m.weather_df)
    return out


def crop_fps(m):
    return [fp(c) for c in m._param_struct.Seasonal_Crop_List]


def build(cfg):
    from aquacrop import AquaCropModel, Soil, Crop, InitialWaterContent, IrrigationManagement, FieldMngt, GroundWater
    from aquacrop.utils import prepare_weather, get_filepath
    w = prepare_weather(get_filepath(cfg["wx"]))
    skw = dict(cfg.get("soil_kw", {}))
    soil = Soil(cfg["soil"], **skw)
    irr_m = cfg["irr"]
    if irr_m == 1:
        irr = IrrigationManagement(irrigation_method=1, SMT=[60, 55, 70, 40])
    elif irr_m == 2:
        irr = IrrigationManagement(irrigation_method=2, IrrInterval=9)
    elif irr_m == 3:
        days = pd.date_range(cfg["start"].replace("/", "-"), cfg["end"].replace("/", "-"), freq="11D")
        irr = IrrigationManagement(irrigation_method=3, Schedule=pd.DataFrame({"Date": days, "Depth": [18.0] * len(days)}))
    elif irr_m == 4:
        irr = IrrigationManagement(irrigation_method=4, NetIrrSMT=65)
    else:
        irr = IrrigationManagement(irrigation_method=0)
    kw = {}
    if cfg.get("bunds"):
        kw["field_management"] = FieldMngt(bunds=True, z_bund=0.12, bund_water=5.0)
        kw["fallow_field_management"] = FieldMngt(mulches=True, mulch_pct=40, f_mulch=0.4)
    elif cfg.get("mulch"):
        kw["field_management"] = FieldMngt(mulches=True, mulch_pct=60, f_mulch=0.5, curve_number_adj=True, curve_number_adj_pct=-10)
    if cfg.get("gw"):
        kw["groundwater"] = GroundWater(water_table="Y", method="Variable", dates=[cfg["start"].replace("/", "-"), cfg["end"].replace("/", "-")], values=cfg["gw"])
    ckw = dict(cfg.get("crop_kw", {}))
    return AquaCropModel(cfg["start"], cfg["end"], w, soil, Crop(cfg["crop"], planting_date=cfg["plant"], **ckw),
                         InitialWaterContent(value=[cfg.get("iwc", "FC")]), irrigation_management=irr, off_season=cfg.get("off", False), **kw)


def run_case(cfg):
    t0 = time.time()
    try:
        m = build(cfg)
        m._initialize()
        base = components(m)
        crops = crop_fps(m)
        fails = {}
        steps = 0
        every = cfg.get("every", 1)
        while not m._clock_struct.model_is_finished and steps < cfg.get("max_steps", 5000):
            sc0 = int(m._clock_struct.season_counter)
            m.run_model(num_steps=1, initialize_model=False)
            steps += 1
            sc1 = int(m._clock_struct.season_counter)
            if steps % every and sc0 == sc1 and not m._clock_struct.model_is_finished:
                continue
            now = components(m)
            for k in base:
                if now.get(k) != base[k] and k not in fails:
                    fails[k] = "parameter component %s changed during step %d (season counter %d -> %d)" % (k, steps, sc0, sc1)
            base = {k: now.get(k, base[k]) for k in base}    # report each change once, at the step it happens
            cn = crop_fps(m)
            for i, (a, b) in enumerate(zip(crops, cn)):
                if a != b:
                    if not (sc1 == i and sc1 != sc0):
                        fails.setdefault("crop[%d]" % i, "crop parameters of season %d changed during step %d although that step did not start season %d (season counter %d -> %d)" % (i, steps, i, sc0, sc1))
            crops = cn
        return dict(cfg=cfg, steps=steps, trivial=steps < 2, fails=fails, wall=round(time.time() - t0, 1))
    except Exception as e:
        import traceback
        return dict(cfg=cfg, steps=0, trivial=True, fails={}, exc="%s: %s | %s" % (type(e).__name__, e, traceback.format_exc()[-300:]))


def lattice(tier, rng):
    C = "champion_climate.txt"; T = "tunis_climate.txt"
    cfgs = []
    # default geometry, every irrigation method, two seasons
    for irr in (0, 1, 2, 3, 4):
        cfgs.append(dict(kind="default-geometry", wx=C, start="1982/05/01", end="1983/10/30", soil="SandyLoam", crop="Maize", plant="05/01", irr=irr, off=bool(irr % 2)))
    # thermal-calendar crops over several seasons with hot and cold days (season-start conversion reads the weather)
    cfgs.append(dict(kind="gdd-multi-season", wx=C, start="1982/05/01", end="1985/10/30", soil="ClayLoam", crop="MaizeChampionGDD", plant="05/01", irr=0, off=True))
    cfgs.append(dict(kind="gdd-multi-season", wx=T, start="1979/10/15", end="1982/06/30", soil="Loam", crop="WheatGDD", plant="10/15", irr=1))
    cfgs.append(dict(kind="gdd-multi-season", wx=C, start="1982/05/01", end="1984/10/30", soil="SiltLoam", crop="PotatoGDD", plant="04/25", irr=4, crop_kw=dict(GDDmethod=2)))
    cfgs.append(dict(kind="calendar-to-gdd-switch", wx=C, start="1982/05/01", end="1984/10/30", soil="Loam", crop="Maize", plant="05/01", irr=0, crop_kw=dict(SwitchGDD=1)))
    # curve-number / germination depths off the compartment boundaries, thin and uneven compartments
    geoms = [dict(dz=[0.07, 0.13, 0.1, 0.1, 0.15, 0.15, 0.2, 0.2, 0.3, 0.3], z_cn=0.25, z_germ=0.17, adj_cn=1),
             dict(dz=[0.05] * 4 + [0.1] * 6 + [0.3] * 3, z_cn=0.33, z_germ=0.12, adj_cn=1),
             dict(dz=[0.1] * 12, z_cn=0.45, z_germ=0.05, adj_cn=1),
             dict(dz=[0.2] * 8, z_cn=0.3, z_germ=0.3, adj_cn=1, z_top=0.2),
             dict(dz=[0.1] * 6, z_cn=0.38, z_germ=0.22, adj_cn=1)]           # shallow profile: deepened for the deep-rooted crop
    n_extra = 2 if tier == "quick" else 12
    for _ in range(n_extra):
        n = rng.randint(5, 14)
        dz = [round(rng.choice([0.05, 0.08, 0.1, 0.12, 0.15, 0.2, 0.25]), 2) for _ in range(n)]
        dz[0] = min(dz[0], 0.1)
        geoms.append(dict(dz=dz, z_cn=round(rng.uniform(0.06, min(0.6, sum(dz) - 0.01)), 3), z_germ=round(rng.uniform(0.03, min(0.5, sum(dz) - 0.01)), 3), adj_cn=1, z_top=round(dz[0] + 0.2, 2)))
    crops = [("Maize", C, "1982/05/01", "1983/10/30", "05/01"), ("Wheat", T, "1979/10/15", "1981/06/30", "10/15"), ("Cotton", C, "1982/05/01", "1983/11/30", "05/01"),
             ("Potato", C, "1982/04/25", "1983/10/30", "04/25"), ("SugarBeet", C, "1982/04/20", "1983/10/30", "04/20")]
    for i, g in enumerate(geoms):
        crop, wx, s, e, p = crops[i % len(crops)]
        cfgs.append(dict(kind="off-boundary-depths", wx=wx, start=s, end=e, soil=["SandyLoam", "Clay", "Loam", "SiltClayLoam"][i % 4], crop=crop, plant=p,
                         irr=[0, 1, 3, 2][i % 4], soil_kw=g, off=bool(i % 2), bunds=(i % 3 == 1), mulch=(i % 3 == 2), iwc=["FC", "WP", "SAT"][i % 3]))
    # groundwater series and field structures
    cfgs.append(dict(kind="groundwater", wx=C, start="1982/05/01", end="1983/10/30", soil="ClayLoam", crop="Maize", plant="05/01", irr=0, gw=[1.4, 2.6], off=True))
    cfgs.append(dict(kind="groundwater", wx=T, start="1979/10/15", end="1981/06/30", soil="SandyClay", crop="Wheat", plant="10/15", irr=1, gw=[0.8, 1.1], soil_kw=dict(dz=[0.07, 0.13] + [0.1] * 10, z_cn=0.27, z_germ=0.11)))
    cfgs.append(dict(kind="bunds", wx=C, start="1982/05/01", end="1983/10/30", soil="Clay", crop="PaddyRice", plant="05/01", irr=0, bunds=True, off=True))
    if tier != "quick":
        for crop in ("Barley", "DryBean", "Sorghum", "Soybean", "Sunflower", "Tomato", "Quinoa", "SugarCane", "Cassava", "Tef", "PotatoLocalGDD", "SorghumGDD", "BarleyGDD", "CottonGDD"):
            i = len(cfgs)
            cfgs.append(dict(kind="catalogue-crop", wx=C, start="1982/05/01", end="1984/10/30", soil=["SandyLoam", "Clay", "Loam"][i % 3], crop=crop, plant="05/01", irr=i % 5,
                             soil_kw=geoms[i % len(geoms)], off=bool(i % 2)))
    for c in cfgs:
        c["every"] = 1
    return cfgs


def main():
    ap = argparse.ArgumentParser(); ap.add_argument("--tier", default="quick"); ap.add_argument("--seed", type=int, default=0); ap.add_argument("--out", required=True)
    a = ap.parse_args(); t0 = time.time(); rng = random.Random(a.seed)
    cfgs = lattice(a.tier, rng)
    with Pool(16) as pool:
        res = pool.map(run_case, cfgs, chunksize=1)
    fails = {}
    for r in res:
        for comp, detail in r["fails"].items():
            sig = "%s|%s" % (comp, r["cfg"]["kind"])
            fails.setdefault(sig, dict(signature=sig, clause="configured parameters and weather are unchanged by a step (content hash before/after every step)", detail=detail,
                                       repro="cfg=%r" % (r["cfg"],)))
    out = dict(property="C12", tier=a.tier, seed=a.seed,
               lattice="%d configurations: 5 irrigation methods on the default geometry; thermal-calendar crops (GDD methods 2/3, calendar->GDD switch) over 2-4 seasons; "
                       "%d soil geometries with curve-number / germination depths off the compartment boundaries (incl. shallow profiles deepened for deep-rooted crops, seeded random ones); "
                       "groundwater series; bunds/mulches; every step hashed" % (len(cfgs), sum(1 for c in cfgs if c["kind"] == "off-boundary-depths")),
               cases=len(res), distinct_nontrivial=sum(1 for r in res if not r["trivial"]),
               rule="a case is non-trivial when the model took at least 2 steps and every component hash was compared after every step",
               days_checked=sum(r["steps"] for r in res),
               failures=list(fails.values()), samples=[dict(cfg=r["cfg"], steps=r["steps"], wall=r.get("wall")) for r in res[:3] + res[-3:]],
               wall_s=round(time.time() - t0, 1), exceptions=[r["exc"] for r in res if r.get("exc")][:8])
    json.dump(out, open(a.out, "w"), indent=1, default=str)


if __name__ == "__main__":
    main()
