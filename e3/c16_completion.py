#!/venv/bin/python
"""E3 bounded check for property C16 (every valid configuration runs to completion with
finite outputs).

BOUNDED, NOT PROVED.  A pairwise-covering design over the catalogue and option dimensions is
generated from --seed (greedy AETG-style), every row is run through the public API
(AquaCropModel(...).run_model(till_termination=True)) in a worker process with a per-case
SIGALRM timeout, and the outcome is classified:

  ok         run terminated, every cell of water_flux / water_storage / crop_growth and every
             numeric cell of final_stats is finite
  rejected   one of the documented rejections (date format / weather coverage / 580-year
             window ValueErrors, the two growing-degree-day maturity asserts)
  failure    any other exception, a non-finite cell, or the timeout ('non-termination')

Because a single always-crashing option value (e.g. ETadj=0) would mask every other value it
is paired with, the design is re-run adaptively: after each pass every failure signature is
attributed to one (dimension,value) that is common to all rows with that signature and occurs
in no completed row; the failed rows are re-run with that value replaced by the dimension's
default.  Up to 4 passes.  Pair coverage is reported both nominally and over completed rows.

Usage: c16_completion.py --tier quick|thorough --seed N --out path.json
"""
import argparse
import datetime as dt
import itertools
import json
import os
import random
import re
import signal
import sys
import time
import traceback
import warnings

warnings.filterwarnings("ignore")
os.environ.setdefault("DEVELOPMENT", "True")

import numpy as np  # noqa: E402
import pandas as pd  # noqa: E402

PROP = "C16"
NPROC = 16
WX_Y0, WX_Y1 = 1998, 2016
BASE_YEAR = 2000

CROPS = ["Barley", "BarleyGDD", "Cotton", "CottonGDD", "Default", "DryBean", "DryBeanGDD", "Maize", "MaizeGDD",
         "PaddyRice", "PaddyRiceGDD", "Potato", "PotatoGDD", "PotatoLocalGDD", "Quinoa", "Sorghum", "SorghumGDD",
         "Soybean", "SoybeanGDD", "SugarBeet", "SugarBeetGDD", "SugarBeetGDD_UK", "SugarCane", "Sunflower",
         "SunflowerGDD", "Tomato", "TomatoGDD", "Wheat", "WheatGDD", "WheatGDD_1dec", "HydWheatGDD", "WheatLongGDD",
         "localpaddy", "MaizeChampionGDD", "Tef", "AlfalfaGDD", "Cassava"]
SOILS = ["Clay", "ClayLoam", "Default", "Loam", "LoamySand", "Sand", "SandyClay", "SandyClayLoam", "SandyLoam", "Silt",
         "SiltClayLoam", "SiltLoam", "SiltClay", "Paddy", "ac_TunisLocal"]
TWO_LAYER = {"Paddy", "ac_TunisLocal"}

# dimension -> values; the FIRST value is the dimension's default (used when a value is found blocking)
DIMS = [
    ("crop", CROPS),
    ("soil", SOILS),
    ("irr", [0, 1, 2, 3, 4, 5]),
    ("fm", ["none", "mulch50", "mulch100", "bunds_default_zbund", "bunds_0.15m_water20", "sr_inhb", "cn_adj+20", "cn_adj-20"]),
    ("ffm", ["none", "mulch50", "bunds_0.10m"]),
    ("gw", ["none", "const_2.0", "const_0.8", "variable_cover", "variable_inside", "constant_multi"]),
    ("iwc", ["FC", "WP", "SAT", "Pct50", "PctMix", "NumDepth", "PropDepth", "PctDepth", "PctDepthBelowProfile", "PropDepthAtBottom"]),
    ("co2", ["default", "const450", "const0", "const300", "const700", "custom_series"]),
    ("planting", ["05/01", "01/01", "02/28", "03/01", "07/15", "10/01", "12/31", "auto_leap"]),
    ("window", ["full", "multi", "partial", "late_start", "no_season", "leap_start", "leap_end", "short_around_planting",
                "end_on_planting_day", "end_day_before_planting", "decadal_co2_years", "leap_harvest"]),
    ("off_season", [False, True]),
    ("ETadj", [1, 0]),
    ("PlantMethod", ["crop", 0, 1]),
    ("Determinant", ["crop", 0, 1]),
    ("GDDmethod", ["crop", 1, 2, 3]),
    ("TrColdStress", [1, 0]),
    ("PolHeatStress", [1, 0]),
    ("PolColdStress", [1, 0]),
    ("SwitchGDD", [0, 1]),
    ("z_cn", [0.3, 0.25]),
    ("adj_cn", [1, 0]),
    ("calc_cn", [0, 1]),
    ("adj_rew", [1, 0]),
    ("dz", ["default", "fine"]),
    ("climate", ["warm", "temperate"]),
]
DIMNAMES = [d[0] for d in DIMS]
DIMVALS = dict(DIMS)
NO_REPLACE = {"crop", "soil", "irr"}
DEFAULT_ROW = {d: v[0] for d, v in DIMS}


# ----------------------------------------------------------------------------- weather
def make_weather(seed, climate):
    rng = np.random.default_rng([seed, 0 if climate == "warm" else 1])
    d = pd.date_range(f"{WX_Y0}-01-01", f"{WX_Y1}-12-31", freq="D")
    n = len(d)
    doy = d.dayofyear.values
    if climate == "warm":
        tm = 24 + 5 * np.sin(2 * np.pi * (doy - 110) / 365.25) + rng.normal(0, 2, n)
        wet = 0.30
    else:
        tm = 13 + 9 * np.sin(2 * np.pi * (doy - 110) / 365.25) + rng.normal(0, 3, n)
        wet = 0.40
    tmin = tm - 4 - rng.random(n) * 4
    tmax = tm + 4 + rng.random(n) * 4
    pr = np.where(rng.random(n) < wet, rng.gamma(0.7, 10, n), 0.0)
    # a few extreme events
    idx = rng.choice(n, 12, replace=False)
    pr[idx] += rng.uniform(60, 160, 12)
    et = np.clip(3 + 2.2 * np.sin(2 * np.pi * (doy - 110) / 365.25) + rng.normal(0, 0.6, n), 0.1, None)
    et[rng.choice(n, 60, replace=False)] = 0.0          # days without evaporative demand (valid records: ReferenceET = 0)
    return pd.DataFrame({"MinTemp": np.round(tmin, 2), "MaxTemp": np.round(tmax, 2), "Precipitation": np.round(pr, 2),
                         "ReferenceET": np.round(et, 2), "Date": d})


_W = {}


def weather(seed, climate):
    k = (seed, climate)
    if k not in _W:
        _W[k] = make_weather(seed, climate)
    return _W[k]


# ----------------------------------------------------------------------------- row -> objects
_AUTO = {}


def planting_of(row):
    """the row's planting date; 'auto_leap' = the date for which planting + maturity + 30 days (the latest harvest date the model derives
    itself) falls on 29 February 2004 when counted from a planting in 2003 (calendar-day crops; others fall back to 05/01)"""
    pl = row["planting"]
    if pl != "auto_leap":
        return pl
    c = row["crop"]
    if c not in _AUTO:
        try:
            from aquacrop import Crop
            cr = Crop(c, planting_date="05/01")
            if int(getattr(cr, "CalendarType", 1)) == 1 and float(getattr(cr, "MaturityCD", 0)) > 0:
                P = dt.date(2004, 2, 29) - dt.timedelta(days=int(cr.MaturityCD + 30))
                _AUTO[c] = "%02d/%02d" % (P.month, P.day)
            else:
                _AUTO[c] = "05/01"
        except Exception:
            _AUTO[c] = "05/01"
    return _AUTO[c]


def fmt(d):
    return "%04d/%02d/%02d" % (d.year, d.month, d.day)


def window_of(row):
    m, d = [int(x) for x in planting_of(row).split("/")]
    P = dt.date(BASE_YEAR, m, d)
    w = row["window"]
    D = dt.timedelta
    if w == "full":
        s, e = P, P + D(400)
    elif w == "multi":
        s = P - D(40)
        e = s + D(800)
    elif w == "partial":
        s, e = P, P + D(60)
    elif w == "late_start":
        s = P + D(10)
        e = s + D(500)
    elif w == "no_season":
        s = P + D(5)
        e = s + D(100)
    elif w == "leap_start":
        s = dt.date(2000, 2, 29)
        e = s + D(420)
    elif w == "leap_end":
        s, e = dt.date(2003, 1, 15), dt.date(2004, 2, 29)
    elif w == "short_around_planting":
        s, e = P - D(5), P + D(30)
    elif w == "end_on_planting_day":
        s, e = P, dt.date(P.year + 1, P.month, P.day)          # the window ends exactly on next year's planting day
    elif w == "end_day_before_planting":
        s, e = P, dt.date(P.year + 1, P.month, P.day) - D(1)
    elif w == "leap_harvest":
        s = dt.date(2003, P.month, P.day)                       # first planting in 2003: a derived harvest date can fall on 29 February 2004
        e = s + D(500)
    elif w == "decadal_co2_years":
        s = dt.date(2013, P.month, P.day)                       # years that are not rows of the default CO2 table (decadal after 2010)
        e = s + D(400)
    else:
        raise ValueError(w)
    return s, e


def build(row, seed):
    """returns (kwargs for AquaCropModel, python source reproducing them)"""
    from aquacrop import Soil, Crop, InitialWaterContent, IrrigationManagement, FieldMngt, GroundWater, CO2
    src = ["import sys, pandas as pd; sys.path.insert(0, '/verif/e3'); from c16_completion import make_weather",
           "from aquacrop import AquaCropModel, Soil, Crop, InitialWaterContent, IrrigationManagement, FieldMngt, GroundWater, CO2",
           f"W = make_weather({seed}, {row['climate']!r})"]
    s, e = window_of(row)
    # soil
    skw = {}
    if row["dz"] == "fine":
        skw["dz"] = [0.05] * 4 + [0.1] * 10
    elif row["dz"] == "three":
        skw["dz"] = [0.1] * 3
    elif row["dz"] == "coarse":
        skw["dz"] = [0.3] * 5
    for k in ("z_cn", "adj_cn", "calc_cn", "adj_rew"):
        if row[k] != DEFAULT_ROW[k]:
            skw[k] = row[k]
    soil = Soil(row["soil"], **skw)
    src.append(f"soil = Soil({row['soil']!r}" + "".join(f", {k}={v!r}" for k, v in skw.items()) + ")")
    nl = 2 if row["soil"] in TWO_LAYER else 1
    # crop
    ckw = {}
    for k in ("ETadj", "PlantMethod", "GDDmethod", "TrColdStress", "PolHeatStress", "PolColdStress", "SwitchGDD"):
        if row[k] != DEFAULT_ROW[k]:
            ckw[k] = row[k]
    if row["Determinant"] != "crop":
        ckw["Determinant"] = row["Determinant"]
    crop = Crop(row["crop"], planting_date=planting_of(row), **ckw)
    src.append(f"crop = Crop({row['crop']!r}, planting_date={planting_of(row)!r}" + "".join(f", {k}={v!r}" for k, v in ckw.items()) + ")")
    # iwc
    L = list(range(1, nl + 1))
    iw = row["iwc"]
    if iw in ("FC", "WP", "SAT"):
        ia = ("Prop", "Layer", L, [iw] * nl)
    elif iw == "Pct50":
        ia = ("Pct", "Layer", L, [50] * nl)
    elif iw == "PctMix":
        ia = ("Pct", "Layer", L, [0, 100][:nl])
    elif iw == "NumDepth":
        ia = ("Num", "Depth", [0.2, 0.6, 1.0], [0.2, 0.25, 0.3])
    elif iw == "PropDepth":
        ia = ("Prop", "Depth", [0.3, 0.9], ["WP", "FC"])
    elif iw == "PctDepth":
        ia = ("Pct", "Depth", [0.1, 0.5, 1.1], [30, 70, 100])
    elif iw == "PctDepthBelowProfile":
        ia = ("Pct", "Depth", [0.5, 3.5], [40, 90])           # last point below the bottom of any (also a deepened) profile
    elif iw == "PropDepthAtBottom":
        ia = ("Prop", "Depth", [0.4, 1.2], ["WP", "FC"])      # last point exactly at the bottom of the default 1.2 m profile
    iwc = InitialWaterContent(*ia)
    src.append(f"iwc = InitialWaterContent{ia!r}")
    # irrigation
    im = row["irr"]
    if im == 0:
        irr, isrc = IrrigationManagement(0), "IrrigationManagement(0)"
    elif im == 1:
        irr, isrc = IrrigationManagement(1, SMT=[70, 60, 50, 60]), "IrrigationManagement(1, SMT=[70, 60, 50, 60])"
    elif im == 2:
        irr, isrc = IrrigationManagement(2, IrrInterval=7), "IrrigationManagement(2, IrrInterval=7)"
    elif im == 3:
        dates = [fmt(s + dt.timedelta(days=5 + 9 * i)).replace("/", "-") for i in range(25) if s + dt.timedelta(days=5 + 9 * i) < e]
        sch = pd.DataFrame({"Date": pd.to_datetime(dates), "Depth": [20.0] * len(dates)})
        irr = IrrigationManagement(3, Schedule=sch)
        isrc = f"IrrigationManagement(3, Schedule=pd.DataFrame({{'Date': pd.to_datetime({dates!r}), 'Depth': [20.0]*{len(dates)}}}))"
    elif im == 4:
        irr, isrc = IrrigationManagement(4, NetIrrSMT=70), "IrrigationManagement(4, NetIrrSMT=70)"
    else:
        irr, isrc = IrrigationManagement(5, depth=6), "IrrigationManagement(5, depth=6)"
    src.append("irr = " + isrc)

    # field management
    def fm_of(v):
        t = {"none": {}, "mulch50": dict(mulches=True, mulch_pct=50, f_mulch=0.5), "mulch100": dict(mulches=True, mulch_pct=100, f_mulch=0.9),
             "bunds_default_zbund": dict(bunds=True), "bunds_0.15m_water20": dict(bunds=True, z_bund=0.15, bund_water=20),
             "bunds_0.10m": dict(bunds=True, z_bund=0.10), "sr_inhb": dict(sr_inhb=True),
             "cn_adj+20": dict(curve_number_adj=True, curve_number_adj_pct=20), "cn_adj-20": dict(curve_number_adj=True, curve_number_adj_pct=-20)}[v]
        return FieldMngt(**t), "FieldMngt(" + ", ".join(f"{k}={x!r}" for k, x in t.items()) + ")"
    fm, fsrc = fm_of(row["fm"])
    ffm, ffsrc = fm_of(row["ffm"])
    src.append("fm = " + fsrc)
    src.append("ffm = " + ffsrc)
    # groundwater
    g = row["gw"]
    iso = lambda x: x.isoformat()  # noqa: E731
    if g == "none":
        ga = {}
    elif g == "const_2.0":
        ga = dict(water_table="Y", dates=[iso(s)], values=[2.0])
    elif g == "const_0.8":
        ga = dict(water_table="Y", dates=[iso(s)], values=[0.8])
    elif g == "variable_cover":
        ga = dict(water_table="Y", method="Variable", dates=[iso(s), iso(s + (e - s) // 2), iso(e)], values=[1.5, 0.9, 2.5])
    elif g == "variable_inside":
        ga = dict(water_table="Y", method="Variable", dates=[iso(s + dt.timedelta(days=10)), iso(e - dt.timedelta(days=5))], values=[1.0, 2.0])
    elif g == "constant_multi":
        ga = dict(water_table="Y", method="Constant", dates=[iso(s + dt.timedelta(days=3)), iso(s + dt.timedelta(days=20))], values=[1.2, 2.2])
    gw = GroundWater(**ga)
    src.append("gw = GroundWater(" + ", ".join(f"{k}={x!r}" for k, x in ga.items()) + ")")
    # co2
    c = row["co2"]
    if c == "default":
        ca, csrc = {}, "CO2()"
    elif c.startswith("const"):
        ca = dict(constant_conc=True, current_concentration=float(c[5:]))
        csrc = f"CO2(constant_conc=True, current_concentration={float(c[5:])})"
    else:
        ser = pd.DataFrame({"year": list(range(1990, 2011)), "ppm": [350 + 2.5 * i for i in range(21)]})
        ca = dict(co2_data=ser)
        csrc = "CO2(co2_data=pd.DataFrame({'year': list(range(1990, 2011)), 'ppm': [350 + 2.5*i for i in range(21)]}))"
    co2 = CO2(**ca)
    src.append("co2 = " + csrc)
    kw = dict(sim_start_time=fmt(s), sim_end_time=fmt(e), weather_df=weather(seed, row["climate"]), soil=soil, crop=crop,
              initial_water_content=iwc, irrigation_management=irr, field_management=fm, fallow_field_management=ffm,
              groundwater=gw, co2_concentration=co2, off_season=row["off_season"])
    src.append(f"m = AquaCropModel({fmt(s)!r}, {fmt(e)!r}, W, soil, crop, iwc, irrigation_management=irr, field_management=fm, "
               f"fallow_field_management=ffm, groundwater=gw, co2_concentration=co2, off_season={row['off_season']})")
    src.append("m.run_model(till_termination=True)")
    return kw, "\n".join(src)


# ----------------------------------------------------------------------------- execution of one row
class CaseTimeout(Exception):
    pass


def _alarm(signum, frame):
    raise CaseTimeout()


def innermost_repo_frame(tb):
    fr = None
    for f in traceback.extract_tb(tb):
        if "/aquacrop/" in f.filename and "site-packages" not in f.filename:
            fr = f
    return fr


def norm_msg(msg):
    msg = re.sub(r"[-+]?\d+\.\d+(e[-+]?\d+)?", "#", msg)
    msg = re.sub(r"\b\d{2,}\b", "#", msg)
    msg = re.sub(r"\s+", " ", msg)
    return msg[:70]


DOC_REJECT = ("sim_start_time format must be", "sim_end_time format must be", "The first date of the climate data",
              "The model end date cannot be longer", "Simulation period must be less than 580 years",
              "not enough growing degree days", "crop will take longer than 1 year to mature")


def spans_new_year(crop_obj):
    try:
        a = pd.to_datetime("1990/" + crop_obj.planting_date)
        b = pd.to_datetime("1990/" + crop_obj.harvest_date) if crop_obj.harvest_date else None
        return None if b is None else bool(a >= b)
    except Exception:  # noqa: BLE001
        return None


def run_row(job):
    idx, row, seed, tmo = job
    t0 = time.time()
    res = {"idx": idx, "row": row, "status": None, "sig": None, "detail": "", "repro": "", "days": 0}
    try:
        kw, src = build(row, seed)
    except Exception as exc:  # noqa: BLE001
        fr = innermost_repo_frame(exc.__traceback__)
        if fr is None:
            res["status"] = "harness"
            res["detail"] = f"build: {type(exc).__name__}: {exc} {traceback.format_exc(limit=3)[-300:]}"
            return res
        res["status"] = "fail"
        res["sig"] = f"construct|{type(exc).__name__}|{os.path.basename(fr.filename)}:{fr.name}|{norm_msg(str(exc))}"
        res["detail"] = f"{type(exc).__name__}: {str(exc)[:200]}"
        return res
    res["repro"] = src
    from aquacrop import AquaCropModel
    old = signal.signal(signal.SIGALRM, _alarm)
    signal.alarm(int(tmo))
    model = None
    try:
        model = AquaCropModel(**kw)
        model.run_model(till_termination=True)
        signal.alarm(0)
    except CaseTimeout as exc:
        signal.alarm(0)
        fr = innermost_repo_frame(exc.__traceback__)
        where = f"{os.path.basename(fr.filename)}:{fr.name}" if fr else "?"
        res["status"] = "fail"
        res["sig"] = f"non-termination|{where}"
        line = fr.line if fr else ""
        res["detail"] = f"no result after {tmo} s; interrupted in {where} at `{line}`"
        return res
    except Exception as exc:  # noqa: BLE001
        signal.alarm(0)
        msg = str(exc)
        if isinstance(exc, (ValueError, AssertionError)) and any(m in msg for m in DOC_REJECT):
            res["status"] = "rejected"
            res["detail"] = msg[:120]
            return res
        fr = innermost_repo_frame(exc.__traceback__)
        where = f"{os.path.basename(fr.filename)}:{fr.name}" if fr else "outside-aquacrop"
        extra = ""
        if fr is not None and fr.name == "read_model_parameters" and isinstance(exc, IndexError):
            s, e = window_of(row)
            m, d = [int(x) for x in planting_of(row).split("/")]
            P = dt.date(s.year, m, d)
            if P < s:
                P = dt.date(s.year + 1, m, d)
            extra = "|no-planting-date-in-window" if not P < e else "|planting-date-in-window"
        if "/2/29" in msg:
            s_, e_ = window_of(row)
            extra = "|end-date-on-02-29" if (e_.month, e_.day) == (2, 29) else "|window-does-not-end-on-02-29"
        res["status"] = "fail"
        res["sig"] = f"exception|{type(exc).__name__}|{where}|{norm_msg(msg)}{extra}"
        res["detail"] = f"{type(exc).__name__}: {msg[:200]} at {where} line `{fr.line if fr else ''}`"
        return res
    finally:
        signal.alarm(0)
        signal.signal(signal.SIGALRM, old)
    # finite check
    try:
        out = model._outputs
        bad = []
        no_table = row["gw"] == "none"
        for name in ("water_flux", "water_storage", "crop_growth"):
            tab = getattr(out, name)
            if isinstance(tab, pd.DataFrame):
                cols = list(tab.columns)
                arr = tab.values.astype(float)
            else:
                arr = np.asarray(tab, dtype=float)
                cols = [str(i) for i in range(arr.shape[1])]
            nf = ~np.isfinite(arr)
            if nf.any():
                for j in np.where(nf.any(axis=0))[0]:
                    col = cols[j]
                    if name == "water_flux" and col == "z_gw" and no_table:
                        continue   # exempt: water-table depth column when no table is configured
                    col = "th*" if col.startswith("th") and col[2:].isdigit() else col
                    r0 = int(np.where(nf[:, j])[0][0])
                    bad.append((f"{name}.{col}", r0, float(arr[r0, j]), int(arr[r0, 1]) if name != "water_storage" else -9))
        fs = out.final_stats
        for col in fs.columns:
            if col in ("crop Type", "Harvest Date (YYYY/MM/DD)"):
                continue
            v = pd.to_numeric(fs[col], errors="coerce").values.astype(float)
            if (~np.isfinite(v)).any():
                bad.append((f"final_stats.{col}", int(np.where(~np.isfinite(v))[0][0]), float("nan"), -9))
        res["days"] = int(model._clock_struct.time_step_counter)
        res["n_final"] = int(len(fs))
        if bad:
            cols = sorted({b[0] for b in bad})
            first = min(bad, key=lambda b: (b[1], b[0]))
            res["status"] = "fail"
            res["sig"] = "nonfinite|" + "+".join(cols[:4]) + ("+..." if len(cols) > 4 else "")
            res["detail"] = (f"non-finite cells in {cols[:8]}{'...' if len(cols) > 8 else ''}; first at row {first[1]} of {first[0]} "
                             f"(value {first[2]})")
        else:
            res["status"] = "ok"
    except Exception as exc:  # noqa: BLE001
        res["status"] = "harness"
        res["detail"] = f"finite-check: {type(exc).__name__}: {exc} {traceback.format_exc(limit=3)[-300:]}"
    res["t"] = round(time.time() - t0, 2)
    return res


# ----------------------------------------------------------------------------- pairwise design
def greedy_design(n_rows, forced, rng, dims=DIMS):
    """forced: list (len n_rows) of dicts with pre-assigned dims. Greedy: each remaining dim value chosen to
    maximise the number of not-yet-covered pairs with the values already in the row."""
    covered = set()
    rows = []
    names = [d[0] for d in dims]
    vals = dict(dims)
    for i in range(n_rows):
        row = dict(forced[i])
        order = [d for d in names if d not in row]
        rng.shuffle(order)
        for d in order:
            best, bestv = -1, None
            cand = list(vals[d])
            rng.shuffle(cand)
            for v in cand:
                sc = 0
                for d2, v2 in row.items():
                    if (d, v, d2, v2) not in covered:
                        sc += 1
                if sc > best:
                    best, bestv = sc, v
            row[d] = bestv
        for d1, d2 in itertools.combinations(names, 2):
            covered.add((d1, row[d1], d2, row[d2]))
            covered.add((d2, row[d2], d1, row[d1]))
        rows.append(row)
    return rows


def pair_stats(rows, skip_pairs=()):
    names = DIMNAMES
    tot = cov = 0
    missing = []
    for d1, d2 in itertools.combinations(names, 2):
        if (d1, d2) in skip_pairs:
            continue
        seen = {(r[d1], r[d2]) for r in rows}
        n = len(DIMVALS[d1]) * len(DIMVALS[d2])
        tot += n
        cov += len(seen)
        if len(seen) < n and len(missing) < 5:
            missing.append(f"{d1}x{d2}:{n - len(seen)}")
    return cov, tot, missing


def row_sig(row):
    return "|".join(f"{d}={row[d]}" for d in DIMNAMES)


def short_sig(row):
    return "|".join([row["crop"], row["soil"], f"irr={row['irr']}", f"fm={row['fm']}", f"gw={row['gw']}", f"iwc={row['iwc']}",
                     f"plant={row['planting']}", f"win={row['window']}"]
                    + [f"{d}={row[d]}" for d in DIMNAMES[10:] if row[d] != DEFAULT_ROW[d]]
                    + [f"{d}={row[d]}" for d in ("ffm", "co2") if row[d] != DEFAULT_ROW[d]])


# ----------------------------------------------------------------------------- driver
def run_jobs(pool, jobs, deadline, exceptions):
    asyncs = [(j, pool.apply_async(run_row, (j,))) for j in jobs]
    out = []
    for j, a in asyncs:
        left = deadline - time.time()
        try:
            out.append(a.get(timeout=max(1.0, left)))
        except Exception as exc:  # noqa: BLE001
            exceptions.append(f"row {j[0]} no result before harness deadline or pool error: {type(exc).__name__}: {exc}")
    return out


def attribute(results):
    """per failure signature: the (dim,value) common to all its rows with the highest share of its runs failing that way"""
    nval = {}
    nok = {}
    for r in results:
        for d in DIMNAMES:
            k = (d, r["row"][d])
            nval[k] = nval.get(k, 0) + 1
            if r["status"] == "ok":
                nok[k] = nok.get(k, 0) + 1
    by_sig = {}
    for r in results:
        if r["status"] == "fail":
            by_sig.setdefault(r["sig"], []).append(r)
    causes = {}
    for sig, rs in by_sig.items():
        common = None
        for r in rs:
            s = {(d, r["row"][d]) for d in DIMNAMES}
            common = s if common is None else (common & s)
        # rank: share of (failing-this-way + completed) runs with the value that fail this way, then share of all its runs
        cands = sorted(common, key=lambda c: (-(len(rs) / (len(rs) + nok.get(c, 0))), -(len(rs) / nval[c]),
                                              c[1] == DEFAULT_ROW[c[0]], DIMNAMES.index(c[0])))
        if not cands:
            causes[sig] = None
            continue
        c = cands[0]
        strong = len(rs) / (len(rs) + nok.get(c, 0)) >= 0.5
        causes[sig] = (c[0], c[1], len(rs), nval[c], nok.get(c, 0), strong)
    return by_sig, causes


def main():
    ap = argparse.ArgumentParser()
    ap.add_argument("--tier", choices=["quick", "thorough"], default="quick")
    ap.add_argument("--seed", type=int, default=0)
    ap.add_argument("--out", required=True)
    a = ap.parse_args()
    t0 = time.time()
    exceptions = []
    quick = a.tier == "quick"
    tmo = 20 if quick else 60
    budget = 80 if quick else 840
    deadline = t0 + budget
    rng = random.Random(a.seed)
    all_results = []   # (pass, result)
    final = {}         # idx -> latest result
    lattice = ""
    npass = 0
    replaced_log = []
    minimal = {}
    try:
        import multiprocessing as mp
        if quick:
            n = 222
            crops = CROPS[:]
            rng.shuffle(crops)
            forced = [{"crop": crops[i % len(crops)]} for i in range(n)]
        else:
            trip = [(c, s, i) for c in CROPS for s in SOILS for i in range(6)]
            rng.shuffle(trip)
            forced = [{"crop": c, "soil": s, "irr": i} for c, s, i in trip]
            n = len(forced)
        rows = greedy_design(n, forced, rng)
        # hand-placed rows outside the pairwise design: compartment lists on which the deepening loop cannot grow
        extra = []
        ex_spec = [("Wheat", "SandyLoam", "three"), ("Maize", "Loam", "coarse"), ("Tomato", "Clay", "three")]
        if not quick:
            ex_spec += [("PaddyRice", "Clay", "three"), ("Potato", "SandyLoam", "coarse"), ("AlfalfaGDD", "SiltLoam", "three")]
        for c, s, dzv in ex_spec:
            r = dict(DEFAULT_ROW)
            r.update(crop=c, soil=s, dz=dzv)
            extra.append(r)
        # hand-placed rows: the derived latest harvest date (planting + maturity + 30 days) falls on 29 February of the first season's year
        for c in (["Barley", "Potato", "Wheat", "Tomato"] if quick else [c for c in CROPS if not c.endswith("GDD")]):
            r = dict(DEFAULT_ROW)
            r.update(crop=c, planting="auto_leap", window="leap_harvest")
            extra.append(r)
        cov, tot, missing = pair_stats(rows, skip_pairs=(("crop", "soil"),) if quick else ())
        jobs = [(i, r, a.seed, tmo) for i, r in enumerate(extra + rows)]
        n_extra = len(extra)
        ctx = mp.get_context("fork")
        with ctx.Pool(NPROC, maxtasksperchild=200) as pool:
            todo = jobs
            while todo and npass < 4:
                if npass > 0 and time.time() - t0 > budget * 0.75:
                    exceptions.append(f"adaptive pass {npass + 1} skipped: time budget")
                    break
                npass += 1
                out = run_jobs(pool, todo, deadline, exceptions)
                for r in out:
                    all_results.append((npass, r))
                    final[r["idx"]] = r
                cur = list(final.values())
                by_sig, causes = attribute([r for _, r in all_results])
                # build re-run list
                todo = []
                repl = {}
                for sig, c in causes.items():
                    if c is not None and c[5] and c[0] not in NO_REPLACE and c[1] != DEFAULT_ROW[c[0]]:
                        repl[sig] = (c[0], c[1])
                for r in out:
                    if r["status"] == "fail" and r["sig"] in repl and r["idx"] >= n_extra:
                        d, v = repl[r["sig"]]
                        nr = dict(r["row"])
                        nr[d] = DEFAULT_ROW[d]
                        todo.append((r["idx"], nr, a.seed, tmo))
                if todo:
                    for sig, c in sorted(repl.items()):
                        msg = f"{c[0]}={c[1]} -> {DEFAULT_ROW[c[0]]} in rows failing with '{sig[:70]}'"
                        if msg not in replaced_log:
                            replaced_log.append(msg)
            # ---- minimised reproductions (extra runs, same pool)
            try:
                by_sig0, causes0 = attribute([r for _, r in all_results])
                mjobs = []
                mmap = {}
                k = 10 ** 6
                for sig in sorted(by_sig0):
                    rs = sorted(by_sig0[sig], key=lambda r: (sum(1 for d in DIMNAMES[3:] if r["row"][d] != DEFAULT_ROW[d]), row_sig(r["row"])))
                    r0 = rs[0]["row"]
                    c = causes0.get(sig)
                    variants = []
                    for keep in (("crop", "soil"), ("crop", "soil", "planting", "window"), ("crop", "soil", "irr", "planting", "window", "climate", "off_season", "gw")):
                        m = dict(DEFAULT_ROW)
                        for d in keep:
                            m[d] = r0[d]
                        if c:
                            m[c[0]] = c[1]
                        if m not in variants and m != r0:
                            variants.append(m)
                    for m in variants:
                        mjobs.append((k, m, a.seed, tmo))
                        mmap[k] = sig
                        k += 1
                if mjobs and time.time() - t0 < budget * 0.85:
                    mout = run_jobs(pool, mjobs, deadline, exceptions)
                    for r in mout:
                        all_results.append(("min", r))
                        if r["status"] == "fail" and r["sig"] == mmap[r["idx"]]:
                            minimal.setdefault(r["sig"], r)
            except Exception as exc:  # noqa: BLE001
                exceptions.append(f"minimisation: {type(exc).__name__}: {exc}")
        lattice = (
            f"BOUNDED (not proved). Pairwise-covering design over {len(DIMS)} dimensions: "
            + "; ".join(f"{d}({len(v)})" for d, v in DIMS)
            + f". Values: fm={DIMVALS['fm']}, ffm={DIMVALS['ffm']}, gw={DIMVALS['gw']}, iwc={DIMVALS['iwc']} (layer specs list every layer of 2-layer soils), "
            f"co2={DIMVALS['co2']}, planting={DIMVALS['planting']}, window={DIMVALS['window']} (first planting date P in {BASE_YEAR}: full=P..P+400d, multi=P-40..+800d, partial=P..P+60d, "
            f"late_start=P+10..+500d, no_season=P+5..+100d, leap_start=2000/02/29..+420d, leap_end=2003/01/15..2004/02/29, short_around_planting=P-5..P+30d), "
            f"crop flags ETadj/PlantMethod/Determinant/GDDmethod/TrColdStress/PolHeatStress/PolColdStress/SwitchGDD as Crop kwargs, soil options z_cn/adj_cn/calc_cn/adj_rew/dz (fine=[0.05]*4+[0.1]*10) as Soil kwargs, "
            f"CalendarType and CropType through the 37 catalogue crops; seeded synthetic daily weather {WX_Y0}-{WX_Y1} (two climates). "
            + (f"quick: {n} greedy rows, every crop forced {n // len(CROPS)}x, all other dimensions chosen greedily; " if quick else
               f"thorough: the full 37x15x6 crop x soil x strategy product = {n} rows, remaining dimensions chosen greedily per row; ")
            + f"nominal pair coverage {cov}/{tot} value pairs" + (" (crop x soil pairs excluded in quick)" if quick else "")
            + (f", missing e.g. {missing}" if cov < tot else "")
            + f"; plus {n_extra} hand-placed rows with compartment lists dz=[0.1]*3 / [0.3]*5 (defaults otherwise). "
            f"Per-case timeout {tmo} s (SIGALRM in the worker). Adaptive re-runs: {npass} pass(es), {len(all_results)} model runs in total "
            f"(including {sum(1 for p_, _ in all_results if p_ == 'min')} minimised reproductions of failing rows); "
            f"replacements: {replaced_log if replaced_log else 'none'}.")
    except Exception as exc:  # noqa: BLE001
        exceptions.append(f"driver: {type(exc).__name__}: {exc} {traceback.format_exc(limit=4)[-600:]}")

    # ---------------- aggregate over ALL runs (every pass): a failure seen in any pass is a failure
    runs = [r for _, r in all_results]
    for r in runs:
        if r["status"] == "harness":
            exceptions.append(f"{short_sig(r['row'])}: {r['detail']}")
    by_sig, causes = attribute(runs) if runs else ({}, {})
    failures = []
    for sig in sorted(by_sig):
        rs = sorted(by_sig[sig], key=lambda r: row_sig(r["row"]))
        # smallest example = fewest non-default values
        rs.sort(key=lambda r: sum(1 for d in DIMNAMES[3:] if r["row"][d] != DEFAULT_ROW[d]))
        r0 = minimal.get(sig, rs[0])
        c = causes.get(sig)
        if c and c[5]:
            cause = (f"attributed to {c[0]}={c[1]}: present in all {c[2]} failing run(s) with this signature; of {c[3]} run(s) with that value "
                     f"{c[2]} failed this way and {c[4]} completed")
        elif c:
            cause = (f"no single option value explains it (best common value {c[0]}={c[1]}: {c[2]} failed this way, {c[4]} completed) - "
                     f"combination-, crop- or data-dependent")
        else:
            cause = "no option value common to all failing runs"
        crops = sorted({r["row"]["crop"] for r in rs})
        failures.append({
            "signature": sig,
            "clause": ("the run terminates" if sig.startswith("non-termination") else
                       "every reported number is finite" if sig.startswith("nonfinite") else
                       "the run terminates without raising (only the documented rejections are permitted)"),
            "detail": f"{len(rs)} run(s); {cause}; crops involved: {crops[:6]}{'...' if len(crops) > 6 else ''}; example {short_sig(r0['row'])}: {r0['detail']}",
            "repro": r0["repro"]})
    completed = [r for r in runs if r["status"] == "ok"]
    okrows = {row_sig(r["row"]) for r in completed}
    eff_cov = eff_tot = 0
    if completed:
        eff_cov, eff_tot, _ = pair_stats([r["row"] for r in completed], skip_pairs=(("crop", "soil"),) if quick else ())
    rejected = [r for r in runs if r["status"] == "rejected"]
    samples = []
    for r in (completed[:: max(1, len(completed) // 4)][:4] + rejected[:1] + [x for x in runs if x["status"] == "fail"][:2]):
        samples.append({"case": short_sig(r["row"]), "status": r["status"], "days_simulated": r.get("days"), "seasons_reported": r.get("n_final"),
                        "detail": r["detail"][:120]})
    out = {
        "property": PROP, "tier": a.tier, "seed": a.seed,
        "lattice": lattice + f" Outcome: {len(completed)} completed with finite outputs, {len(rejected)} documented rejections, "
                             f"{sum(1 for r in runs if r['status'] == 'fail')} failing runs; pair coverage over completed runs {eff_cov}/{eff_tot}.",
        "cases": len(runs), "distinct_nontrivial": len(okrows | {row_sig(r['row']) for r in runs if r['status'] == 'fail'}),
        "rule": "distinct configurations (all 25 dimension values) that either ran to completion and had every output cell checked for finiteness, or failed; "
                "documented rejections and harness problems are not counted",
        "failures": failures, "samples": samples[:8], "wall_s": round(time.time() - t0, 2), "exceptions": exceptions[:50],
    }
    with open(a.out, "w") as fh:
        json.dump(out, fh, indent=1, default=str)
    return 0


if __name__ == "__main__":
    try:
        sys.exit(main())
    except SystemExit:
        raise
    except BaseException:  # noqa: BLE001
        traceback.print_exc()
        sys.exit(4)
