"""E3 (BOUNDED): the ASSUMED contract of root_development's layer walk `_depth_after_restrictive_horizons(Zr, Zmin, prof, nLayer)` - the facts the
deductive proof of root_development#body takes from it (vc/solve.py, table `rdepth`) - evaluated on the REAL helper over real initialised profiles:
  range      Zmin <= h(Zr) <= Zr                    for Zr >= Zmin
  monotone   Zr1 <= Zr2  =>  h(Zr1) <= h(Zr2)        (same profile, same Zmin)
  function   h does not touch the profile and returns the same value when called twice
Profiles: custom soils of 1-4 horizons with thickness on the 0.01 m grid and penetrability in {0, 10, 40, 75, 100} %, several compartment lists.
Never counted as proved."""
import argparse, json, time, itertools, hashlib
import numpy as np

TOL = 1e-9


def profiles(tier):
    from aquacrop import AquaCropModel, Soil, Crop, InitialWaterContent
    from aquacrop.utils import prepare_weather, get_filepath
    w = prepare_weather(get_filepath("champion_climate.txt"))
    pens = [0, 10, 40, 75, 100]
    thick = [[1.2], [0.3, 0.9], [0.25, 0.35, 0.6], [0.1, 0.2, 0.4, 0.5], [0.5, 0.1, 0.6], [0.05, 1.15]]
    dzs = [[0.1] * 12, [0.05] * 24, [0.15] * 8, [0.03, 0.07] + [0.1] * 11]
    if tier != "quick":
        thick += [[0.4, 0.4, 0.4], [0.2, 0.2, 0.2, 0.6], [0.6, 0.6], [0.01, 0.29, 0.9]]
        dzs += [[0.3] * 4, [0.01] * 30 + [0.1] * 9]
    rng = np.random.default_rng(7)
    for th, dz in itertools.product(thick, dzs):
        combos = list(itertools.product(pens, repeat=len(th)))
        if tier == "quick" and len(combos) > 12:
            combos = [combos[i] for i in rng.choice(len(combos), 12, replace=False)]
        elif len(combos) > 60:
            combos = [combos[i] for i in rng.choice(len(combos), 60, replace=False)]
        for pc in combos:
            s = Soil("custom", dz=dz)
            for t, p in zip(th, pc):
                s.add_layer(t, 0.1, 0.3, 0.45, 500, p)
            m = AquaCropModel("1982/05/01", "1982/05/20", w, s, Crop("Maize", planting_date="05/01"), InitialWaterContent(value=["FC"]))
            try:
                m._initialize()
            except Exception as e:           # profile construction is C18's subject
                continue
            yield dict(thickness=th, pen=list(pc), dz=dz[:3] + ["..."] if len(dz) > 3 else dz), m._param_struct.Soil.Profile


def phash(prof):
    h = hashlib.sha256()
    for k in ("dz", "dzsum", "Layer", "Penetrability"):
        h.update(np.ascontiguousarray(np.asarray(getattr(prof, k))).tobytes())
    return h.hexdigest()


def main():
    ap = argparse.ArgumentParser(); ap.add_argument("--tier", default="quick"); ap.add_argument("--seed", type=int, default=0); ap.add_argument("--out", required=True)
    a = ap.parse_args(); t0 = time.time()
    from aquacrop.solution.root_development import _depth_after_restrictive_horizons as h
    zmins = [0.1, 0.3, 0.25, 0.7] if a.tier == "quick" else [0.05, 0.1, 0.2, 0.3, 0.25, 0.5, 0.7, 1.0]
    nz = 25 if a.tier == "quick" else 80
    cases, fails, samples, nprof = 0, {}, [], 0
    for desc, prof in profiles(a.tier):
        nprof += 1
        nl = int(np.unique(prof.Layer).shape[0])
        before = phash(prof)
        total = float(prof.dzsum[-1])
        for zmin in zmins:
            if zmin >= total:
                continue
            zs = sorted(set([zmin, zmin + 1e-6, zmin + 0.001] + list(np.round(np.linspace(zmin, min(total - 0.01, zmin + 2.3), nz), 4))))
            prev, prevz = None, None
            for zr in zs:
                cases += 1
                try:
                    v = float(h(zr, zmin, prof, nl)); v2 = float(h(zr, zmin, prof, nl))
                except Exception as e:
                    sig = "layer-walk|exception|%s" % type(e).__name__
                    fails.setdefault(sig, dict(signature=sig, clause="the layer walk returns", detail="%s Zmin=%s Zr=%s: %r" % (desc, zmin, zr, e), repro=repr(desc)))
                    continue
                bad = None
                if not (zmin - TOL <= v <= zr + TOL) or not np.isfinite(v):
                    bad = ("range", "h(%s)=%s not in [Zmin=%s, Zr]" % (zr, v, zmin))
                elif v != v2:
                    bad = ("function", "two calls differ: %s vs %s" % (v, v2))
                elif prev is not None and v < prev - TOL:
                    bad = ("monotone", "h(%s)=%s < h(%s)=%s" % (zr, v, prevz, prev))
                if bad:
                    sig = "layer-walk|%s|nlayer=%d" % (bad[0], nl)
                    fails.setdefault(sig, dict(signature=sig, clause="assumed contract of _depth_after_restrictive_horizons: " + bad[0],
                                               detail="%s Zmin=%s: %s" % (desc, zmin, bad[1]), repro=repr(desc)))
                prev, prevz = v, zr
                if len(samples) < 6 and v < zr - 1e-6:
                    samples.append(dict(profile=desc, Zmin=zmin, Zr=float(zr), h=v))
        if phash(prof) != before:
            sig = "layer-walk|writes-profile"
            fails.setdefault(sig, dict(signature=sig, clause="the layer walk does not write the profile", detail=repr(desc), repro=repr(desc)))
    json.dump(dict(property="C05", tier=a.tier, seed=a.seed,
                   lattice="%d real profiles (1-4 horizons, penetrability 0/10/40/75/100 %%, %s compartment lists) x %d minimum depths x ~%d potential depths: %d calls of the real helper"
                           % (nprof, "4" if a.tier == "quick" else "6", len(zmins), nz + 2, cases),
                   cases=cases, distinct_nontrivial=cases, rule="each case is a distinct (profile, Zmin, Zr); monotonicity compares consecutive Zr of the sorted list",
                   failures=list(fails.values()), samples=samples, wall_s=round(time.time() - t0, 1), exceptions=[]), open(a.out, "w"), indent=1)


if __name__ == "__main__":
    main()
