#!/venv/bin/python
"""E3 bounded check for property C15 -- weather is bound by date and by column name.

BOUNDED, NOT PROVED.  For each configuration of an enumerated set the CANONICAL run uses a
weather table with columns [MinTemp, MaxTemp, Precipitation, ReferenceET, Date] (the order
prepare_weather produces), a RangeIndex starting at 0 and exactly the records of the window.
Every VARIANT table holds the same records under a transformation the property says is
irrelevant; the variant run must not raise and must reproduce all four output tables bitwise:

  PERM    permutations of the five required columns (all 120 in thorough, a sample in quick,
          always including: full reversal, Date first, MinTemp<->MaxTemp swapped, Precipitation<->ReferenceET swapped)
  EXTRA   1 or 3 unrelated extra columns (numeric 'Wind'/'Tdew'/'Rs', numeric with missing values 'WindGaps', or string 'Station') inserted at
          first / middle / last position, the five required columns otherwise in canonical order;
          plus extra columns combined with sampled permutations
  INDEX   same records, same row order, different index: RangeIndex offset by 1000, shuffled
          integer labels, DatetimeIndex (the dates), string labels
  ROWS    extra leading / trailing daily records outside the window ((L,T) from {0,1,30,400}^2)
  COMBO   permutation + extra column + index + extra rows at once (sampled)
"""
import argparse
import itertools
import datetime
import json
import os
import sys
import time
import traceback
import warnings

warnings.filterwarnings("ignore")
os.environ.setdefault("OMP_NUM_THREADS", "1")
os.environ.setdefault("OPENBLAS_NUM_THREADS", "1")

PROP = "C15"
DAILY = ("water_flux", "water_storage", "crop_growth")
CANON = ["MinTemp", "MaxTemp", "Precipitation", "ReferenceET", "Date"]
_W = {}


def weather(key):
    from aquacrop.utils import prepare_weather, get_filepath
    if key not in _W:
        _W[key] = prepare_weather(get_filepath(key + "_climate.txt"))
    return _W[key]


def build_model(cfg, wdf):
    import pandas as pd
    from aquacrop import (AquaCropModel, Soil, Crop, InitialWaterContent, IrrigationManagement, FieldMngt, GroundWater)
    soil = Soil(cfg["soil"], **cfg.get("soil_kw", {}))
    crop = Crop(cfg["crop"], planting_date=cfg["plant"], **cfg.get("crop_kw", {}))
    iwc = InitialWaterContent(**cfg["iwc"]) if cfg.get("iwc") else InitialWaterContent(value=["FC"])
    kw = {}
    irr = cfg.get("irr")
    if irr:
        ikw = dict(irr.get("kw", {}))
        if irr["method"] == 3:
            ikw["Schedule"] = pd.DataFrame({"Date": pd.to_datetime([d for d, _ in irr["sched"]]),
                                            "Depth": [float(x) for _, x in irr["sched"]]})
        kw["irrigation_management"] = IrrigationManagement(irrigation_method=irr["method"], **ikw)
    if cfg.get("field"):
        kw["field_management"] = FieldMngt(**cfg["field"])
    if cfg.get("gw"):
        kw["groundwater"] = GroundWater(**cfg["gw"])
    if cfg.get("off_season"):
        kw["off_season"] = True
    return AquaCropModel(cfg["start"], cfg["end"], wdf, soil, crop, iwc, **kw)


def run(cfg, wdf):
    import numpy as np
    m = build_model(cfg, wdf)
    m.run_model(till_termination=True)
    o = m._outputs
    r = {t: np.ascontiguousarray(np.asarray(getattr(getattr(o, t), "values", getattr(o, t)), dtype=float)) for t in DAILY}
    fs = o.final_stats
    r["final_num"] = np.ascontiguousarray(fs.select_dtypes("number").to_numpy(dtype=float))
    r["final_str"] = [" ".join(str(v) for v in row) for row in fs.select_dtypes(exclude="number").to_numpy().tolist()]
    return r


def compare(a, b):
    import numpy as np
    out = []
    for t in DAILY + ("final_num",):
        x, y = a[t], b[t]
        if x.shape != y.shape:
            out.append("%s shape %s vs %s" % (t, x.shape, y.shape))
            continue
        if x.tobytes() == y.tobytes():
            continue
        neq = ~((x == y) | (np.isnan(x) & np.isnan(y)))
        if neq.any():
            r, c = np.argwhere(neq)[0]
            out.append("%s: %d cells differ, first row %d col %d canonical=%.6g variant=%.6g, max|d|=%.3g"
                       % (t, int(neq.sum()), r, c, x[r, c], y[r, c], float(np.nanmax(np.abs(x - y)))))
        else:
            out.append("%s: bit pattern differs" % t)
    if a["final_str"] != b["final_str"]:
        out.append("final_stats non-numeric columns differ")
    return "; ".join(out) if out else None


# ------------------------------------------------------------------------ configurations
ENTRIES = [("Wheat", "10/15", "tunis", "cd"), ("Maize", "04/15", "champion", "cd"), ("WheatGDD", "10/15", "tunis", "gdd"),
           ("Potato", "04/15", "tunis", "switch"), ("MaizeChampionGDD", "04/15", "champion", "gdd"), ("Tomato", "04/15", "champion", "cd"),
           ("Cotton", "04/15", "champion", "cd"), ("PotatoGDD", "04/15", "tunis", "gdd"), ("Barley", "10/15", "tunis", "cd"),
           ("SugarBeetGDD", "04/15", "champion", "gdd"), ("Tomato", "04/15", "tunis", "switch"), ("Quinoa", "10/15", "tunis", "cd")]
SOILS = [("SandyLoam", {}), ("Clay", {}), ("Loam", {}), ("ac_TunisLocal", {}), ("SiltLoam", {"dz": [0.15] * 10})]
IRRS = [None, {"method": 1, "kw": {"SMT": [70, 60, 50, 40]}}, {"method": 4, "kw": {"NetIrrSMT": 70}}, {"method": 2, "kw": {"IrrInterval": 7}}, "sched"]


def mk_cfg(i, y0, rot):
    crop, plant, wx, kind = ENTRIES[i]
    cfg = {"crop": crop, "plant": plant, "wx": wx, "kind": kind}
    if kind == "switch":
        cfg["crop_kw"] = {"SwitchGDD": 1}
    if plant.startswith("1"):
        cfg["start"], cfg["end"] = "%d/%s" % (y0, ["10/15", "09/01"][rot % 2]), "%d/09/30" % (y0 + 2)
    else:
        cfg["start"], cfg["end"] = "%d/%s" % (y0, [plant, "01/01"][rot % 2]), "%d/12/30" % (y0 + 1)
    s, skw = SOILS[rot % len(SOILS)]
    cfg["soil"] = s
    if skw:
        cfg["soil_kw"] = skw
    irr = IRRS[(rot // 2) % len(IRRS)]
    if irr == "sched":
        mm, dd = plant.split("/")
        d0 = datetime.date(y0, int(mm), int(dd))
        irr = {"method": 3, "sched": [[(d0 + datetime.timedelta(days=k)).isoformat(), dep] for k, dep in ((10, 20), (30, 25), (55, 30), (380, 20))]}
    cfg["irr"] = irr
    if rot % 5 == 2:
        cfg["gw"] = {"water_table": "Y", "dates": [cfg["start"]], "values": [2.5]}
    if rot % 7 == 3:
        cfg["field"] = {"mulches": True, "mulch_pct": 60, "f_mulch": 0.4}
    return cfg


def sig(cfg):
    return "%s%s|%s|irr=%s|%s-%s" % (cfg["crop"], "+SwitchGDD" if cfg.get("crop_kw") else "", cfg["soil"],
                                     cfg["irr"]["method"] if cfg.get("irr") else 0, cfg["start"], cfg["end"])


# ------------------------------------------------------------------------ table transformations
def make_table(cfg, spec):
    """spec: {'perm': [..5 names..], 'extra': [(name, pos)], 'index': kind, 'lead': L, 'trail': T}"""
    import numpy as np
    import pandas as pd
    full = weather(cfg["wx"])
    s = pd.to_datetime(cfg["start"]) - pd.Timedelta(days=spec.get("lead", 0))
    e = pd.to_datetime(cfg["end"]) + pd.Timedelta(days=spec.get("trail", 0))
    w = full[(full.Date >= s) & (full.Date <= e)].reset_index(drop=True).copy()
    cols = list(spec.get("perm") or CANON)
    n = len(w)
    extra_data = {"Wind": np.linspace(0.5, 6.0, n), "Tdew": np.linspace(-3.0, 18.0, n), "Rs": 200.0 + 50.0 * np.sin(np.arange(n) / 20.0),
                  "Station": np.array(["st%03d" % (i % 7) for i in range(n)], dtype=object)}
    # an unrelated column with gaps (missing observations inside the simulated window)
    gaps = np.linspace(1.0, 9.0, n)
    gaps[n // 3: n // 3 + 5] = np.nan
    gaps[(2 * n) // 3] = np.nan
    extra_data["WindGaps"] = gaps
    for name, pos in spec.get("extra", []):
        k = {"first": 0, "last": len(cols), "middle": len(cols) // 2}[pos]
        cols.insert(k, name)
    data = {}
    for c in cols:
        data[c] = w[c].to_numpy() if c in CANON else extra_data[c]
    t = pd.DataFrame(data, columns=cols)
    kind = spec.get("index", "range0")
    if kind == "range1000":
        t.index = pd.RangeIndex(1000, 1000 + n)
    elif kind == "shuffled":
        rs = np.random.RandomState(12345)
        t.index = rs.permutation(n)
    elif kind == "datetime":
        t.index = pd.DatetimeIndex(w["Date"].to_numpy())
    elif kind == "string":
        t.index = ["r%05d" % i for i in range(n)]
    return t


def spec_label(spec):
    return json.dumps({k: v for k, v in spec.items() if k != "cls"}, sort_keys=True)


def signature(spec, exc, diff, columns):
    """mechanism-level signature: is the positional layout of the first five columns disturbed?"""
    cls = spec["cls"]
    outcome = "raises" if exc is not None else "differs-silently"
    if list(columns)[:5] != CANON:
        return "positional-layout-disturbed|%s|%s" % (cls, outcome)
    res = ("raises-" + type(exc).__name__) if exc is not None else "differs-silently"
    extra = ""
    if cls in ("INDEX", "COMBO"):
        extra += "|index=" + spec.get("index", "range0")
    if cls in ("ROWS", "COMBO"):
        extra += "|lead=%s|trail=%s" % ("0" if not spec.get("lead") else "+", "0" if not spec.get("trail") else "+")
    return "layout-intact|%s%s|%s" % (cls, extra, res)


def job_run(job):
    cfg = job["cfg"]
    out = {"sig": sig(cfg), "cases": 0, "nontrivial": 0, "failures": [], "harness": [], "samples": [], "by_cls": {}}
    try:
        try:
            base = run(cfg, make_table(cfg, {}))
        except BaseException as e:  # noqa
            out["harness"].append("invalid base config (excluded) %s: %s: %s" % (out["sig"], type(e).__name__, str(e)[:80]))
            return out
        for spec in job["variants"]:
            t = make_table(cfg, spec)
            out["cases"] += 1
            out["nontrivial"] += 1   # every enumerated spec differs from the canonical table (identity excluded by construction)
            out["by_cls"][spec["cls"]] = out["by_cls"].get(spec["cls"], 0) + 1
            exc, diff = None, None
            try:
                v = run(cfg, t)
                diff = compare(base, v)
            except BaseException as e:  # noqa
                exc = e
            if exc is not None or diff:
                out["failures"].append({
                    "signature": signature(spec, exc, diff, t.columns),
                    "clause": {"PERM": "each variable is taken from the column of that name (reordering the columns does not change the results)",
                               "EXTRA": "adding unrelated columns does not change the results",
                               "INDEX": "re-indexing the table does not change the results",
                               "ROWS": "supplying extra leading or trailing rows does not change the results (record bound by date, whatever the row offset)",
                               "COMBO": "reordering columns, extra columns, re-indexing and extra rows together do not change the results"}[spec["cls"]],
                    "detail": "columns %s, index %s, +%d leading/+%d trailing rows: %s ; case %s" % (
                        list(t.columns), spec.get("index", "range0"), spec.get("lead", 0), spec.get("trail", 0),
                        ("raised %s: %s" % (type(exc).__name__, str(exc)[:140])) if exc is not None else diff, out["sig"]),
                    "repro": json.dumps({"cfg": cfg, "table": {k: v for k, v in spec.items() if k != "cls"},
                                         "how": "w=prepare_weather(...); clip to window(+lead/trail); w=w[columns]; AquaCropModel(..., weather_df=w)"})})
            if len(out["samples"]) < 2:
                out["samples"].append({"class": spec["cls"], "case": out["sig"], "columns": list(t.columns), "index": spec.get("index", "range0"),
                                       "lead": spec.get("lead", 0), "trail": spec.get("trail", 0),
                                       "outcome": ("raised " + type(exc).__name__) if exc is not None else ("differs" if diff else "identical")})
    except BaseException:  # noqa
        out["harness"].append("job %s: %s" % (out["sig"], traceback.format_exc()[-500:]))
    return out


def source_digest():
    """sha256 over the .py files of the installed aquacrop package (to notice edits of /repo during the run)."""
    import hashlib
    import importlib.util
    root = os.path.dirname(importlib.util.find_spec("aquacrop").origin)
    h = hashlib.sha256()
    for d, _, fs in sorted(os.walk(root)):
        for f in sorted(fs):
            if f.endswith(".py"):
                h.update(f.encode())
                h.update(open(os.path.join(d, f), "rb").read())
    return h.hexdigest()


def main():
    ap = argparse.ArgumentParser()
    ap.add_argument("--tier", choices=["quick", "thorough"], default="quick")
    ap.add_argument("--seed", type=int, default=0)
    ap.add_argument("--out", required=True)
    a = ap.parse_args()
    import random
    import multiprocessing as mp
    t0 = time.time()
    rng = random.Random(a.seed)
    try:
        src0 = source_digest()
    except Exception:  # noqa
        src0 = None
    quick = a.tier == "quick"
    res = {"property": PROP, "tier": a.tier, "seed": a.seed}
    failures, exceptions, samples = [], [], []
    cases = nontrivial = 0
    by_cls = {}
    try:
        perms = [list(p) for p in itertools.permutations(CANON) if list(p) != CANON]   # 119
        special = [CANON[::-1], ["Date"] + CANON[:4], ["MaxTemp", "MinTemp", "Precipitation", "ReferenceET", "Date"],
                   ["MinTemp", "MaxTemp", "ReferenceET", "Precipitation", "Date"]]
        ncfg = 4 if quick else len(ENTRIES)
        full_perm_cfgs = 0 if quick else 6      # configurations that get all 119 non-identity permutations
        jobs = []
        ncfgs = 0
        for i in range(ncfg):
            wx = ENTRIES[i][2]
            y0 = rng.randrange(1984, 1996) if wx == "champion" else rng.randrange(1981, 1995)
            cfg = mk_cfg(i, y0, i + a.seed)
            ncfgs += 1
            V = []
            if i < full_perm_cfgs:
                pl = perms
            else:
                others = [p for p in perms if p not in special]
                pl = special + rng.sample(others, 8 if quick else 24)
            for p in pl:
                V.append({"cls": "PERM", "perm": p})
            extras = []
            for pos in ("first", "middle", "last"):
                extras.append([("Wind", pos)])
                extras.append([("Station", pos)])
                if not quick:
                    extras.append([("Wind", pos), ("Tdew", pos), ("Rs", pos)])
            if quick:
                extras.append([("Wind", "middle"), ("Tdew", "middle"), ("Rs", "middle")])
            if not quick:
                extras.append([("Wind", "first"), ("Station", "last")])
                extras.append([("Tdew", "middle"), ("Rs", "last")])
            extras.append([("WindGaps", "last")])
            extras.append([("WindGaps", "first"), ("Station", "last")])
            for ex in extras:
                V.append({"cls": "EXTRA", "extra": ex})
            for kind in ("range1000", "shuffled", "datetime", "string"):
                V.append({"cls": "INDEX", "index": kind})
            LT = [(L, T) for L in (0, 1, 30, 400) for T in (0, 1, 30, 400) if (L, T) != (0, 0)]
            if quick:
                LT = rng.sample(LT, 4)
            for (L, T) in LT:
                V.append({"cls": "ROWS", "lead": L, "trail": T})
            V.append({"cls": "COMBO", "perm": ["MinTemp", "Precipitation", "ReferenceET", "MaxTemp", "Date"], "index": "range1000", "lead": 1, "trail": 0})
            V.append({"cls": "COMBO", "perm": list(CANON), "index": "string", "lead": 30, "trail": 400, "extra": [("Station", "last")]})
            for _ in range(4 if quick else 20):
                spec = {"cls": "COMBO", "perm": rng.choice(perms + [CANON] * 20), "index": rng.choice(["range0", "range1000", "shuffled", "datetime", "string"]),
                        "lead": rng.choice([0, 1, 30, 400]), "trail": rng.choice([0, 1, 30, 400])}
                if rng.random() < 0.7:
                    spec["extra"] = [(rng.choice(["Wind", "Station", "Tdew"]), rng.choice(["first", "middle", "last"]))]
                V.append(spec)
            step = 8 if quick else 16
            for k in range(0, len(V), step):
                jobs.append({"cfg": cfg, "variants": V[k:k + step]})
        with mp.Pool(16, maxtasksperchild=20) as pool:
            outs = pool.map(job_run, jobs, chunksize=1)
        seen_cls = set()
        for o in outs:
            cases += o["cases"]
            nontrivial += o["nontrivial"]
            exceptions.extend(o["harness"][:3])
            failures.extend(o["failures"])
            for k, v in o["by_cls"].items():
                by_cls[k] = by_cls.get(k, 0) + v
            for s in o["samples"]:
                if (s["class"], s["outcome"]) not in seen_cls and len(samples) < 8:
                    seen_cls.add((s["class"], s["outcome"]))
                    samples.append(s)
        ded = {}
        for f in failures:
            if f["signature"] in ded:
                ded[f["signature"]]["n"] += 1
            else:
                ded[f["signature"]] = dict(f, n=1)
        failures = []
        for f in ded.values():
            nrep = f.pop("n")
            f["detail"] = "[%d cases with this signature] %s" % (nrep, f["detail"])
            failures.append(f)
        res["lattice"] = (
            "BOUNDED. %d configurations %s (2-season windows, rotating 5 soils / 5 irrigation options incl. dated schedule / groundwater / mulch; "
            "real tunis/champion records). Variant tables per configuration: PERM %s; EXTRA columns (Wind|Station%s at first/middle/last%s); "
            "INDEX {RangeIndex+1000, shuffled integer labels, DatetimeIndex, string labels}; ROWS (lead,trail) in {0,1,30,400}^2 minus (0,0)%s; "
            "COMBO 2 fixed + %d seeded mixtures of all four. Runs by class: %s. Each compared bitwise (water_flux, water_storage, crop_growth, final_stats) with the "
            "canonical-table run of the same configuration."
            % (ncfgs, [e[0] + ("+SwitchGDD" if e[3] == "switch" else "") for e in ENTRIES[:ncfg]],
               ("4 fixed (reversal, Date first, Tmin<->Tmax, P<->ET0) + 8 sampled of the 119 non-identity permutations" if quick else
                "all 119 non-identity permutations for the first %d configurations, 4 fixed + 24 sampled for the others" % full_perm_cfgs),
               "" if quick else "|Wind+Tdew+Rs", " and Wind+Tdew+Rs in the middle" if quick else " and two mixed placements", " (4 sampled)" if quick else "",
               4 if quick else 20, json.dumps(by_cls, sort_keys=True)))
        res["rule"] = ("a case is one variant table run against the canonical run of the same configuration; every enumerated variant is non-trivial by "
                       "construction (the identity permutation and the (0,0) row extension are excluded; the canonical run itself is not counted).")
    except Exception:  # noqa
        exceptions.append("harness: " + traceback.format_exc()[-1500:])
        res.setdefault("lattice", "harness error before enumeration completed")
        res.setdefault("rule", "")
    res["cases"] = cases
    res["distinct_nontrivial"] = nontrivial
    res["failures"] = failures
    res["samples"] = samples[:8]
    try:
        if src0 is not None and source_digest() != src0:
            exceptions.append("note: aquacrop source files changed on disk while the harness was running; every comparison is made between "
                              "runs of one worker process (one imported copy of the package), so reported results remain self-consistent")
    except Exception:  # noqa
        pass
    res["wall_s"] = round(time.time() - t0, 2)
    res["exceptions"] = exceptions
    json.dump(res, open(a.out, "w"), indent=1, default=str)
    print("%s %s: cases=%d nontrivial=%d failure-signatures=%d exceptions=%d wall=%.1fs" %
          (PROP, a.tier, cases, nontrivial, len(failures), len(exceptions), res["wall_s"]))
    return 0


if __name__ == "__main__":
    sys.exit(main())
