"""E3 (BOUNDED, explicitly enumerated, never counted as proved) for C17: stress coefficients, growing degree days, canopy curves and the
CO2 productivity factor of every built-in crop on a dense lattice of argument values.

The REAL functions of the installed package are called on every lattice point (nothing is re-implemented):
  1. aquacrop.solution.water_stress.water_stress                  range [0,1], non-increasing in root-zone depletion
  2. aquacrop.solution.temperature_stress.temperature_stress      range [0,1], heat coefficient non-increasing in Tmax, cold one non-decreasing in Tmin
  3. aquacrop.solution.growing_degree_day.growing_degree_day      range [0, Tupp-Tbase], non-decreasing in Tmax and in Tmin (methods 1, 2, 3)
  4. aquacrop.solution.cc_development / cc_required_time          growth non-decreasing, decline non-increasing, both in [0, CCx], inverse
  5. fCO2 as computed by initialize/compute_variables.py (through AquaCropModel._initialize) and as recomputed by
     timestep/reset_initial_conditions.py for the second season (called the way update_time calls it)

NaN or an exception raised by the function under test on a lattice point is a failure of the corresponding range clause
(signature suffix |nan or |raises-<ExceptionName>), never a harness exception."""
import argparse, json, time, random, math, sys, os, copy, inspect, traceback
from multiprocessing import Pool

TOL_MONO = 1e-12          # monotonicity tolerance, clauses 1-4
TOL_INV = 1e-6            # cc_required_time inverts cc_development
TOL_CO2_REF = 1e-12
TOL_CO2_MONO = 1e-9
CO2_REF = 369.41
KS_NAMES = ("Ksw_Exp", "Ksw_Sto", "Ksw_Sen", "Ksw_Pol", "Ksw_StoLin")
# (planting date, window start, window end, weather file); the third is a warm-climate fallback for crops the Champion weather cannot ripen within a year
CO2_CONFIGS = (("05/01", "1982/05/01", "1984/04/30", "champion_climate.txt"), ("10/15", "1982/10/15", "1984/10/14", "champion_climate.txt"),
               ("06/01", "2001/06/01", "2003/05/31", "hyderabad_climate.txt"))


# ----------------------------------------------------------------------------------------------------------------- helpers
class Fails(object):
    """one entry per signature: count, first and worst failing input (details are only formatted when they are kept)"""

    def __init__(self):
        self.d = {}

    def add(self, sig, clause, mag, detail_fn, repro_fn):
        try:
            mag = float(mag)
            if mag != mag:
                mag = float("inf")
        except Exception:
            mag = float("inf")
        e = self.d.get(sig)
        if e is None:
            self.d[sig] = dict(signature=sig, clause=clause, count=1, first=detail_fn(), worst=None, worst_mag=mag, first_mag=mag, repro=repro_fn())
        else:
            e["count"] += 1
            if mag > e["worst_mag"]:
                e["worst_mag"] = mag
                e["worst"] = detail_fn()

    def export(self):
        return list(self.d.values())


def merge_fails(total, part):
    for e in part:
        t = total.get(e["signature"])
        if t is None:
            total[e["signature"]] = dict(e)
        else:
            t["count"] += e["count"]
            if e["worst_mag"] > t["worst_mag"]:
                t["worst_mag"] = e["worst_mag"]
                t["worst"] = e["worst"] if e["worst"] is not None else e["first"]


def fnum(x):
    """float value of a returned number; raises when the function returned something that is not a number"""
    return float(x)


def mkcrop(name):
    from aquacrop import Crop
    last = None
    for pd_ in ("05/01", "10/15"):
        try:
            return Crop(name, planting_date=pd_), pd_
        except Exception as e:      # noqa
            last = e
    raise last


def uniq_sorted(vals, lo, hi):
    out = sorted({round(float(v), 10) for v in vals if lo - 1e-12 <= v <= hi + 1e-12})
    return [min(max(v, lo), hi) for v in out]


def lin(lo, hi, n, shift=0.0):
    """n points from lo to hi (inclusive) with the interior points shifted by `shift` steps (0 <= shift < 1)"""
    if n < 2:
        return [lo]
    step = (hi - lo) / (n - 1)
    return [lo] + [lo + (i + shift) * step for i in range(0 if shift > 0 else 1, n - 1)] + [hi]


# ----------------------------------------------------------------------------------------------------------------- clause 1
def task_water_stress(arg):
    name, et0s, taws, pcts = arg
    import numpy as np
    np.seterr(all="ignore")
    F = Fails(); n = 0; nt = 0; sample = None
    try:
        from aquacrop.solution.water_stress import water_stress
        c, pdate = mkcrop(name)
        own_beta = c.beta
        # thresholds of the crop itself (without the ET0 adjustment) are put on the depletion grid, +- 0.01 % of TAW
        extra = []
        for p in list(c.p_up) + list(c.p_lo):
            extra += [100 * float(p) - 0.01, 100 * float(p), 100 * float(p) + 0.01]
        grid = uniq_sorted(list(pcts) + extra, -20.0, 120.0)
        configs = [(False, own_beta, 3.0), (True, own_beta, 3.0), (False, 0, 3.0), (True, 0, 3.0), (True, own_beta, 0.0)]
        sig_r = "water_stress|Ks_in_[0,1]|%s" % name
        sig_m = "water_stress|nonincreasing_in_depletion|%s" % name
        for et0 in et0s:
            for (flag, cbeta, tes) in configs:
                for taw in taws:
                    prev = None
                    for pct in grid:
                        Dr = pct / 100.0 * taw
                        n += 1

                        def rp(Dr=Dr, taw=taw, et0=et0, flag=flag, cbeta=cbeta, tes=tes):
                            return ("from aquacrop import Crop; from aquacrop.solution.water_stress import water_stress; c=Crop(%r,planting_date=%r); "
                                    "print(water_stress(c.p_up,c.p_lo,c.ETadj,%r,c.fshape_w,%r,%r,%r,%r,%r))" % (name, pdate, cbeta, tes, Dr, taw, et0, flag))
                        try:
                            r = water_stress(c.p_up, c.p_lo, c.ETadj, cbeta, c.fshape_w, tes, Dr, taw, et0, flag)
                            vals = [fnum(x) for x in r]
                            if len(vals) != 5:
                                raise ValueError("water_stress returned %d values" % len(vals))
                        except Exception as e:
                            F.add(sig_r + "|raises-" + type(e).__name__, "water stress coefficients are finite and lie in [0,1]", float("inf"),
                                  lambda e=e, pct=pct, taw=taw, et0=et0, flag=flag, cbeta=cbeta: "Dr=%.6g%% of TAW=%g, ET0=%g, beta=%s, Crop_beta=%s: %s: %s" % (pct, taw, et0, flag, cbeta, type(e).__name__, e), rp)
                            prev = None
                            continue
                        bad = False
                        for k, v in enumerate(vals):
                            if not math.isfinite(v):
                                bad = True
                                F.add(sig_r + "|nan", "water stress coefficients are finite and lie in [0,1]", float("inf"),
                                      lambda k=k, v=v, pct=pct, taw=taw, et0=et0, flag=flag, cbeta=cbeta: "%s=%r at Dr=%.6g%% of TAW=%g, ET0=%g, beta=%s, Crop_beta=%s" % (KS_NAMES[k], v, pct, taw, et0, flag, cbeta), rp)
                            elif v < 0.0 or v > 1.0:
                                F.add(sig_r, "water stress coefficients are finite and lie in [0,1]", max(-v, v - 1.0),
                                      lambda k=k, v=v, pct=pct, taw=taw, et0=et0, flag=flag, cbeta=cbeta: "%s=%r at Dr=%.6g%% of TAW=%g, ET0=%g, beta=%s, Crop_beta=%s" % (KS_NAMES[k], v, pct, taw, et0, flag, cbeta), rp)
                        if bad:
                            prev = None
                            continue
                        if prev is not None:
                            for k, v in enumerate(vals):
                                if v > prev[1][k] + TOL_MONO:
                                    F.add(sig_m, "water stress coefficients do not increase as root-zone depletion increases", v - prev[1][k],
                                          lambda k=k, v=v, pct=pct, pv=prev[1][k], pp=prev[0], taw=taw, et0=et0, flag=flag, cbeta=cbeta:
                                          "%s rises from %r at Dr=%.6g%% to %r at Dr=%.6g%% of TAW=%g, ET0=%g, beta=%s, Crop_beta=%s" % (KS_NAMES[k], pv, pp, v, pct, taw, et0, flag, cbeta), rp)
                        prev = (pct, vals)
                        if any(0.0 < v < 1.0 for v in vals):
                            nt += 1
                            if sample is None and 0.0 < vals[0] < 1.0 and 0.0 < vals[1] < 1.0:
                                sample = dict(function="water_stress", crop=name, Dr_pct_of_TAW=pct, taw=taw, et0=et0, beta=flag, Crop_beta=cbeta, Ks=vals)
        return dict(kind="ws", crop=name, n=n, nt=nt, fails=F.export(), sample=sample, grid=len(grid), exc=None)
    except Exception as e:
        return dict(kind="ws", crop=name, n=n, nt=nt, fails=F.export(), sample=sample, grid=0, exc="water_stress harness %s: %s: %s" % (name, type(e).__name__, e))


# ----------------------------------------------------------------------------------------------------------------- clause 2
def task_temperature_stress(arg):
    name, temps = arg
    import numpy as np
    np.seterr(all="ignore")
    F = Fails(); n = 0; nt = 0; sample = None
    try:
        from aquacrop.solution.temperature_stress import temperature_stress
        c, pdate = mkcrop(name)
        extra = []
        for a in ("Tmax_lo", "Tmax_up", "Tmin_lo", "Tmin_up"):
            try:
                t = float(getattr(c, a))
                extra += [t - 0.01, t, t + 0.01]
            except Exception:
                pass
        grid = uniq_sorted(list(temps) + extra, -30.0, 60.0)
        sig_h = "temperature_stress|Kst_PolH_in_[0,1]|%s" % name
        sig_c = "temperature_stress|Kst_PolC_in_[0,1]|%s" % name
        sig_hm = "temperature_stress|Kst_PolH_nonincreasing_in_temp_max|%s" % name
        sig_cm = "temperature_stress|Kst_PolC_nondecreasing_in_temp_min|%s" % name
        N = len(grid)
        H = [[None] * N for _ in range(N)]; C = [[None] * N for _ in range(N)]
        for i, tmax in enumerate(grid):
            for j, tmin in enumerate(grid):
                n += 1

                def rp(tmax=tmax, tmin=tmin):
                    return ("from aquacrop import Crop; from aquacrop.solution.temperature_stress import temperature_stress; "
                            "print(temperature_stress(Crop(%r,planting_date=%r),%r,%r))" % (name, pdate, tmax, tmin))
                try:
                    r = temperature_stress(c, tmax, tmin)
                    h, cc = fnum(r[0]), fnum(r[1])
                except Exception as e:
                    F.add(sig_h + "|raises-" + type(e).__name__, "heat and cold pollination coefficients are finite and lie in [0,1]", float("inf"),
                          lambda e=e, tmax=tmax, tmin=tmin: "temp_max=%g temp_min=%g: %s: %s" % (tmax, tmin, type(e).__name__, e), rp)
                    continue
                for v, sg, nm in ((h, sig_h, "Kst_PolH"), (cc, sig_c, "Kst_PolC")):
                    if not math.isfinite(v):
                        F.add(sg + "|nan", "heat and cold pollination coefficients are finite and lie in [0,1]", float("inf"),
                              lambda v=v, nm=nm, tmax=tmax, tmin=tmin: "%s=%r at temp_max=%g temp_min=%g" % (nm, v, tmax, tmin), rp)
                    elif v < 0.0 or v > 1.0:
                        F.add(sg, "heat and cold pollination coefficients are finite and lie in [0,1]", max(-v, v - 1.0),
                              lambda v=v, nm=nm, tmax=tmax, tmin=tmin: "%s=%r at temp_max=%g temp_min=%g" % (nm, v, tmax, tmin), rp)
                if math.isfinite(h):
                    H[i][j] = h
                if math.isfinite(cc):
                    C[i][j] = cc
                if 0.0 < h < 1.0 or 0.0 < cc < 1.0:
                    nt += 1
                    if sample is None and 0.0 < cc < 1.0:
                        sample = dict(function="temperature_stress", crop=name, temp_max=tmax, temp_min=tmin, Kst_PolH=h, Kst_PolC=cc)
        for j in range(N):
            for i in range(1, N):
                a, b = H[i - 1][j], H[i][j]
                if a is not None and b is not None and b > a + TOL_MONO:
                    F.add(sig_hm, "heat pollination coefficient does not increase as the maximum temperature rises", b - a,
                          lambda a=a, b=b, i=i, j=j: "Kst_PolH rises from %r at temp_max=%g to %r at temp_max=%g (temp_min=%g)" % (a, grid[i - 1], b, grid[i], grid[j]),
                          lambda i=i, j=j: ("from aquacrop import Crop; from aquacrop.solution.temperature_stress import temperature_stress; c=Crop(%r,planting_date=%r); "
                                            "print(temperature_stress(c,%r,%r), temperature_stress(c,%r,%r))" % (name, pdate, grid[i - 1], grid[j], grid[i], grid[j])))
        for i in range(N):
            for j in range(1, N):
                a, b = C[i][j - 1], C[i][j]
                if a is not None and b is not None and b < a - TOL_MONO:
                    F.add(sig_cm, "cold pollination coefficient does not decrease as the minimum temperature rises", a - b,
                          lambda a=a, b=b, i=i, j=j: "Kst_PolC falls from %r at temp_min=%g to %r at temp_min=%g (temp_max=%g)" % (a, grid[j - 1], b, grid[j], grid[i]),
                          lambda i=i, j=j: ("from aquacrop import Crop; from aquacrop.solution.temperature_stress import temperature_stress; c=Crop(%r,planting_date=%r); "
                                            "print(temperature_stress(c,%r,%r), temperature_stress(c,%r,%r))" % (name, pdate, grid[i], grid[j - 1], grid[i], grid[j])))
        return dict(kind="ts", crop=name, n=n, nt=nt, fails=F.export(), sample=sample, grid=N, exc=None)
    except Exception as e:
        return dict(kind="ts", crop=name, n=n, nt=nt, fails=F.export(), sample=sample, grid=0, exc="temperature_stress harness %s: %s: %s" % (name, type(e).__name__, e))


# ----------------------------------------------------------------------------------------------------------------- clause 3
def task_gdd(arg):
    name, temps = arg
    import numpy as np
    np.seterr(all="ignore")
    F = Fails(); n = 0; nt = 0; sample = None
    try:
        from aquacrop.solution.growing_degree_day import growing_degree_day
        c, pdate = mkcrop(name)
        Tb, Tu = c.Tbase, c.Tupp
        extra = [float(Tb) - 0.01, float(Tb), float(Tb) + 0.01, float(Tu) - 0.01, float(Tu), float(Tu) + 0.01, 2 * float(Tu) - float(Tb), (float(Tb) + float(Tu)) / 2]
        grid = uniq_sorted(list(temps) + extra, -30.0, 60.0)
        N = len(grid)
        ub = Tu - Tb
        for method in (1, 2, 3):
            sig_r = "growing_degree_day|gdd_in_[0,Tupp-Tbase]|method%d|%s" % (method, name)
            sig_mx = "growing_degree_day|nondecreasing_in_temp_max|method%d|%s" % (method, name)
            sig_mn = "growing_degree_day|nondecreasing_in_temp_min|method%d|%s" % (method, name)
            G = [[None] * N for _ in range(N)]
            for i, tmax in enumerate(grid):
                for j in range(i + 1):
                    tmin = grid[j]
                    n += 1

                    def rp(tmax=tmax, tmin=tmin, method=method):
                        return "from aquacrop.solution.growing_degree_day import growing_degree_day; print(growing_degree_day(%r,%r,%r,%r,%r))" % (method, Tu, Tb, tmax, tmin)
                    try:
                        g = fnum(growing_degree_day(method, Tu, Tb, tmax, tmin))
                    except Exception as e:
                        F.add(sig_r + "|raises-" + type(e).__name__, "daily growing degree days are finite and lie in [0, Tupp - Tbase]", float("inf"),
                              lambda e=e, tmax=tmax, tmin=tmin: "Tupp=%g Tbase=%g temp_max=%g temp_min=%g: %s: %s" % (Tu, Tb, tmax, tmin, type(e).__name__, e), rp)
                        continue
                    if not math.isfinite(g):
                        F.add(sig_r + "|nan", "daily growing degree days are finite and lie in [0, Tupp - Tbase]", float("inf"),
                              lambda g=g, tmax=tmax, tmin=tmin: "gdd=%r at Tupp=%g Tbase=%g temp_max=%g temp_min=%g" % (g, Tu, Tb, tmax, tmin), rp)
                        continue
                    if g < 0.0 or g > ub:
                        F.add(sig_r, "daily growing degree days are finite and lie in [0, Tupp - Tbase]", max(-g, g - ub),
                              lambda g=g, tmax=tmax, tmin=tmin: "gdd=%r outside [0, %g] at Tupp=%g Tbase=%g temp_max=%g temp_min=%g" % (g, ub, Tu, Tb, tmax, tmin), rp)
                    G[i][j] = g
                    if 0.0 < g < ub:
                        nt += 1
                        if sample is None and method == 3 and tmin < Tb:
                            sample = dict(function="growing_degree_day", crop=name, method=method, Tupp=Tu, Tbase=Tb, temp_max=tmax, temp_min=tmin, gdd=g)
            for j in range(N):
                for i in range(max(j, 0) + 1, N):
                    a, b = G[i - 1][j], G[i][j]
                    if a is not None and b is not None and b < a - TOL_MONO:
                        F.add(sig_mx, "growing degree days do not decrease when the maximum temperature rises", a - b,
                              lambda a=a, b=b, i=i, j=j: "gdd falls from %r at temp_max=%g to %r at temp_max=%g (temp_min=%g, Tupp=%g, Tbase=%g)" % (a, grid[i - 1], b, grid[i], grid[j], Tu, Tb),
                              lambda i=i, j=j, method=method: ("from aquacrop.solution.growing_degree_day import growing_degree_day as g; print(g(%r,%r,%r,%r,%r), g(%r,%r,%r,%r,%r))"
                                                               % (method, Tu, Tb, grid[i - 1], grid[j], method, Tu, Tb, grid[i], grid[j])))
            for i in range(N):
                for j in range(1, i + 1):
                    a, b = G[i][j - 1], G[i][j]
                    if a is not None and b is not None and b < a - TOL_MONO:
                        F.add(sig_mn, "growing degree days do not decrease when the minimum temperature rises", a - b,
                              lambda a=a, b=b, i=i, j=j: "gdd falls from %r at temp_min=%g to %r at temp_min=%g (temp_max=%g, Tupp=%g, Tbase=%g)" % (a, grid[j - 1], b, grid[j], grid[i], Tu, Tb),
                              lambda i=i, j=j, method=method: ("from aquacrop.solution.growing_degree_day import growing_degree_day as g; print(g(%r,%r,%r,%r,%r), g(%r,%r,%r,%r,%r))"
                                                               % (method, Tu, Tb, grid[i], grid[j - 1], method, Tu, Tb, grid[i], grid[j])))
        return dict(kind="gdd", crop=name, n=n, nt=nt, fails=F.export(), sample=sample, grid=N, exc=None)
    except Exception as e:
        return dict(kind="gdd", crop=name, n=n, nt=nt, fails=F.export(), sample=sample, grid=0, exc="growing_degree_day harness %s: %s: %s" % (name, type(e).__name__, e))


# ----------------------------------------------------------------------------------------------------------------- clause 4
def task_canopy(arg):
    name, days, dds, fracs = arg
    import numpy as np
    np.seterr(all="ignore")
    F = Fails(); n = 0; nt = 0; sample = None; sets = 0
    try:
        from aquacrop.solution.cc_development import cc_development
        from aquacrop.solution.cc_required_time import cc_required_time
        c, pdate = mkcrop(name)
        CC0, CCx = float(c.CC0), float(c.CCx)
        psets = []
        cgc_cd = getattr(c, "CGC_CD", None); cdc_cd = getattr(c, "CDC_CD", None)
        if cgc_cd is not None and cdc_cd is not None and cgc_cd > 0 and cdc_cd > 0:
            psets.append(("calendar-days", float(cgc_cd), float(cdc_cd), days))
        elif c.CGC > 0 and c.CDC > 0:
            psets.append(("calendar-days(CGC/CDC)", float(c.CGC), float(c.CDC), days))
        if getattr(c, "CalendarType", 1) == 2 and c.CGC > 0 and c.CDC > 0:
            psets.append(("degree-days", float(c.CGC), float(c.CDC), dds))
        for unit, CGC, CDC, times in psets:
            sets += 1
            for mode, sgn in (("Growth", 1.0), ("Decline", -1.0)):
                sig_r = "cc_development|%s_in_[0,CCx]|%s" % (mode.lower(), name)
                sig_m = "cc_development|%s|%s" % ("growth_nondecreasing_in_time" if mode == "Growth" else "decline_nonincreasing_in_time", name)
                prev = None
                for t in times:
                    n += 1

                    def rp(t=t, mode=mode, CGC=CGC, CDC=CDC):
                        return "from aquacrop.solution.cc_development import cc_development; print(cc_development(%r,%r,%r,%r,%r,%r,%r))" % (CC0, CCx, CGC, CDC, t, mode, CCx)
                    try:
                        v = fnum(cc_development(CC0, CCx, CGC, CDC, t, mode, CCx))
                    except Exception as e:
                        F.add(sig_r + "|raises-" + type(e).__name__, "canopy %s curve is finite and lies in [0, CCx]" % mode.lower(), float("inf"),
                              lambda e=e, t=t, unit=unit: "t=%g %s: %s: %s" % (t, unit, type(e).__name__, e), rp)
                        prev = None
                        continue
                    if not math.isfinite(v):
                        F.add(sig_r + "|nan", "canopy %s curve is finite and lies in [0, CCx]" % mode.lower(), float("inf"),
                              lambda v=v, t=t, unit=unit: "cover=%r at t=%g %s" % (v, t, unit), rp)
                        prev = None
                        continue
                    if v < 0.0 or v > CCx:
                        F.add(sig_r, "canopy %s curve is finite and lies in [0, CCx]" % mode.lower(), max(-v, v - CCx),
                              lambda v=v, t=t, unit=unit: "cover=%r outside [0, CCx=%g] at t=%g %s" % (v, CCx, t, unit), rp)
                    if prev is not None and sgn * (v - prev[1]) < -TOL_MONO:
                        F.add(sig_m, "canopy growth curve is non-decreasing in time / decline curve non-increasing", abs(v - prev[1]),
                              lambda v=v, t=t, p=prev, unit=unit, mode=mode: "%s: cover goes from %r at t=%g to %r at t=%g %s" % (mode, p[1], p[0], v, t, unit),
                              lambda t=t, p=prev, mode=mode, CGC=CGC, CDC=CDC: ("from aquacrop.solution.cc_development import cc_development as f; print(f(%r,%r,%r,%r,%r,%r,%r), f(%r,%r,%r,%r,%r,%r,%r))"
                                                                                % (CC0, CCx, CGC, CDC, p[0], mode, CCx, CC0, CCx, CGC, CDC, t, mode, CCx)))
                    prev = (t, v)
                    if 0.0 < v < CCx:
                        nt += 1
            # inverse: cover strictly between CC0 and CCx (both branches of cc_required_time: cover <= CCx/2 and cover > CCx/2)
            sig_i = "cc_required_time|inverts_growth_curve|%s" % name
            covers = sorted({CC0 + (CCx - CC0) * f for f in fracs} | {CCx / 2, CCx / 2 - 1e-9, CCx / 2 + 1e-9})
            covers = [x for x in covers if CC0 < x < CCx]
            for cv in covers:
                n += 1

                def rp(cv=cv, CGC=CGC, CDC=CDC):
                    return ("from aquacrop.solution.cc_development import cc_development; from aquacrop.solution.cc_required_time import cc_required_time; "
                            "t=cc_required_time(%r,%r,%r,%r,%r,'CGC'); print(t, cc_development(%r,%r,%r,%r,t,'Growth',%r))" % (cv, CC0, CCx, CGC, CDC, CC0, CCx, CGC, CDC, CCx))
                try:
                    t = fnum(cc_required_time(cv, CC0, CCx, CGC, CDC, "CGC"))
                    back = fnum(cc_development(CC0, CCx, CGC, CDC, t, "Growth", CCx))
                except Exception as e:
                    F.add(sig_i + "|raises-" + type(e).__name__, "cc_development(cc_required_time(c)) == c", float("inf"),
                          lambda e=e, cv=cv, unit=unit: "cover=%r (%s): %s: %s" % (cv, unit, type(e).__name__, e), rp)
                    continue
                if not (math.isfinite(t) and math.isfinite(back)):
                    F.add(sig_i + "|nan", "cc_development(cc_required_time(c)) == c", float("inf"),
                          lambda cv=cv, t=t, back=back, unit=unit: "cover=%r: time=%r, cover reached=%r (%s)" % (cv, t, back, unit), rp)
                    continue
                nt += 1
                if abs(back - cv) > TOL_INV:
                    F.add(sig_i, "cc_development(cc_required_time(c)) == c", abs(back - cv),
                          lambda cv=cv, t=t, back=back, unit=unit: "cover=%r: time=%r %s, growth curve gives %r there (difference %.3g)" % (cv, t, unit, back, back - cv), rp)
                if t < -1e-9:
                    F.add(sig_i, "cc_development(cc_required_time(c)) == c", abs(t),
                          lambda cv=cv, t=t, unit=unit: "cover=%r above CC0=%r: negative time %r %s" % (cv, CC0, t, unit), rp)
                if sample is None and cv > CCx / 2:
                    sample = dict(function="cc_required_time/cc_development", crop=name, unit=unit, CC0=CC0, CCx=CCx, CGC=CGC, cover=cv, time=t, cover_at_time=back)
        exc = None if psets else "canopy harness %s: crop has no positive growth/decline rates" % name
        return dict(kind="cc", crop=name, n=n, nt=nt, fails=F.export(), sample=sample, grid=sets, exc=exc)
    except Exception as e:
        return dict(kind="cc", crop=name, n=n, nt=nt, fails=F.export(), sample=sample, grid=sets, exc="canopy harness %s: %s: %s" % (name, type(e).__name__, e))


# ----------------------------------------------------------------------------------------------------------------- clause 5
_WX = {}


def _weather(fn):
    if fn not in _WX:
        from aquacrop.utils import prepare_weather, get_filepath
        _WX[fn] = prepare_weather(get_filepath(fn))
    return _WX[fn]


def _documented_rejection(e):
    return isinstance(e, AssertionError) and ("not enough growing degree days" in str(e) or "longer than 1 year" in str(e))


def _in_co2_code(e):
    try:
        frames = traceback.extract_tb(e.__traceback__)
        return any(os.path.basename(f.filename) in ("compute_variables.py", "reset_initial_conditions.py") for f in frames[-2:])
    except Exception:
        return False


def _init_model(name, cfg, conc):
    """-> (model, stage, exception); stage 'construct' or 'initialize' when something was raised"""
    from aquacrop import AquaCropModel, Soil, Crop, InitialWaterContent, CO2
    pdate, start, end, wxfile = cfg
    try:
        m = AquaCropModel(start, end, _weather(wxfile).copy(), Soil("SandyLoam"), Crop(name, planting_date=pdate), InitialWaterContent(value=["FC"]),
                          co2_concentration=CO2(constant_conc=True, current_concentration=conc))
    except Exception as e:
        return None, "construct", e
    try:
        m._initialize()
    except Exception as e:
        return None, "initialize", e
    return m, None, None


def _second_season_fco2(m):
    """reset_initial_conditions called the way update_time calls it at the end of season 0 (off-season not simulated):
    season counter incremented, time-step counter and step times moved to the next planting date"""
    from aquacrop.timestep.reset_initial_conditions import reset_initial_conditions
    clock = copy.deepcopy(m._clock_struct); param = copy.deepcopy(m._param_struct); ic = copy.deepcopy(m._init_cond)
    if clock.n_seasons < 2:
        raise RuntimeError("window has %d season(s)" % clock.n_seasons)
    clock.season_counter = clock.season_counter + 1
    clock.time_step_counter = clock.time_span.get_loc(clock.planting_dates[clock.season_counter])
    clock.step_start_time = clock.time_span[clock.time_step_counter]
    clock.step_end_time = clock.time_span[clock.time_step_counter + 1]
    wx = m._weather.copy()
    kw = {}
    for pn in inspect.signature(reset_initial_conditions).parameters:
        l = pn.lower().replace("_", "")
        if "clock" in l:
            kw[pn] = clock
        elif "initcond" in l or l == "newcond":
            kw[pn] = ic
        elif "param" in l:
            kw[pn] = param
        elif "weather" in l:
            kw[pn] = wx
        elif "crop" in l:
            kw[pn] = copy.deepcopy(m.crop)
    ret = reset_initial_conditions(**kw)
    for r in (ret if isinstance(ret, tuple) else (ret,)):
        if hasattr(r, "Seasonal_Crop_List"):
            param = r
    return param.Seasonal_Crop_List[clock.season_counter].fCO2, param.CO2.current_concentration


def task_co2(arg):
    name, concs = arg
    import numpy as np
    np.seterr(all="ignore")
    out = dict(kind="co2", crop=name, rows=[], skipped=None, cfg=None, exc=None)
    try:
        cfg = None; reasons = []
        for cand in CO2_CONFIGS:
            m, stage, e = _init_model(name, cand, CO2_REF)
            if m is not None:
                cfg = cand
                break
            if stage == "initialize" and not _documented_rejection(e) and _in_co2_code(e):
                cfg = cand          # the CO2 code itself raises at the reference concentration: evaluated (and reported) below
                break
            reasons.append("planting %s window %s..%s (%s): %s %s: %s" % (cand[0], cand[1], cand[2], cand[3].split("_")[0], stage, type(e).__name__, str(e)[:120]))
        if cfg is None:
            out["skipped"] = "; ".join(reasons)
            return out
        out["cfg"] = list(cfg)
        for conc in concs:
            row = dict(conc=conc, a=None, b=None, a_exc=None, b_exc=None, used=None)
            m, stage, e = _init_model(name, cfg, conc)
            if m is None:
                row["a_exc"] = "%s|%s: %s" % (type(e).__name__, stage, str(e)[:160])
                row["b_exc"] = "no-init"
                out["rows"].append(row)
                continue
            try:
                row["a"] = float(m._param_struct.Seasonal_Crop_List[0].fCO2)
                row["used"] = float(m._param_struct.CO2.current_concentration)
            except Exception as e:
                row["a_exc"] = "%s|read: %s" % (type(e).__name__, str(e)[:160])
            try:
                v, used_b = _second_season_fco2(m)
                row["b"] = float(v)
                row["used_b"] = float(used_b)
            except Exception as e:
                row["b_exc"] = "%s|reset: %s" % (type(e).__name__, str(e)[:160])
                row["b_doc"] = _documented_rejection(e)
            out["rows"].append(row)
        return out
    except Exception as e:
        out["exc"] = "CO2 harness %s: %s: %s" % (name, type(e).__name__, e)
        return out


def check_co2(crop, cfg, rows, F, exc):
    """rows: all concentrations of one crop (increasing). Returns (cases, nontrivial, sample)"""
    n = 0; nt = 0; sample = None
    rows = sorted(rows, key=lambda r: r["conc"])
    for path, key, ekey in (("init", "a", "a_exc"), ("reset", "b", "b_exc")):
        prev = None

        def rp(conc, path=path):
            base = ("from aquacrop import *; from aquacrop.utils import prepare_weather, get_filepath; import copy; "
                    "m=AquaCropModel(%r,%r,prepare_weather(get_filepath(%r)),Soil('SandyLoam'),Crop(%r,planting_date=%r),InitialWaterContent(value=['FC']),"
                    "co2_concentration=CO2(constant_conc=True,current_concentration=%r)); m._initialize(); " % (cfg[1], cfg[2], cfg[3], crop, cfg[0], conc))
            if path == "init":
                return base + "print(m._param_struct.Seasonal_Crop_List[0].fCO2)"
            return base + ("from aquacrop.timestep.reset_initial_conditions import reset_initial_conditions as r; k=m._clock_struct; k.season_counter+=1; "
                           "k.time_step_counter=k.time_span.get_loc(k.planting_dates[1]); k.step_start_time=k.time_span[k.time_step_counter]; k.step_end_time=k.time_span[k.time_step_counter+1]; "
                           "r(k,m._init_cond,m._param_struct,m._weather,m.crop); print(m._param_struct.Seasonal_Crop_List[1].fCO2)")
        for r in rows:
            conc = r["conc"]
            if r.get(ekey) == "no-init":
                continue
            n += 1
            if r.get(ekey):
                if path == "reset" and r.get("b_doc"):
                    exc.append("skipped for CO2 clause (second season only): %s at %g ppm: %s" % (crop, conc, r[ekey]))
                    continue
                en = r[ekey].split("|")[0]
                F.add("co2_factor|finite|%s|%s|raises-%s" % (path, crop, en), "CO2 productivity factor is finite", float("inf"),
                      lambda r=r, conc=conc: "%g ppm: %s" % (conc, r[ekey]), lambda conc=conc: rp(conc))
                prev = None
                continue
            v = r[key]
            if v is None or not math.isfinite(v):
                F.add("co2_factor|finite|%s|%s|nan" % (path, crop), "CO2 productivity factor is finite", float("inf"),
                      lambda v=v, conc=conc: "fCO2=%r at %g ppm" % (v, conc), lambda conc=conc: rp(conc))
                prev = None
                continue
            if conc == CO2_REF and abs(v - 1.0) > TOL_CO2_REF:
                F.add("co2_factor|equals_1_at_reference|%s|%s" % (path, crop), "CO2 productivity factor is 1 at the reference concentration", abs(v - 1.0),
                      lambda v=v, conc=conc: "fCO2=%r at the reference concentration %r ppm" % (v, conc), lambda conc=conc: rp(conc))
            if prev is not None and v < prev[1] - TOL_CO2_MONO:
                F.add("co2_factor|nondecreasing|%s|%s" % (path, crop), "CO2 productivity factor is non-decreasing in concentration", prev[1] - v,
                      lambda v=v, conc=conc, p=prev: "fCO2 falls from %r at %r ppm to %r at %r ppm" % (p[1], p[0], v, conc), lambda conc=conc: rp(conc))
            prev = (conc, v)
            if v != 1.0:
                nt += 1
            if sample is None and path == "reset" and conc > 700 and v != 1.0:
                sample = dict(function="fCO2", crop=crop, ppm=conc, at_initialisation=r["a"], second_season=r["b"], planting=cfg[0], weather=cfg[3])
    # the concentration the code says it used must be the one requested (otherwise the lattice is not the one described)
    for r in rows:
        for k in ("used", "used_b"):
            if r.get(k) is not None and r[k] != r["conc"]:
                exc.append("CO2 clause %s: requested %r ppm but the model used %r (%s)" % (crop, r["conc"], r[k], k))
                break
    return n, nt, sample


# ----------------------------------------------------------------------------------------------------------------- main
def run_task(t):
    fn, arg = t
    return globals()[fn](arg)


def main():
    ap = argparse.ArgumentParser(); ap.add_argument("--tier", default="quick"); ap.add_argument("--seed", type=int, default=0); ap.add_argument("--out", required=True)
    a = ap.parse_args(); t0 = time.time(); rng = random.Random(a.seed)
    quick = a.tier != "thorough"
    exc = []; fails = {}; samples = []
    out = dict(property="C17", tier=a.tier, seed=a.seed, lattice="", cases=0, distinct_nontrivial=0,
               rule=("a lattice point is non-trivial when the function under test is on a non-saturated branch there: some water-stress / pollination coefficient strictly inside (0,1); "
                     "0 < gdd < Tupp-Tbase; 0 < canopy cover < CCx; every inverse (cc_required_time) point with a finite answer; fCO2 != 1"),
               failures=[], samples=[], wall_s=0.0, exceptions=exc)
    try:
        try:
            from aquacrop.entities.crop import crop_params
        except Exception:
            from aquacrop.entities.crop_params import crop_params
        crops = sorted(crop_params.keys())
        if len(crops) != 37:
            exc.append("catalogue has %d crops, 37 expected" % len(crops))
        j = lambda s: rng.uniform(0.0, 1.0) * s          # seeded shift inside one grid step

        # ---- grids (special values are always kept; the regular part is shifted by the seed)
        et0_special = [0.1, 0.11, 4.99, 5.0, 5.01, 17.4, 17.5, 17.6, 19.99, 20.0] + ([] if quick else [0.1001, 17.49, 17.51, 19.9999])
        et0_reg = lin(0.1, 20.0, 6 if quick else 27, rng.uniform(0.05, 0.95))
        et0s = uniq_sorted(et0_special + et0_reg, 0.1, 20.0)
        taws = [12.5, 187.3] if quick else [0.9, 12.5, 87.0, 187.3, 412.6]
        taws = [round(t * (1 + 0.01 * rng.uniform(-1, 1)), 6) for t in taws]
        pct_step = 4.0 if quick else 1.0
        pcts = uniq_sorted([-20.0, -0.01, 0.0, 0.01, 99.99, 100.0, 100.01, 120.0] + [-20.0 + j(pct_step) + k * pct_step for k in range(int(140 / pct_step) + 1)], -20.0, 120.0)
        ts_step = 2.5 if quick else 0.6
        ts_temps = uniq_sorted([-30.0, 60.0] + [-30.0 + j(ts_step) + k * ts_step for k in range(int(90 / ts_step) + 1)], -30.0, 60.0)
        gd_step = 3.0 if quick else 0.75
        gd_temps = uniq_sorted([-30.0, 0.0, 60.0] + [-30.0 + j(gd_step) + k * gd_step for k in range(int(90 / gd_step) + 1)], -30.0, 60.0)
        d_step = 1.0 if quick else 0.1
        days = uniq_sorted([0.0, 250.0] + [j(d_step) + k * d_step for k in range(int(250 / d_step) + 1)], 0.0, 250.0)
        dd_step = 10.0 if quick else 1.0
        dds = uniq_sorted([0.0, 3000.0] + [j(dd_step) + k * dd_step for k in range(int(3000 / dd_step) + 1)], 0.0, 3000.0)
        nfr = 40 if quick else 400
        fracs = sorted({1e-9, 1e-6, 1e-3, 1 - 1e-3, 1 - 1e-6, 1 - 1e-9} | {(k + rng.uniform(0.1, 0.9)) / nfr for k in range(nfr)})
        co2_special = [250.0, CO2_REF - 0.01, CO2_REF, CO2_REF + 0.01, 549.99, 550.0, 550.01, 1999.99, 2000.0, 2000.01, 2500.0]
        nco2 = 14 if quick else 64
        # denser below 700 ppm, where both formulas are in play
        co2_reg = [250.0 + (k + rng.uniform(0.1, 0.9)) * (450.0 / (nco2 // 2)) for k in range(nco2 // 2)] + \
                  [700.0 + (k + rng.uniform(0.1, 0.9)) * (1800.0 / (nco2 - nco2 // 2)) for k in range(nco2 - nco2 // 2)]
        concs = uniq_sorted(co2_special + [round(x, 3) for x in co2_reg], 250.0, 2500.0)
        if CO2_REF not in concs:
            concs = sorted(concs + [CO2_REF])
        nchunk = 3 if quick else 8
        chunks = [concs[k::nchunk] for k in range(nchunk)]

        tasks = []
        for c in crops:
            for ch in chunks:
                tasks.append(("task_co2", (c, ch)))
        for c in crops:
            tasks.append(("task_water_stress", (c, et0s, taws, pcts)))
        for c in crops:
            tasks.append(("task_temperature_stress", (c, ts_temps)))
            tasks.append(("task_gdd", (c, gd_temps)))
            tasks.append(("task_canopy", (c, days, dds, fracs)))
        with Pool(16) as pool:
            res = pool.map(run_task, tasks, chunksize=1)

        cases = {"ws": 0, "ts": 0, "gdd": 0, "cc": 0, "co2": 0}; nontriv = 0
        gridn = {"ws": set(), "ts": set(), "gdd": set(), "cc": 0}
        co2rows = {}; co2cfg = {}; co2skip = {}
        for r in res:
            if r.get("exc"):
                exc.append(r["exc"])
            if r["kind"] == "co2":
                if r["skipped"]:
                    co2skip[r["crop"]] = r["skipped"]
                else:
                    co2rows.setdefault(r["crop"], []).extend(r["rows"]); co2cfg[r["crop"]] = r["cfg"]
                continue
            cases[r["kind"]] += r["n"]; nontriv += r["nt"]
            merge_fails(fails, r["fails"])
            if r["kind"] == "cc":
                gridn["cc"] += r["grid"]
            else:
                gridn[r["kind"]].add(r["grid"])
            if r.get("sample") and sum(1 for s in samples if s["function"] == r["sample"]["function"]) < 1:
                samples.append(r["sample"])
        F5 = Fails()
        for c in crops:
            if c in co2skip:
                exc.append("skipped for CO2 clause: %s: %s" % (c, co2skip[c]))
                continue
            if c not in co2rows or co2cfg.get(c) is None:
                continue
            n5, nt5, smp = check_co2(c, co2cfg[c], co2rows[c], F5, exc)
            cases["co2"] += n5; nontriv += nt5
            if smp and sum(1 for s in samples if s["function"] == "fCO2") < 2:
                samples.append(smp)
        merge_fails(fails, F5.export())
        alt = sorted("%s: %s %s" % (c, co2cfg[c][0], co2cfg[c][3].split("_")[0]) for c in co2cfg if co2cfg[c] and co2cfg[c][0] != CO2_CONFIGS[0][0])

        flist = []
        for sig in sorted(fails):
            e = fails[sig]
            det = "%d failing lattice point(s); first: %s" % (e["count"], e["first"])
            if e.get("worst") and e["worst"] != e["first"]:
                det += "; worst: %s" % e["worst"]
            flist.append(dict(signature=sig, clause=e["clause"], detail=det, repro=e["repro"]))
        out["failures"] = flist
        out["cases"] = int(sum(cases.values()))
        out["distinct_nontrivial"] = int(nontriv)
        out["samples"] = samples[:8]
        fmt = lambda s: "/".join(str(x) for x in sorted(s)) if s else "0"
        out["lattice"] = (
            "ENUMERATED, not proved. %d catalogue crops (own parameter values). "
            "(1) water_stress: %d ET0 values in [0.1,20] (incl. 0.1, 5, 17.5, 20 and neighbours) x 5 senescence-adjustment settings (beta flag True/False x Crop_beta 0/own with early senescence running, "
            "plus flag True without early senescence) x %d TAW values %s mm x %s depletion values from -20 to 120 %% of TAW (regular step %g %% plus 0, 100 and each crop's own thresholds +-0.01 %%): %d calls, 5 coefficients each; "
            "(2) temperature_stress: %s x %s (temp_max x temp_min) values in [-30,60] C (step %g plus each crop's thresholds +-0.01): %d calls; "
            "(3) growing_degree_day: methods 1,2,3 x every pair temp_min <= temp_max of %s values in [-30,60] C (step %g plus Tbase, Tupp +-0.01, midpoint): %d calls; "
            "(4) cc_development Growth and Decline (CCx0 = CCx) over %d calendar-day times 0..250 with CGC_CD/CDC_CD and, for thermal-time crops, %d degree-day times 0..3000 with CGC/CDC (%d crop/unit sets), "
            "cc_required_time(mode 'CGC') on %d covers strictly between CC0 and CCx per set (both of its branches, cover <= CCx/2 and > CCx/2, so no restriction of the range was needed): %d calls; "
            "(5) fCO2 for %d concentrations in [250,2500] ppm (incl. 369.41 exactly, +-0.01, 549.99/550/550.01, 1999.99/2000/2000.01) x %d crops, each by a full AquaCropModel._initialize() (season 0, compute_variables) and by "
            "reset_initial_conditions called on deep copies the way update_time calls it for season 1 (constant_conc=True): %d values; %d crop(s) skipped (see exceptions), %d initialised with a fallback planting date / weather instead of 05/01 Champion%s. "
            "Tolerances: monotonicity 1e-12 (CO2 1e-9), range exact, fCO2(ref)=1 within 1e-12, inverse 1e-6."
            % (len(crops), len(et0s), len(taws), taws, fmt(gridn["ws"]), pct_step, cases["ws"],
               fmt(gridn["ts"]), fmt(gridn["ts"]), ts_step, cases["ts"],
               fmt(gridn["gdd"]), gd_step, cases["gdd"],
               len(days), len(dds), gridn["cc"], len(fracs) + 3, cases["cc"],
               len(concs), len(co2cfg), cases["co2"], len(co2skip), len(alt), (" (%s)" % ", ".join(alt)) if alt else ""))
    except Exception as e:
        exc.append("harness: %s: %s | %s" % (type(e).__name__, e, traceback.format_exc().splitlines()[-3:]))
    out["wall_s"] = round(time.time() - t0, 1)
    out["exceptions"] = exc[:60]
    try:
        json.dump(out, open(a.out, "w"), indent=1, default=str)
    except Exception as e:
        json.dump(dict(property="C17", tier=a.tier, seed=a.seed, lattice="", cases=0, distinct_nontrivial=0, rule="", failures=[], samples=[], wall_s=round(time.time() - t0, 1),
                       exceptions=["could not serialise the result: %s" % e]), open(a.out, "w"), indent=1)
    sys.exit(0)


if __name__ == "__main__":
    main()
