#!/venv/bin/python
"""E3 bounded check for property C18 (soil profile and initial water content are built as
specified).

BOUNDED, NOT PROVED.  A real AquaCropModel is initialised (model._initialize(), no time step)
for every point of an explicitly enumerated lattice of soils x compartment lists x crops
(rooting depths) x initial-water-content specifications, and the arrays of
model._param_struct.Soil.Profile and model._init_cond.th / th_fc_Adj are compared with

  * the clauses `wf_profile` that the deductive proofs assume as preconditions,
  * an independent oracle for layer assignment / layer properties / deepening,
  * an independent oracle for the initial water content (own interpolation code, not np.interp).

Oracles (documented semantics, see InitialWaterContent docstring and
read_model_initial_conditions.py):
  Layer method : th[j] = value requested for Layer[j];  Prop -> th_wp / th_fc / th_s of that
                 layer, Pct -> th_wp + pct/100*(th_fc-th_wp), Num -> the number.
  Depth method : every point (depth_i, v_i) is first converted to a water content with the
                 properties of the layer found at depth_i (the first compartment whose bottom is
                 deeper than depth_i; the last layer if depth_i is at/below the profile bottom);
                 th[j] = piecewise-linear interpolation of these points at the compartment
                 mid-depth dzsum[j]-dz[j]/2 of the (deepened) profile, constant above the first
                 and below the last point.
  Layer assignment: a compartment that lies entirely inside the nominal depth range of layer k
                 (cumulative specified thicknesses, original compartment list rounded to 0.01 m)
                 must carry layer k; a compartment straddling a nominal boundary may carry either
                 neighbour; compartments below the last specified layer carry the last layer.

Usage: c18_soil.py --tier quick|thorough --seed N --out path.json
"""
import argparse
import datetime as dt
import json
import os
import random
import signal
import sys
import time
import traceback
import warnings

warnings.filterwarnings("ignore")
os.environ.setdefault("DEVELOPMENT", "True")

import numpy as np  # noqa: E402
import pandas as pd  # noqa: E402

PROP = "C18"
NPROC = 16
TOL = 1e-9

# documented FAO default soils: name -> list of (thickness or None=whole profile, th_wp, th_fc, th_s, Ksat, penetrability)
BUILTIN = {
    "Clay": [(None, 0.39, 0.54, 0.55, 35, 100)],
    "ClayLoam": [(None, 0.23, 0.39, 0.5, 125, 100)],
    "Default": [(None, 0.1, 0.3, 0.5, 500, 100)],
    "Loam": [(None, 0.15, 0.31, 0.46, 500, 100)],
    "LoamySand": [(None, 0.08, 0.16, 0.38, 2200, 100)],
    "Sand": [(None, 0.06, 0.13, 0.36, 3000, 100)],
    "SandyClay": [(None, 0.27, 0.39, 0.5, 35, 100)],
    "SandyClayLoam": [(None, 0.20, 0.32, 0.47, 225, 100)],
    "SandyLoam": [(None, 0.10, 0.22, 0.41, 1200, 100)],
    "Silt": [(None, 0.09, 0.33, 0.43, 500, 100)],
    "SiltClayLoam": [(None, 0.23, 0.44, 0.52, 150, 100)],
    "SiltLoam": [(None, 0.13, 0.33, 0.46, 575, 100)],
    "SiltClay": [(None, 0.32, 0.50, 0.54, 100, 100)],
    "Paddy": [(0.5, 0.32, 0.50, 0.54, 15, 100), (1.5, 0.39, 0.54, 0.55, 2, 100)],
    "ac_TunisLocal": [(0.3, 0.24, 0.40, 0.50, 155, 100), (1.7, 0.11, 0.33, 0.46, 500, 100)],
}
TUNIS_DZ = [0.1] * 6 + [0.15] * 5 + [0.2]

VALUE_SOILS = {
    "V1": [(5.0, 0.10, 0.22, 0.41, 1200, 100)],
    "V2": [(0.4, 0.12, 0.25, 0.42, 800, 100), (5.0, 0.20, 0.34, 0.46, 150, 90)],
    "V3": [(0.3, 0.08, 0.18, 0.40, 1500, 100), (0.5, 0.18, 0.32, 0.45, 300, 80), (5.0, 0.30, 0.45, 0.52, 40, 60)],
    "VD": [(0.35, 0.10, 0.22, 0.41, 1200, 100), (0.35, 0.18, 0.32, 0.45, 300, 100), (5.0, 0.30, 0.45, 0.52, 40, 100)],
    "VS": [(0.3, 0.10, 0.22, 0.41, 1200, 100), (0.3, 0.20, 0.34, 0.46, 150, 100)],
    "VE": [(5.0, 0.30, 0.50, 0.50, 20, 100)],
    # layer bottoms whose float sums fall just below the compartment bottoms (0.7 + 0.1 < 0.8, 0.1 + 0.2 > 0.3 in binary floating point)
    "VF": [(0.7, 0.10, 0.20, 0.40, 500, 100), (0.1, 0.15, 0.30, 0.45, 100, 100), (5.0, 0.20, 0.35, 0.50, 50, 100)],
    "VG": [(0.1, 0.10, 0.20, 0.40, 500, 100), (0.2, 0.15, 0.30, 0.45, 100, 100), (5.0, 0.20, 0.35, 0.50, 50, 100)],
}
TEXTURE_SOILS = {
    "T1": [(5.0, 40, 20, 2.5, 100)],
    "T2": [(0.5, 65, 10, 1.5, 100), (5.0, 20, 45, 1.0, 100)],
    "T3": [(0.3, 80, 5, 3.0, 100), (0.4, 40, 20, 2.0, 100), (5.0, 10, 50, 1.0, 100)],
}
DZ_LISTS = {
    "d12x0.10": [0.1] * 12,
    "fine": [0.05] * 4 + [0.1] * 10,
    "tunis": [0.1] * 6 + [0.15] * 5 + [0.2],
    "d6x0.20": [0.2] * 6,
    "d20x0.10": [0.1] * 20,
    "d8x0.15": [0.15] * 8,
    "irregular": [0.05, 0.1, 0.15, 0.2, 0.25, 0.3, 0.35],
    "shallow5": [0.1] * 5,
    "d10x0.12": [0.12] * 10,
    "d10x0.125": [0.125] * 10,
    "mixed": [0.1, 0.2, 0.1, 0.2, 0.1, 0.2, 0.1, 0.2],
}
HANG_DZ = {"d3x0.10": [0.1] * 3, "d5x0.30": [0.3] * 5}
# one representative crop per distinct catalogue Zmax, plus explicit overrides
CROP_REPS = [("PaddyRice", None), ("Tef", None), ("Tomato", None), ("Barley", None), ("Wheat", None), ("DryBean", None),
             ("Sorghum", None), ("Cotton", None), ("Maize", None), ("AlfalfaGDD", None),
             ("Maize", 0.35), ("Maize", 1.15), ("Maize", 2.75)]
ALL_CROPS = ["Barley", "BarleyGDD", "Cotton", "CottonGDD", "Default", "DryBean", "DryBeanGDD", "Maize", "MaizeGDD",
             "PaddyRice", "PaddyRiceGDD", "Potato", "PotatoGDD", "PotatoLocalGDD", "Quinoa", "Sorghum", "SorghumGDD",
             "Soybean", "SoybeanGDD", "SugarBeet", "SugarBeetGDD", "SugarBeetGDD_UK", "SugarCane", "Sunflower",
             "SunflowerGDD", "Tomato", "TomatoGDD", "Wheat", "WheatGDD", "WheatGDD_1dec", "HydWheatGDD", "WheatLongGDD",
             "localpaddy", "MaizeChampionGDD", "Tef", "AlfalfaGDD", "Cassava"]
IWC_SPECS = (["L|Prop|WP", "L|Prop|FC", "L|Prop|SAT", "L|Prop|mix", "L|Pct|0", "L|Pct|100", "L|Pct|mix", "L|Num", "Lrev|Prop|mix", "Lrev|Pct|mix", "Lrev|Num"]
             + [f"D|{t}|{n}" for n in (1, 2, 3, 4) for t in ("Prop", "Pct", "Num")])
DEPTH_SETS = {1: [0.3], 2: [0.2, 0.8], 3: [0.0, 0.5, 1.0], 4: [0.1, 0.4, 0.9, 2.5]}
TEX_SAND = [0, 5, 20, 40, 60, 75, 90, 100]
TEX_CLAY = [0, 5, 15, 30, 45, 60]
TEX_OM = [0, 0.5, 2.5, 5, 8]

SIM_START, SIM_END, PLANT = "2000/05/01", "2001/04/29", "05/01"


def make_weather(seed):
    rng = np.random.default_rng(seed)
    d = pd.date_range("2000-01-01", "2002-12-31", freq="D")
    n = len(d)
    doy = d.dayofyear.values
    tm = 24 + 5 * np.sin(2 * np.pi * (doy - 110) / 365.25) + rng.normal(0, 2, n)
    return pd.DataFrame({"MinTemp": np.round(tm - 5, 2), "MaxTemp": np.round(tm + 6, 2),
                         "Precipitation": np.round(np.where(rng.random(n) < 0.3, rng.gamma(0.8, 8, n), 0.0), 2),
                         "ReferenceET": np.round(np.clip(4 + rng.normal(0, 0.5, n), 0.1, None), 2), "Date": d})


_W = {}


def weather(seed):
    if seed not in _W:
        _W[seed] = make_weather(seed)
    return _W[seed]


# ----------------------------------------------------------------------------- building a case
def layer_specs(kind, name):
    """returns list of (thickness|None, th_wp, th_fc, th_s, Ksat, pen) as SPECIFIED (for texture: via the pedotransfer)"""
    if kind == "builtin":
        return BUILTIN[name]
    if kind == "values":
        return VALUE_SOILS[name]
    raise ValueError(kind)


def build_soil(kind, name, dz, tex=None):
    from aquacrop import Soil
    src = []
    if kind == "builtin":
        if dz is None:
            soil = Soil(name)
            src.append(f"soil = Soil({name!r})")
        else:
            soil = Soil(name, dz=list(dz))
            src.append(f"soil = Soil({name!r}, dz={list(dz)!r})")
        return soil, src, None
    soil = Soil("custom", dz=list(dz))
    src.append(f"soil = Soil('custom', dz={list(dz)!r})")
    specs = []
    if kind == "values":
        for (th, wp, fc, s, k, pen) in VALUE_SOILS[name]:
            soil.add_layer(th, wp, fc, s, k, pen)
            src.append(f"soil.add_layer({th}, {wp}, {fc}, {s}, {k}, {pen})")
            specs.append((th, wp, fc, s, k, pen))
    else:
        layers = TEXTURE_SOILS[name] if tex is None else [tex]
        for (th, sa, cl, om, pen) in layers:
            soil.add_layer_from_texture(th, sa, cl, om, pen)
            src.append(f"soil.add_layer_from_texture({th}, {sa}, {cl}, {om}, {pen})")
            wp, fc, s, k = soil.calculate_soil_hydraulic_properties(sa / 100, cl / 100, om)
            specs.append((th, wp, fc, s, k, pen))
    return soil, src, specs


def iwc_args(spec, specs_by_layer, nlay):
    """concretise an abstract IWC spec for a soil; returns (wc_type, method, depth_layer, value) or None if not applicable"""
    p = spec.split("|")
    wps = [s[1] for s in specs_by_layer]
    fcs = [s[2] for s in specs_by_layer]
    sats = [s[3] for s in specs_by_layer]
    lo, hi = max(wps), min(sats)
    nums_ok = hi > lo
    cyc = ["WP", "FC", "SAT", "FC"]
    pcts = [20, 80, 50, 100]
    if p[0] in ("L", "Lrev"):
        L = list(range(1, nlay + 1))
        # Lrev: the same layer -> value assignment, the layers listed from the bottom up (the order of the list carries no meaning)
        rev = (lambda t: (t[0], t[1], list(reversed(t[2])), list(reversed(t[3])))) if p[0] == "Lrev" else (lambda t: t)
        if p[1] == "Prop":
            v = [p[2]] * nlay if p[2] != "mix" else [cyc[i % 4] for i in range(nlay)]
            return rev(("Prop", "Layer", L, v))
        if p[1] == "Pct":
            v = [int(p[2])] * nlay if p[2] != "mix" else [[35, 0, 100][i % 3] for i in range(nlay)]
            return rev(("Pct", "Layer", L, v))
        if not nums_ok:
            return None
        return rev(("Num", "Layer", L, [round(lo + (hi - lo) * f, 4) for f in [0.3, 0.7, 0.5][:nlay]]))
    n = int(p[2])
    D = DEPTH_SETS[n]
    if p[1] == "Prop":
        return ("Prop", "Depth", D, cyc[:n])
    if p[1] == "Pct":
        return ("Pct", "Depth", D, pcts[:n])
    if not nums_ok:
        return None
    return ("Num", "Depth", D, [round(lo + (hi - lo) * f, 4) for f in [0.2, 0.9, 0.4, 0.6][:n]])


# ----------------------------------------------------------------------------- oracles
def interp(x, xs, ys):
    if x <= xs[0]:
        return ys[0]
    if x >= xs[-1]:
        return ys[-1]
    for i in range(1, len(xs)):
        if x <= xs[i]:
            if xs[i] == xs[i - 1]:
                return ys[i]
            w = (x - xs[i - 1]) / (xs[i] - xs[i - 1])
            return ys[i - 1] + w * (ys[i] - ys[i - 1])
    return ys[-1]


def expected_th(args, P):
    wc, method, dl, val = args
    n = len(P.dz)
    lay = [int(x) for x in P.Layer]

    def conv(layer_idx_comp, v):
        j = layer_idx_comp
        if wc == "Num":
            return float(v)
        if wc == "Pct":
            return P.th_wp[j] + (float(v) / 100) * (P.th_fc[j] - P.th_wp[j])
        return {"WP": P.th_wp[j], "FC": P.th_fc[j], "SAT": P.th_s[j]}[v]
    if method == "Layer":
        out = [None] * n
        for j in range(n):
            for L, v in zip(dl, val):
                if lay[j] == int(L):
                    out[j] = conv(j, v)
        return out
    xs, ys = [], []
    for d, v in zip(dl, val):
        # first compartment whose bottom is deeper than the point
        jj = None
        for j in range(n):
            if d < P.dzsum[j]:
                jj = j
                break
        if jj is None:
            jj = n - 1
        xs.append(float(d))
        ys.append(conv(jj, v))
    return [interp(P.dzsum[j] - P.dz[j] / 2, xs, ys) for j in range(n)]


class CaseTimeout(Exception):
    pass


def _alarm(signum, frame):
    raise CaseTimeout()


def run_case(job):
    case, seed, tmo = job
    fam, kind, sname, dzname, crop_name, zmax, iwc_spec, tex = case
    from aquacrop import AquaCropModel, Crop, InitialWaterContent
    cid = f"{fam}|{kind}:{sname}|dz={dzname}|{crop_name}" + (f"(Zmax={zmax})" if zmax is not None else "") + f"|iwc={iwc_spec}"
    if tex is not None:
        cid += f"|sand={tex[1]}|clay={tex[2]}|om={tex[3]}"
    res = {"case": cid, "fails": [], "obs": [], "nontrivial": False, "rejected": False, "summary": None}
    dz_all = dict(DZ_LISTS)
    dz_all.update(HANG_DZ)
    dz = None if (kind == "builtin" and (sname == "ac_TunisLocal" or dzname == "default")) else dz_all[dzname]
    dz_eff = TUNIS_DZ if (kind == "builtin" and sname == "ac_TunisLocal") else (dz if dz is not None else [0.1] * 12)
    src = ["import sys; sys.path.insert(0, '/verif/e3'); from c18_soil import make_weather",
           "from aquacrop import AquaCropModel, Soil, Crop, InitialWaterContent"]

    def fail(sig, clause, detail):
        res["fails"].append({"signature": sig, "clause": clause, "detail": detail + " in " + cid, "repro": "\n".join(src), "case": cid})

    # ---- soil
    try:
        soil, ssrc, specs = build_soil(kind, sname, dz, tex)
        src += ssrc
    except Exception as exc:  # noqa: BLE001
        tb = traceback.extract_tb(exc.__traceback__)[-1]
        if kind == "texture":
            src.append("# raised in the soil construction above")
            t = tex if tex is not None else None
            fail(f"texture-soil-construction|{type(exc).__name__}|{tb.name}",
                 "custom soils from texture in the pedotransfer's calibrated range are well formed",
                 f"{type(exc).__name__}: {str(exc)[:120]} (sand,clay,om)={t[1:4] if t else TEXTURE_SOILS.get(sname)}")
            res["nontrivial"] = True
            return res
        raise
    if specs is None:
        specs = BUILTIN[sname]
    nlay_spec = len(specs)
    # ---- crop / iwc / model
    ckw = {} if zmax is None else {"Zmax": zmax}
    crop = Crop(crop_name, planting_date=PLANT, **ckw)
    src.append(f"crop = Crop({crop_name!r}, planting_date={PLANT!r}" + (f", Zmax={zmax}" if zmax is not None else "") + ")")
    zmax_eff = float(crop.Zmax)
    # layers of the specification that reach into the specified compartment list (a layer starting below the
    # profile bottom has no compartment and cannot be addressed by a Layer-method specification)
    depth_spec = round(sum(round(x, 2) for x in dz_eff), 2)
    tops = [0.0]
    for (t, *_r) in specs[:-1]:
        tops.append(tops[-1] + (t if t is not None else 1e9))
    npres = max(1, sum(1 for t in tops if t < depth_spec - 1e-9))
    ia = iwc_args(iwc_spec, specs[:npres], npres)
    if ia is None:
        res["rejected"] = True   # Num spec not applicable (no number valid in every layer)
        return res
    iwc = InitialWaterContent(*ia)
    src.append(f"iwc = InitialWaterContent{ia!r}")
    src.append(f"m = AquaCropModel({SIM_START!r}, {SIM_END!r}, make_weather({seed}), soil, crop, iwc); m._initialize()")
    src.append("P = m._param_struct.Soil.Profile; th = m._init_cond.th")
    model = AquaCropModel(SIM_START, SIM_END, weather(seed), soil, crop, iwc)
    old = signal.signal(signal.SIGALRM, _alarm)
    signal.alarm(int(tmo))
    try:
        model._initialize()
        signal.alarm(0)
    except CaseTimeout as exc:
        signal.alarm(0)
        fr = [f for f in traceback.extract_tb(exc.__traceback__) if "/aquacrop/" in f.filename and "site-packages" not in f.filename]
        where = f"{os.path.basename(fr[-1].filename)}:{fr[-1].name}" if fr else "?"
        fail(f"deepening|non-termination|{where}",
             "when the profile is deepened ... the profile ends below that depth (initialisation must terminate)",
             f"no result after {tmo} s (interrupted at `{fr[-1].line if fr else ''}`); specified profile depth sum(dz)={round(sum(dz_eff), 2)} m, "
             f"{len(dz_eff)} compartments, Zmax={zmax_eff}")
        res["nontrivial"] = True
        return res
    except AssertionError as exc:
        signal.alarm(0)
        if "growing degree days" in str(exc) or "longer than 1 year" in str(exc):
            res["rejected"] = True
            return res
        raise
    except Exception as exc:  # noqa: BLE001
        signal.alarm(0)
        fr = [f for f in traceback.extract_tb(exc.__traceback__) if "/aquacrop/" in f.filename and "site-packages" not in f.filename]
        where = f"{os.path.basename(fr[-1].filename)}:{fr[-1].name}" if fr else "outside"
        fail(f"initialisation|{type(exc).__name__}|{where}|iwc={ia[0]}/{ia[1]}",
             "the soil profile and initial water content are built as specified (initialisation must not raise for a valid specification)",
             f"{type(exc).__name__}: {str(exc)[:140]}")
        res["nontrivial"] = True
        return res
    finally:
        signal.alarm(0)
        signal.signal(signal.SIGALRM, old)
    res["nontrivial"] = True
    P = model._param_struct.Soil.Profile
    th = np.asarray(model._init_cond.th, dtype=float)
    thfa = np.asarray(model._init_cond.th_fc_Adj, dtype=float)
    n = len(P.dz)
    dzr = [round(x, 2) for x in dz_eff]
    deepened = abs(float(P.dzsum[-1]) - round(sum(dzr), 2)) > 1e-9 or any(abs(float(P.dz[j]) - dzr[j]) > 1e-9 for j in range(min(n, len(dzr))))
    dz2 = all(abs(x * 100 - round(x * 100)) < 1e-9 for x in dz_eff)
    ctx = "dz-not-multiple-of-0.01" if not dz2 else ("after-deepening" if deepened else "as-specified")
    WF = "wf_profile: "

    def first_bad(mask):
        idx = np.where(mask)[0]
        return int(idx[0]) if len(idx) else None

    arrs = {k: np.asarray(getattr(P, k), dtype=float) for k in ("dz", "dzsum", "zMid", "zBot", "z_top", "th_dry", "th_wp", "th_fc", "th_s", "Ksat", "tau", "Penetrability")}
    lay = np.asarray(P.Layer).astype(int)
    A = arrs
    for k, v in list(arrs.items()) + [("th", th), ("th_fc_Adj", thfa)]:
        if len(v) != n or not np.all(np.isfinite(v)):
            fail(f"wf|array-{k}-length-or-nonfinite|{ctx}", WF + "all profile arrays have length n and finite entries", f"{k}: len {len(v)} vs n={n}, finite={bool(np.all(np.isfinite(v)))}")
    if n < 1 or n != len(dz_eff):
        fail(f"wf|n|{ctx}", WF + "n>=1 and the number of compartments is that of the compartment list", f"n={n} specified {len(dz_eff)}")
    if res["fails"]:
        return res
    j = first_bad(~(A["dz"] > 0))
    if j is not None:
        fail(f"wf|dz>0|{ctx}", WF + "dz[j]>0", f"dz[{j}]={A['dz'][j]}")
    if abs(A["dzsum"][0] - A["dz"][0]) > TOL:
        fail(f"wf|dzsum0|{ctx}", WF + "dzsum[0]==dz[0]", f"dzsum[0]={A['dzsum'][0]} dz[0]={A['dz'][0]}")
    if n > 1:
        j = first_bad(np.abs(A["dzsum"][1:] - (A["dzsum"][:-1] + A["dz"][1:])) > TOL)
        if j is not None:
            fail(f"wf|dzsum-running-sum|{ctx}", WF + "dzsum[j]==dzsum[j-1]+dz[j] (1e-9)",
                 f"j={j + 1}: dzsum={A['dzsum'][j + 1]} dzsum[j-1]+dz[j]={A['dzsum'][j] + A['dz'][j + 1]}")
    j = first_bad(A["dzsum"] < A["dz"] - TOL)
    if j is not None:
        fail(f"wf|dzsum>=dz|{ctx}", WF + "dzsum[j]>=dz[j]", f"j={j}: dzsum={A['dzsum'][j]} dz={A['dz'][j]}")
    j = first_bad(np.abs(A["zMid"] - (A["dzsum"] - A["dz"] / 2)) > TOL)
    if j is not None:
        fail(f"wf|zMid|{ctx}", WF + "zMid[j]==dzsum[j]-dz[j]/2 (mid-depths consistent with the compartment bottoms)",
             f"j={j}: zMid={A['zMid'][j]} dzsum-dz/2={A['dzsum'][j] - A['dz'][j] / 2} (dz={A['dz'][j]}, dzsum={A['dzsum'][j]}; specified dz[{j}]={dz_eff[j]})")
    jb = first_bad(np.abs(A["zBot"] - A["dzsum"]) > TOL)
    jt = first_bad(np.abs(A["z_top"] - (A["dzsum"] - A["dz"])) > TOL)
    if jb is not None or jt is not None:
        j = jb if jb is not None else jt
        fail(f"geometry|zBot-z_top|{ctx}", "compartment bottoms are the running sum of thicknesses and tops are consistent with them "
             "(zBot[j]==dzsum[j], z_top[j]==dzsum[j]-dz[j])",
             f"j={j}: zBot={A['zBot'][j]} z_top={A['z_top'][j]} but dzsum={A['dzsum'][j]} dz={A['dz'][j]} (specified dz[{j}]={dz_eff[j]})")
    soiltag = f"{kind}:{sname}" if tex is None else "texture-grid"
    for (a, b, nm) in (("th_dry", "th_wp", "th_dry<th_wp"), ("th_wp", "th_fc", "th_wp<th_fc")):
        j = first_bad(~(A[a] < A[b]))
        if j is not None:
            fail(f"wf|{nm}|{soiltag}", WF + "0<=th_dry<th_wp<th_fc<th_s<=1", f"j={j}: {a}={A[a][j]} {b}={A[b][j]}")
    j = first_bad(A["th_dry"] < 0)
    if j is not None:
        fail(f"wf|0<=th_dry|{soiltag}", WF + "0<=th_dry", f"j={j}: th_dry={A['th_dry'][j]}")
    j = first_bad(A["th_fc"] > A["th_s"])
    if j is not None:
        fail(f"wf|th_fc<=th_s|{soiltag}", WF + "th_fc<th_s (air-dry < wilting point < field capacity <= saturation)", f"j={j}: th_fc={A['th_fc'][j]} th_s={A['th_s'][j]}")
    elif np.any(A["th_fc"] == A["th_s"]):
        res["obs"].append(("th_fc==th_s", soiltag))
    j = first_bad(A["th_s"] > 1)
    if j is not None:
        fail(f"wf|th_s<=1|{soiltag}", WF + "th_s<=1", f"j={j}: th_s={A['th_s'][j]}")
    j = first_bad(~(A["Ksat"] > 0))
    if j is not None:
        fail(f"wf|Ksat>0|{soiltag}", WF + "Ksat>0", f"j={j}: Ksat={A['Ksat'][j]}")
    j = first_bad(~((A["tau"] > 0) & (A["tau"] <= 1)))
    if j is not None:
        fail(f"wf|0<tau<=1|{soiltag}", WF + "0<tau<=1 (drainage coefficient)", f"j={j}: tau={A['tau'][j]} Ksat={A['Ksat'][j]}")
    if lay[0] != 1 or np.any(np.diff(lay) < 0) or np.any(np.diff(lay) > 1):
        fail(f"wf|Layer-contiguous|{soiltag}|dz={dzname}", WF + "Layer starts at 1 and is non-decreasing by steps of at most 1", f"Layer={lay.tolist()}")
    # ---- layer assignment and layer properties
    bounds = []
    acc = 0.0
    for (t, *_rest) in specs:
        acc = acc + (t if t is not None else 1e9)
        bounds.append(acc)
    cum = 0.0
    drift = None
    for jj in range(n):
        top = cum
        cum = round(cum + dzr[jj], 2)
        bot = cum
        # nominal layer containing the whole compartment
        prevb = 0.0
        must = None
        for k, b in enumerate(bounds):
            if top >= prevb - 1e-9 and bot <= b + 1e-9:
                must = k + 1
                break
            prevb = b
        if top >= bounds[-1] - 1e-9:
            must = len(bounds)
        if must is not None and lay[jj] != must and drift is None:
            drift = (jj, top, bot, must, int(lay[jj]))
    if drift is not None:
        fail("layer-assignment|compartment-inside-nominal-layer-gets-next-layer",
             "layers are contiguous from the surface and cover all compartments; every compartment carries the layer it lies in",
             f"compartment {drift[0]} ({drift[1]}..{drift[2]} m of the specified list) lies inside nominal layer {drift[3]} "
             f"(layer bottoms {[b for b in bounds if b < 1e8]}) but Layer={drift[4]}; Layer={lay.tolist()}")
    if lay.max() <= len(specs) and lay.min() >= 1:
        for jj in range(n):
            (t, wp, fc, s, ks, pen) = specs[lay[jj] - 1]
            tau = round(0.0866 * (ks ** 0.35), 2)
            tau = 1 if tau > 1 else (0 if tau < 0 else tau)
            exp = {"th_wp": wp, "th_fc": fc, "th_s": s, "Ksat": ks, "Penetrability": pen, "th_dry": wp / 2, "tau": tau}
            badk = [k for k, v in exp.items() if abs(A[k][jj] - v) > TOL]
            if badk:
                fail(f"layer-properties|{'+'.join(badk)}|{ctx}",
                     "every compartment keeps its layer's hydraulic properties (also when the profile is deepened)",
                     f"compartment {jj} Layer {lay[jj]}: " + ", ".join(f"{k}={A[k][jj]} specified {exp[k]}" for k in badk))
                break
    else:
        fail(f"layer-assignment|unknown-layer-number|{kind}:{sname}|dz={dzname}", "layers cover all compartments", f"Layer={lay.tolist()} with {len(specs)} specified layers")
    # ---- deepening
    if not (A["dzsum"][-1] >= zmax_eff - TOL):
        fail(f"deepening|profile-ends-above-Zmax|dz={dzname}", "the (deepened) profile ends below the crop's maximum rooting depth",
             f"profile bottom {A['dzsum'][-1]} < Zmax {zmax_eff}")
    if deepened and len(specs) > 1:
        res["obs"].append(("layer-thickness-changes-by-deepening", f"{kind}:{sname}"))
    # ---- initial water content
    try:
        exp_th = expected_th(ia, P)
    except Exception as exc:  # noqa: BLE001
        res["harness"] = f"iwc oracle: {type(exc).__name__}: {exc}"
        exp_th = None
    if exp_th is not None:
        for jj in range(n):
            if exp_th[jj] is None:
                continue
            if abs(th[jj] - exp_th[jj]) > TOL:
                fail(f"iwc|{ia[0]}|{ia[1]}|value-mismatch|{ctx}|layers={len(specs)}",
                     "the initial water content equals the requested property / percentage / number in each layer, or the linear "
                     "interpolation of the depth points at compartment mid-depths",
                     f"compartment {jj} (mid {A['dzsum'][jj] - A['dz'][jj] / 2:.3f} m, Layer {lay[jj]}): th={th[jj]} expected {exp_th[jj]}; spec {ia}")
                break
    j = first_bad((th < A["th_dry"] - TOL) | (th > A["th_s"] + TOL))
    if j is not None:
        fail(f"iwc|th-outside-[th_dry,th_s]|{ia[0]}|{ia[1]}|layers={'1' if len(specs) == 1 else 'multi'}", "init: th_dry <= th <= th_s (initial water content within the physical range of every compartment)", f"j={j}: th={th[j]} th_dry={A['th_dry'][j]} th_s={A['th_s'][j]}; spec {ia}")
    j = first_bad((thfa < A["th_fc"] - TOL) | (thfa > A["th_s"] + TOL))
    if j is not None:
        fail(f"init|th_fc_Adj-outside-[th_fc,th_s]|{soiltag}", "init: th_fc <= th_fc_Adj <= th_s", f"j={j}: th_fc_Adj={thfa[j]} th_fc={A['th_fc'][j]} th_s={A['th_s'][j]}")
    res["summary"] = {"n": n, "deepened": bool(deepened), "bottom": float(A["dzsum"][-1]), "Zmax": zmax_eff, "Layer": lay.tolist(),
                      "iwc": [ia[0], ia[1], list(ia[2]), list(ia[3])], "th0": float(th[0]), "th_last": float(th[-1])}
    return res


def max_reach(dz):
    """largest profile depth the deepening rule (grow a compartment thinner than 0.25 m by 0.1 m) can reach"""
    tot = 0.0
    for c in dz:
        c = round(c, 2)
        while c < 0.25:
            c = round(c + 0.1, 2)
        tot += c
    return round(tot, 2)


def predicted_hang(case):
    from aquacrop.entities.crops.crop_params import crop_params
    fam, kind, sname, dzname, crop_name, zmax, iwc_spec, tex = case
    if kind == "builtin" and sname == "ac_TunisLocal":
        dz = TUNIS_DZ
    elif dzname == "default":
        dz = [0.1] * 12
    else:
        dz = dict(DZ_LISTS, **HANG_DZ)[dzname]
    z = zmax if zmax is not None else float(crop_params[crop_name]["Zmax"])
    return round(sum(round(c, 2) for c in dz), 2) < z + 0.1 and max_reach(dz) < z + 0.1


def work(chunk):
    out = []
    for job in chunk:
        try:
            out.append(run_case(job))
        except Exception as exc:  # noqa: BLE001
            out.append({"case": repr(job[0]), "fails": [], "obs": [], "nontrivial": False, "rejected": False, "summary": None,
                        "harness": f"{type(exc).__name__}: {exc} {traceback.format_exc(limit=3)[-400:]}"})
    return out


def build_cases(tier, seed):
    rng = random.Random(seed)
    soils = [("builtin", s) for s in BUILTIN] + [("values", s) for s in VALUE_SOILS] + [("texture", s) for s in TEXTURE_SOILS]
    A = []   # geometry product with 3 cycling IWC specs
    k = 0
    for (kind, s) in soils:
        dzs = ["default"] if s == "ac_TunisLocal" else list(DZ_LISTS)
        if s in ("VF", "VG"):
            dzs = ["d12x0.10", "d20x0.10", "fine"]     # float-boundary soils: only lists whose compartment bottoms coincide with the layer bottoms
        for dzn in dzs:
            for (c, z) in CROP_REPS:
                for r in range(3):
                    spec = IWC_SPECS[(k * 3 + r * 7) % len(IWC_SPECS)]
                    A.append(("geom", kind, s, dzn, c, z, spec, None))
                k += 1
    B = []   # every soil x every IWC spec on 3 geometries
    for (kind, s) in soils:
        for spec in IWC_SPECS:
            for (dzn, c) in (("d12x0.10", "Tomato"), ("d12x0.10", "Maize"), ("fine", "AlfalfaGDD")):
                B.append(("iwc", kind, s, "default" if s == "ac_TunisLocal" else dzn, c, None, spec, None))
    C = [("crops", "builtin", s, "default", c, None, "L|Prop|FC", None) for s in BUILTIN for c in ALL_CROPS]
    D = []
    for sa in TEX_SAND:
        for cl in TEX_CLAY:
            if sa + cl > 100:
                continue
            for om in TEX_OM:
                D.append(("texgrid", "texture", "grid", "d12x0.10", "Tomato", None, "L|Prop|FC", (5.0, sa, cl, om, 100)))
    H = []
    hs = [("builtin", "SandyLoam"), ("values", "V2"), ("texture", "T1")]
    for (kind, s) in hs:
        for dzn in HANG_DZ:
            for (c, z) in CROP_REPS[:10]:
                H.append(("hang", kind, s, dzn, c, z, "L|Prop|FC", None))
    allc = A + B + C + D + H
    seen = set()
    uniq = []
    for c in allc:
        if c not in seen:
            seen.add(c)
            uniq.append(c)
    hangs = [c for c in uniq if predicted_hang(c)]
    hset = set(hangs)
    normal = [c for c in uniq if c not in hset]
    total = len(normal)
    rng.shuffle(hangs)
    if tier == "quick":
        pick = rng.sample(normal, 600)
        Hs = hangs[:6]
    else:
        pick = normal
        Hs = hangs[:48]
    lattice = (
        "BOUNDED (not proved). Each case = one real AquaCropModel._initialize() (no time step), window "
        f"{SIM_START}-{SIM_END}, planting {PLANT}, seeded warm synthetic weather, no groundwater. Families: "
        f"geom = soils (15 built-in + value soils {list(VALUE_SOILS)} with 1-3 layers incl. thickness not a multiple of the compartments (VD), layers shorter than the profile (VS), th_fc==th_s (VE) "
        f"+ texture soils {list(TEXTURE_SOILS)} with 1-3 layers) x compartment lists {list(DZ_LISTS)} (ac_TunisLocal: its own list) x crops {CROP_REPS} "
        "(one per distinct catalogue Zmax 0.5..3.0 m plus Zmax overrides) x 3 IWC specs cycling through all 20; "
        f"iwc = every soil x every IWC spec {IWC_SPECS} (L=Layer method listing every layer; D=Depth method with 1-4 points at {DEPTH_SETS}; Prop values cycle WP/FC/SAT/FC, Pct 20/80/50/100, "
        "Num = numbers between the largest th_wp and smallest th_s of the soil) on 3 geometries (no deepening / Maize deepening / fine list with Alfalfa 3 m); "
        "crops = 37 crops x 15 built-in soils, default list, FC; "
        f"texgrid = single-layer texture soils sand {TEX_SAND} x clay {TEX_CLAY} (sand+clay<=100) x organic matter {TEX_OM} % (Saxton-Rawls range: clay<=60 %, OM<=8 %), Tomato; "
        f"hang = compartment lists {list(HANG_DZ)} x 3 soils x 10 crops. "
        f"Distinct points = {len(uniq)}; {len(hangs)} of them are predicted not to terminate (an independent reachability formula says the deepening rule - grow compartments thinner than 0.25 m by 0.1 m - "
        f"cannot reach Zmax+0.1): {len(Hs)} of those (seeded choice) are run under a 5 s SIGALRM timeout (a normal initialisation takes < 0.5 s), the other {len(hangs) - len(Hs)} are NOT run; "
        f"remaining {total} points"
        + (f": quick runs a seeded uniform sample of {len(pick)}." if tier == "quick" else ": all enumerated.")
        + " Oracles: wf_profile clauses on the SoilProfile arrays (tolerance 1e-9); layer assignment / layer properties from the specified layers (built-in soils: the FAO literals copied into this module; "
          "texture: calculate_soil_hydraulic_properties evaluated separately); initial water content by the documented semantics with own linear interpolation at compartment mid-depths dzsum-dz/2 of the deepened profile.")
    return Hs + pick, lattice


def main():
    ap = argparse.ArgumentParser()
    ap.add_argument("--tier", choices=["quick", "thorough"], default="quick")
    ap.add_argument("--seed", type=int, default=0)
    ap.add_argument("--out", required=True)
    a = ap.parse_args()
    t0 = time.time()
    exceptions = []
    results = []
    lattice = ""
    try:
        import multiprocessing as mp
        cases, lattice = build_cases(a.tier, a.seed)
        tmo = 5
        jobs = [(c, a.seed, tmo) for c in cases]
        hang = [[j] for j in jobs if predicted_hang(j[0])]
        rest = [j for j in jobs if not predicted_hang(j[0])]
        chunks = hang + [rest[i:i + 12] for i in range(0, len(rest), 12)]
        ctx = mp.get_context("fork")
        with ctx.Pool(NPROC) as pool:
            for out in pool.imap_unordered(work, chunks, chunksize=1):
                results.extend(out)
    except Exception as exc:  # noqa: BLE001
        exceptions.append(f"driver: {type(exc).__name__}: {exc} {traceback.format_exc(limit=4)[-600:]}")
    results.sort(key=lambda r: r["case"])
    by_sig = {}
    obs = {}
    rejected = 0
    for r in results:
        if r.get("harness"):
            exceptions.append(f"{r['case']}: {r['harness']}")
        if r.get("rejected"):
            rejected += 1
        for o in r.get("obs", []):
            obs.setdefault(o[0], set()).add(o[1])
        for f in r["fails"]:
            by_sig.setdefault(f["signature"], []).append(f)
    failures = []
    for sig in sorted(by_sig):
        fl = sorted(by_sig[sig], key=lambda f: (len(f["case"]), f["case"]))
        f0 = fl[0]
        failures.append({"signature": sig, "clause": f0["clause"],
                         "detail": f"{len(fl)} case(s); first: {f0['detail']}" + (f"; others e.g. {[x['case'] for x in fl[1:4]]}" if len(fl) > 1 else ""),
                         "repro": f0["repro"]})
    samples = []
    ok = [r for r in results if r.get("summary")]
    for r in ok[:: max(1, len(ok) // 5)][:5]:
        samples.append({"case": r["case"], **r["summary"]})
    for k, v in sorted(obs.items()):
        samples.append({"observation": k + (" (reported separately, not a failure)"), "where": sorted(v)[:12], "count": len(v)})
    out = {
        "property": PROP, "tier": a.tier, "seed": a.seed, "lattice": lattice,
        "cases": len(results), "distinct_nontrivial": len({r["case"] for r in results if r.get("nontrivial")}),
        "rule": ("a case is non-trivial if the model was initialised and the profile / initial-water-content clauses were evaluated on it, or the construction/initialisation "
                 f"raised or timed out; trivial: {rejected} cases skipped because no Num value is valid in every layer of the soil or a documented GDD rejection was raised"),
        "failures": failures, "samples": samples[:8], "wall_s": round(time.time() - t0, 2), "exceptions": exceptions[:50],
    }
    with open(a.out, "w") as fh:
        json.dump(out, fh, indent=1, default=str)
    return 0


if __name__ == "__main__":
    try:
        sys.exit(main())
    except SystemExit:
        raise
    except BaseException:  # noqa: BLE001
        traceback.print_exc()
        sys.exit(4)
