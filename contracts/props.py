"""Which contracts and which obligations decide which property."""

SAFETY_KINDS = {"defined", "attr_defined", "div_nonzero", "log_positive", "pow_base_nonneg", "index", "assert", "raise_unreachable",
                "argwhere_witness", "sqrt_nonneg", "alloc_nonneg", "variant", "variant_missing", "int_of_integral", "return_shape"}
# proof steps that every property relying on the function needs (the assert half of assert/havoc/assume cuts, loop-entry and
# loop-body assertions, invariants, call-site preconditions, sortedness side conditions): always registered with the function
SUPPORT_KINDS = {"inv_init", "inv_pres", "call_requires", "count_mask_sorted", "cut_assert", "init_assert", "pres_assert"}

PROPS = {
    "C17": dict(
        bounded=dict(module="c17_grid.py"),
        functions=["growing_degree_day", "water_stress", "temperature_stress", "cc_development", "cc_required_time",
                   "cc_growth_inversion", "aeration_stress", "reset_initial_conditions#body"],
        level="proof",
        safety=True,
        explanation="every range / monotonicity / inversion clause of the statement is a postcondition or a two-copy (relational) obligation "
                    "on the real loop-free function; loop-free symbolic execution over fully symbolic inputs is unbounded",
        trusted_base=[],
    ),
    "C01": dict(lemmas=True, bounded=dict(module="water_monitors.py", args=["--property", "C01"]), functions=["pre_irrigation", "drainage", "infiltration", "capillary_rise", "groundwater_inflow", "soil_evaporation", "transpiration", "solution_single_time_step", "update_time", "reset_initial_conditions#body"], level="proof",
                explanation="per-process mass contracts: loop invariants over the spec sum wsum (storage), closed with the lemma library; the daily step composes them into the "
                            "balance of the reported row; between days update_time carries water content and ponding unchanged unless a season starts", trusted_base=[]),
    "C02": dict(bounded=dict(module="water_monitors.py", args=["--property", "C02"]), functions=["rainfall_partition", "infiltration", "soil_evaporation", "transpiration", "solution_single_time_step"], level="proof",
                explanation="partition identities and runoff bounds as postconditions of rainfall_partition and infiltration; the ponded depth stays non-negative through "
                            "evaporation and transpiration (negative infiltration only releases ponded water); composition on the reported row", trusted_base=[]),
    "C03": dict(lemmas=True, bounded=[dict(module="water_monitors.py", args=["--property", "C03"]), dict(module="soil_assumptions.py")], functions=["pre_irrigation", "drainage", "infiltration", "capillary_rise", "groundwater_inflow", "root_zone_water", "soil_evaporation", "evap_layer_water_content", "transpiration", "rainfall_partition", "solution_single_time_step"], level="proof",
                explanation="water_inv as inductive invariant of each process", trusted_base=[]),
    "C04": dict(bounded=dict(module="water_monitors.py", args=["--property", "C04"]), functions=["drainage", "irrigation", "infiltration", "capillary_rise", "groundwater_inflow", "pre_irrigation", "aeration_stress", "soil_evaporation", "transpiration", "canopy_cover", "root_zone_water", "solution_single_time_step"], level="proof",
                explanation="sign / ordering postconditions", trusted_base=[]),
    "C13": dict(bounded=dict(module="water_monitors.py", args=["--property", "C13"]), functions=["growth_stage", "reset_initial_conditions#body", "irrigation", "root_zone_water", "pre_irrigation", "growth_stage", "transpiration", "solution_single_time_step"], level="proof",
                explanation="per-strategy postconditions of irrigation(), callee contract of root_zone_water", trusted_base=[]),
    "C19": dict(bounded=dict(module="water_monitors.py", args=["--property", "C19"]), functions=["check_groundwater_table", "capillary_rise", "groundwater_inflow", "solution_single_time_step"], level="proof",
                explanation="adjusted field capacity range / far table / saturation below the table / no table => zero fluxes", trusted_base=[]),
    "C05": dict(functions=["growing_degree_day", "cc_development", "biomass_accumulation", "HIref_current_day", "HIadj_pre_anthesis", "HIadj_pollination", "HIadj_post_anthesis", "harvest_index", "canopy_cover", "germination", "transpiration", "solution_single_time_step", "calculate_HIGC", "calculate_HI_linear", "root_development#body"], level="proof", safety=True,
                bounded=[dict(module="water_monitors.py", args=["--property", "C05"]), dict(module="root_helper.py")],
                explanation="E1: degree-day range and accumulation, canopy envelope, biomass monotone, harvest index <= reference and adjusted index <= reference x allowed increase, "
                            "reference harvest index non-decreasing in adjusted time (two-copy obligation), zeros out of season; rooting depth (real body of root_development over the ASSUMED, "
                            "bounded-checked contract of its layer-walk helper): never below the minimum depth, never shrinks except onto a water table, never below a present table, no expansion "
                            "before germination or in early senescence; the upper root envelope (Zmax) and the day-to-day chaining of the stored harvest index are served by the BOUNDED monitors"),
    "C06": dict(functions=["biomass_accumulation", "HIref_current_day", "transpiration", "canopy_cover", "irrigation", "solution_single_time_step"], level="proof",
                bounded=dict(module="water_monitors.py", args=["--property", "C06"]),
                explanation="per-step yield algebra and seasonal irrigation accumulation as postconditions of the daily step over the callee contracts; the summary row is written "
                            "exactly when the harvest flag is raised (at index season_counter, once per season) and repeats that day's yields, step, end date and the seasonal "
                            "irrigation counter; the run-level induction (one row per harvested season, in order; counter == sum of the daily column) is monitored by the BOUNDED stand-in"),
    "C12": dict(functions=["pre_irrigation", "drainage", "infiltration", "capillary_rise", "groundwater_inflow", "root_zone_water", "soil_evaporation", "evap_layer_water_content", "rainfall_partition", "irrigation", "check_groundwater_table", "transpiration", "harvest_index", "canopy_cover", "germination", "growth_stage", "solution_single_time_step"], level="proof", frame=True,
                store_scan=lambda area, kind: area in ("solution", "timestep"), bounded=dict(module="c12_readonly.py"),
                explanation="assigns (frame) obligations: every store of a process function hits a fresh array or a location its contract's assigns clause names; "
                            "parameter arrays (soil profile, weather, management) are not writable; E2 store scan (with numpy view/copy tracking) over solution/ and timestep/; "
                            "BOUNDED: content hash of every parameter component after every step of real runs (catches aliasing through views that the frame proofs do not model)"),
    "C09": dict(functions=["AquaCropModel.run_model", "AquaCropModel._perform_timestep#body", "check_model_is_finished", "update_time"], level="proof", bounded=dict(module="c09_stepwise.py"),
                store_scan=lambda area, kind: kind in ("global", "default"),
                explanation="(E2: no function keeps state in module-level objects - state held off the model object would make a stepped run depend on whatever runs between the calls) "
                            "run_model's two loops verified over an ABSTRACT step contract (ghost step counter, trajectory predicate fin): every call advances the "
                            "trajectory by min(k, steps-to-termination) and reports finished exactly at termination, so every partition of a run ends in the same "
                            "state T^N(s0); bitwise equality of tables across partitions is additionally monitored by the BOUNDED stand-in",
                trusted_base=["AquaCropModel._perform_timestep: abstract deterministic step (assumed; frame/determinism shared with C10)"]),
    "C07": dict(functions=["reset_initial_conditions#body", "germination", "HIref_current_day", "solution_single_time_step", "check_model_is_finished", "update_time", "AquaCropModel._perform_timestep#body", "AquaCropModel.run_model"], level="other", bounded=dict(module="c07_schedule.py"),
                explanation="BOUNDED: schedule produced by the pandas initialisers and whole-run calendar facts checked on an enumerated lattice of windows / planting dates / crops"),
    "C16": dict(functions=['growing_degree_day', 'water_stress', 'temperature_stress', 'aeration_stress', 'cc_development', 'cc_required_time', 'drainage', 'pre_irrigation', 'rainfall_partition', 'root_zone_water', 'irrigation', 'infiltration', 'check_groundwater_table', 'capillary_rise', 'groundwater_inflow', 'evap_layer_water_content', 'soil_evaporation', 'transpiration', 'germination', 'growth_stage', 'canopy_cover', 'HIref_current_day', 'HIadj_pre_anthesis', 'HIadj_pollination', 'HIadj_post_anthesis', 'harvest_index', 'biomass_accumulation', 'solution_single_time_step', 'check_model_is_finished', 'update_time', 'AquaCropModel._perform_timestep#body', 'AquaCropModel.run_model', 'calculate_HIGC', 'calculate_HI_linear', 'reset_initial_conditions#body', 'root_development#body'], level="other", safety=True, crosscheck=True, catalogue=True, bounded=[dict(module="c16_completion.py"), dict(module="soil_assumptions.py"), dict(module="deepening.py")],
                explanation="E1: the safety obligations (definite assignment, non-zero divisors, positive log arguments, non-negative power bases, index bounds, asserts, "
                            "unreachable raises, loop variants) of every function under contract, under the documented flag values; "
                            "BOUNDED: pairwise-covering enumeration of the configuration catalogue for the initialisers and the combination space"),
    "C18": dict(functions=[], level="exploration", bounded=[dict(module="c18_soil.py"), dict(module="deepening.py")],
                explanation="BOUNDED exploration (the soil and initial-water-content builders are pandas code outside the verifier's reach; no contract can be discharged on them): wf_profile and initial-water-content clauses evaluated on real initialised models; profile deepening terminates, ends below the "
                            "maximum rooting depth and keeps layer properties on a lattice of compartment lists x crops"),
    "C10": dict(functions=[], level="other", bounded=dict(module="c10_determinism.py"),
                store_scan=lambda area, kind: kind in ("global", "default"),
                explanation="E2 (syntactic store scan of the whole package): no function stores into a module-level object or keeps a mutable default argument by reference, "
                            "beyond the declared frames; BOUNDED: fresh-process / hash-seed / history comparisons. Bit-identity across interpreter processes is a "
                            "property of CPython/numpy and is not claimed by contracts."),
    "C11": dict(functions=[], level="other", bounded=dict(module="c11_inputs.py"),
                store_scan=lambda area, kind: kind == "param" and area in ("initialize", "entities", "utils", "core.py"),
                explanation="E2 (syntactic store scan): the initialisers store only into the objects named in their declared frames (param_struct, clock_struct, and the "
                            "private copies of soil/crop made by AquaCropModel._initialize); BOUNDED: re-run / new model / cross-use comparisons with attribute snapshots"),
    "C14": dict(functions=["AquaCropModel._perform_timestep#body", "update_time", "check_model_is_finished"], level="other", bounded=dict(module="c14_lookahead.py"),
                explanation="E1: the model's time step reads no weather record other than today's row (reads obligation on _perform_timestep) and writes only today's table rows; "
                            "BOUNDED: cut-day perturbations, records outside the window, end-date extension compared bitwise"),
    "C15": dict(functions=["AquaCropModel._perform_timestep#body"], level="exploration", bounded=dict(module="c15_weather_binding.py"),
                explanation="BOUNDED exploration: the binding of weather records to simulated days (by date) and of variables to columns (by name) is pandas code in "
                            "AquaCropModel._initialize, outside the verifier's reach; it is explored over column permutations, extra columns, re-indexed tables and extra "
                            "leading/trailing rows on real runs, bitwise. E1 contributes only that the daily step reads exactly the row whose index is the step counter."),
    "C08": dict(functions=["reset_initial_conditions#body", "update_time", "pre_irrigation", "soil_evaporation"], level="other", call_order_of=["solution_single_time_step"], bounded=dict(module="c08_seasons.py"),
                # a store by the season reset / the clock into anything but the declared frame (state, season crop) is a channel from one season into the next
                store_scan=lambda area, kind: area == "timestep",
                explanation="E1: the real body of reset_initial_conditions resets every season-state field to the value a fresh run starts from (counters, flags, factors, "
                            "crop-dependent values, aeration counters, potential fluxes), restores the configured water content from a PRIVATE copy (th is not thini) and the "
                            "initial ponding; update_time calls it exactly when a season starts; E2 store scan of timestep/ (the reset and the clock write nothing outside their declared frames - "
                            "e.g. not into the weather records, a channel from one season into the next); BOUNDED: season k of a multi-season run vs a fresh single-season run, bitwise "
                            "(incl. thermal-time crops flowering in the hottest weeks)"),
    "C20": dict(functions=["rainfall_partition", "irrigation", "infiltration", "soil_evaporation", "solution_single_time_step", "reset_initial_conditions#body"], level="other", bounded=dict(module="c20_inert.py"),
                explanation="E1: read-guards (a parameter of a switched-off feature is never read): bund height without bunds, curve-number percentage under inhibited runoff, "
                            "strategy parameters of other strategies, efficiency out of season, mulch parameters without mulches, wetted fraction without irrigation; "
                            "neutral values: irrigation applies nothing at daily/seasonal maximum 0, depth 0 or an empty schedule day (function and reported row); the mulch-adjusted "
                            "potential evaporation equals the unadjusted one at cover 0 or factor 0 (cut assertion where the only reads of the mulch parameters occur); "
                            "the season reset puts no water on a field without effective bunds whatever the bund settings (reset_initial_conditions#body); "
                            "BOUNDED: base-vs-transformed whole-run comparison incl. neutral values and the explicit default harvest date"),
}


def registered(prop_id, ob):
    spec = PROPS[prop_id]
    kind = ob["kind"]
    tags = ob.get("tags") or []
    if kind in ("ensures", "relational"):
        return prop_id in tags
    if kind in SUPPORT_KINDS:
        return True
    if kind in SAFETY_KINDS:
        return bool(spec.get("safety")) or prop_id in ("C16",)
    if kind == "call_order":
        return True
    if kind == "frame":
        return prop_id in ("C12",) or bool(spec.get("frame"))
    return prop_id in tags
