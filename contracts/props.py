"""Which contracts and which obligations decide which property."""

SAFETY_KINDS = {"defined", "attr_defined", "div_nonzero", "log_positive", "pow_base_nonneg", "index", "assert", "raise_unreachable",
                "argwhere_witness", "sqrt_nonneg", "alloc_nonneg", "variant", "variant_missing", "int_of_integral", "return_shape"}
SUPPORT_KINDS = {"inv_init", "inv_pres", "call_requires", "count_mask_sorted"}

PROPS = {
    "C17": dict(
        functions=["growing_degree_day", "water_stress", "temperature_stress", "cc_development", "cc_required_time",
                   "cc_growth_inversion", "aeration_stress"],
        level="proof",
        safety=True,
        explanation="every range / monotonicity / inversion clause of the statement is a postcondition or a two-copy (relational) obligation "
                    "on the real loop-free function; loop-free symbolic execution over fully symbolic inputs is unbounded",
        trusted_base=[],
    ),
    "C01": dict(functions=["drainage"], level="proof", explanation="per-process mass contracts with loop invariants over the spec sum wsum", trusted_base=[]),
    "C03": dict(functions=["drainage"], level="proof", explanation="water_inv as inductive invariant of each process", trusted_base=[]),
    "C04": dict(functions=["drainage"], level="proof", explanation="sign / ordering postconditions", trusted_base=[]),
}


def registered(prop_id, ob):
    spec = PROPS[prop_id]
    kind = ob["kind"]
    tags = ob.get("tags") or []
    if kind in ("ensures", "relational"):
        return prop_id in tags
    if kind in SUPPORT_KINDS:
        return True
    if kind in SAFETY_KINDS:
        return bool(spec.get("safety")) or prop_id in ("C16",)
    if kind == "frame":
        return prop_id in ("C12",) or bool(spec.get("frame"))
    return prop_id in tags
