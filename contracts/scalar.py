"""Contracts of the loop-free response functions (C17, parts of C05/C16)."""
from vc.spec import contract, ARR, OBJ, declare_fields

SOL = "aquacrop/solution/"

# ----------------------------------------------------------------------------- growing_degree_day
contract(SOL + "growing_degree_day.py", "growing_degree_day",
         params=dict(GDDmethod="Int", Tupp="Real", Tbase="Real", temp_max="Real", temp_min="Real"),
         requires=["GDDmethod == 1 or GDDmethod == 2 or GDDmethod == 3", "Tbase < Tupp"],
         returns=[("gdd", "Real")],
         ensures=[("C17.gdd_range", "0 <= gdd and gdd <= Tupp - Tbase"),
                  ("C05.gdd_range", "0 <= gdd <= Tupp - Tbase")],
         props=("C17", "C05", "C16"))

# ----------------------------------------------------------------------------- record classes used below
declare_fields("Crop", default="Real",
               p_up=ARR("Real", 4), p_lo=ARR("Real", 4), fshape_w=ARR("Real", 4),
               LagAer="Int", PolHeatStress="Int", PolColdStress="Int", TrColdStress="Int", ETadj="Int", CropType="Int", PlantMethod="Int",
               CalendarType="Int", GDDmethod="Int", Determinant="Int", SwitchGDD="Int",
               Name="Opaque", planting_date="Opaque", harvest_date="Opaque", SwitchGDDType="Opaque")

# ----------------------------------------------------------------------------- water_stress
_KS = ["Ksw_Exp", "Ksw_Sto", "Ksw_Sen", "Ksw_Pol", "Ksw_StoLin"]
contract(SOL + "water_stress.py", "water_stress",
         params=dict(Crop_p_up=ARR("Real", 4), Crop_p_lo=ARR("Real", 4), Crop_ETadj="Int", Crop_beta="Real",
                     Crop_fshape_w=ARR("Real", 4), InitCond_tEarlySen="Real", Dr="Real", taw="Real", et0="Real", beta="Bool"),
         requires=["forall(k, 0, 4, 0 <= Crop_p_up[k] and Crop_p_up[k] <= 1)",
                   "forall(k, 0, 4, 0 <= Crop_p_lo[k] and Crop_p_lo[k] <= 1)",
                   "forall(k, 0, 3, Crop_fshape_w[k] != 0)",
                   "taw >= 0"],
         returns=[(n, "Real") for n in _KS],
         ensures=[("C17.ks_range_%s" % n, "0 <= %s and %s <= 1" % (n, n)) for n in _KS],
         options=dict(relational=[dict(vary=["Dr"], pre="Dr_1 <= Dr_2",
                                       post=[("C17.ks_monotone_%s" % n, "%s_1 >= %s_2" % (n, n)) for n in _KS],
                                       split=[])]),
         props=("C17", "C04", "C16"))

# ----------------------------------------------------------------------------- temperature_stress
contract(SOL + "temperature_stress.py", "temperature_stress",
         params=dict(Crop=OBJ("Crop"), temp_max="Real", temp_min="Real"),
         requires=["Crop.PolHeatStress == 0 or Crop.PolHeatStress == 1", "Crop.PolColdStress == 0 or Crop.PolColdStress == 1",
                   "Crop.Tmin_lo < Crop.Tmin_up", "Crop.fshape_b >= 0"],
         returns=[("Kst_PolH", "Real"), ("Kst_PolC", "Real")],
         ensures=[("C17.kst_heat_range", "0 <= Kst_PolH and Kst_PolH <= 1"),
                  ("C17.kst_cold_range", "0 <= Kst_PolC and Kst_PolC <= 1")],
         options=dict(relational=[dict(vary=["temp_max"], pre="temp_max_1 <= temp_max_2", post=[("C17.kst_heat_monotone", "Kst_PolH_1 >= Kst_PolH_2")]),
                                  dict(vary=["temp_min"], pre="temp_min_1 <= temp_min_2", post=[("C17.kst_cold_monotone", "Kst_PolC_1 <= Kst_PolC_2")])]),
         props=("C17", "C16"))

# gdd monotone in both temperatures
from vc.spec import REGISTRY as _R
_R.lookup(SOL + "growing_degree_day.py", "growing_degree_day").options["relational"] = [
    dict(vary=["temp_max", "temp_min"], pre="temp_max_1 <= temp_max_2 and temp_min_1 <= temp_min_2", post=[("C17.gdd_monotone", "gdd_1 <= gdd_2")])]

# ----------------------------------------------------------------------------- cc_development / cc_required_time
_CCD = dict(CCo="Real", CCx="Real", CGC="Real", CDC="Real", dt="Real", Mode="Str", CCx0="Real")
contract(SOL + "cc_development.py", "cc_development",
         params=_CCD,
         cases=[dict(Mode="Growth"), dict(Mode="Decline")],
         requires=["CCo > 0", "0 <= CCx and CCx <= 1", "CGC >= 0", "CDC >= 0", "dt >= 0", "CCx0 >= 0"],
         returns=[("canopy_cover", "Real")],
         ensures=[("C17.cc_range", "0 <= canopy_cover and canopy_cover <= CCx")],
         options=dict(relational=[dict(vary=["dt"], pre="dt_1 <= dt_2",
                                       post=[("C17.cc_monotone", "ite(Mode == 'Growth', canopy_cover_1 <= canopy_cover_2, canopy_cover_1 >= canopy_cover_2)")])]),
         props=("C17", "C05", "C16"))

contract(SOL + "cc_required_time.py", "cc_required_time",
         params=dict(cc_prev="Real", CCo="Real", CCx="Real", CGC="Real", CDC="Real", Mode="Str"),
         cases=[dict(Mode="CGC"), dict(Mode="CDC")],
         requires=["CCo > 0", "CCx > 0", "cc_prev > 0", "cc_prev < CCx", "CGC > 0", "CDC > 0"],
         returns=[("tReq", "Real")],
         ensures=[],
         props=("C17", "C16"))

contract("<harness>", "cc_growth_inversion",
         params=dict(c="Real", CCo="Real", CCx="Real", CGC="Real", CDC="Real", CCx0="Real"),
         requires=["CCo > 0", "CCo <= c", "c < CCx", "CCx <= 1", "CGC > 0", "CDC > 0", "CCx0 >= 0"],
         returns=[("cc", "Real")],
         ensures=[("C17.cc_inversion", "cc == c")],
         options=dict(harness_src='''
def cc_growth_inversion(c, CCo, CCx, CGC, CDC, CCx0):
    t = cc_required_time(c, CCo, CCx, CGC, CDC, "CGC")
    return cc_development(CCo, CCx, CGC, CDC, t, "Growth", CCx0)
''', harness_imports={"cc_required_time": (SOL + "cc_required_time.py", "cc_required_time"),
                      "cc_development": (SOL + "cc_development.py", "cc_development")},
                      inline=("cc_required_time", "cc_development")),
         props=("C17",), note="harness over the two real functions, both inlined from /repo source")

# ----------------------------------------------------------------------------- aeration_stress
declare_fields("RootZoneWater", default="Real")
contract(SOL + "aeration_stress.py", "aeration_stress",
         params=dict(NewCond_AerDays="Real", Crop_LagAer="Int", thRZ=OBJ("RootZoneWater")),
         requires=["NewCond_AerDays >= 0", "NewCond_AerDays <= Crop_LagAer", "Crop_LagAer >= 1",
                   "thRZ.Act <= thRZ.S"],
         returns=[("Ksa_Aer", "Real"), ("AerDays", "Real")],
         ensures=[("C04.ksa_le_1", "Ksa_Aer <= 1"),
                  # the factor 3 is hard-coded: for a lag above 3 days the coefficient goes negative (callers treat it like 0)
                  ("C04.ksa_nonneg", "implies(Crop_LagAer <= 3 or NewCond_AerDays <= 3, 0 <= Ksa_Aer)"),
                  ("C04.aerdays_range", "0 <= AerDays and AerDays <= Crop_LagAer")],
         props=("C17", "C04", "C16"))
