"""Composition: the daily step solution_single_time_step over the callee contracts (modular), clock functions, run loop."""
from vc.spec import contract, ARR, OBJ, declare_fields
import contracts.scalar
import contracts.water as W
import contracts.cropfn

TS = "aquacrop/timestep/"

declare_fields("Soil", default="Real", Profile=OBJ("SoilProfile"), adj_cn="Int", nComp="Int", nLayer="Int", calc_cn="Int", adj_rew="Int")
declare_fields("ParamStruct", default="Real", Soil=OBJ("Soil"), CO2=OBJ("CO2"), water_table="Int", z_gw=ARR("Real", "n_steps"),
               Seasonal_Crop_List=OBJ("List[Crop]"), CropChoices=OBJ("List[Opaque]"), Fallow_Crop=OBJ("Crop"),
               IrrMngt=OBJ("IrrMngtStruct"), FallowIrrMngt=OBJ("IrrMngtStruct"), FieldMngt=OBJ("FieldMngtStruct"), FallowFieldMngt=OBJ("FieldMngtStruct"))
declare_fields("ClockStruct", default="Int", sim_off_season="Bool", model_is_finished="Bool",
               planting_dates=ARR("Int", "n_seasons"), harvest_dates=ARR("Int", "n_seasons"), time_span=ARR("Int", "n_steps"))
declare_fields("Output", default="Real", water_storage=("Table",), water_flux=("Table",), crop_growth=("Table",), final_stats=("Table",))

P = "param_struct.Soil.Profile"
SOILO = "param_struct.Soil"
IC = "init_cond"
SC = "clock_struct.season_counter"


def VALID_CROP(c):
    return [
        "{c}.GDDmethod == 1 or {c}.GDDmethod == 2 or {c}.GDDmethod == 3", "{c}.Tbase < {c}.Tupp",
        "{c}.CalendarType == 1 or {c}.CalendarType == 2",
        "{c}.Zmin >= 0.02", "{c}.Aer >= 1 or {c}.Aer <= 0", "{c}.Aer <= 100",
        "forall(k, 0, 4, 0 <= {c}.p_up[k] and {c}.p_up[k] <= 1)", "forall(k, 0, 4, 0 <= {c}.p_lo[k] and {c}.p_lo[k] <= 1)",
        "forall(k, 0, 3, {c}.fshape_w[k] != 0)", "{c}.p_up[1] < {c}.p_lo[1]",
        "0 < {c}.CC0 and {c}.CC0 < {c}.CCx and {c}.CCx <= 1", "{c}.CGC > 0", "{c}.CDC > 0",
        "{c}.Kcb >= 0", "{c}.fage >= 0", "{c}.a_Tr > 0",
        "{c}.TrColdStress == 0 or {c}.TrColdStress == 1", "implies({c}.TrColdStress == 1, {c}.GDD_lo < {c}.GDD_up)", "{c}.ETadj == 0 or {c}.ETadj == 1",
        "{c}.LagAer >= 2", "{c}.SxTop >= 0 and {c}.SxBot >= 0",
        "{c}.PolHeatStress == 0 or {c}.PolHeatStress == 1", "{c}.PolColdStress == 0 or {c}.PolColdStress == 1",
        "{c}.Tmin_lo < {c}.Tmin_up", "{c}.fshape_b >= 0",
        "{c}.CropType == 1 or {c}.CropType == 2 or {c}.CropType == 3",
        "{c}.HI0 >= 0", "{c}.dHI0 >= -100", "{c}.FloweringCD > 0", "implies({c}.dHI_pre > 0, {c}.dHI_pre > 1)", "{c}.exc >= -100",
        "0 < {c}.HIini and {c}.HIini < {c}.HI0", "{c}.HIGC >= 0", "{c}.dHILinear >= 0", "{c}.tLinSwitch >= 0",
        "{c}.WP >= 0", "0 <= {c}.WPy and {c}.WPy <= 100", "{c}.fCO2 >= 0", "{c}.YldFormCD > 0", "{c}.YldWC > 0",
        "{c}.PlantMethod == 0 or {c}.PlantMethod == 1",
    ]


def fmt(lst, **kw):
    return [x.format(**kw) for x in lst]


def VALID_IRR(i):
    return fmt(["0 <= {i}.irrigation_method and {i}.irrigation_method <= 5", "0 <= {i}.AppEff and {i}.AppEff <= 100", "{i}.MaxIrr >= 0",
                "{i}.MaxIrrSeason >= 0", "{i}.depth >= 0", "implies({i}.irrigation_method == 2, {i}.IrrInterval >= 1)",
                "forall(k, 0, n_steps, {i}.Schedule[k] >= 0)", "0 <= {i}.NetIrrSMT and {i}.NetIrrSMT <= 100", "0 <= {i}.WetSurf and {i}.WetSurf <= 100"], i=i)


def VALID_FIELD(f):
    return fmt(["0 <= {f}.f_mulch and {f}.f_mulch <= 1", "0 <= {f}.mulch_pct and {f}.mulch_pct <= 100", "{f}.z_bund >= 0",
                "1 <= {s}.cn * (1 + ite({f}.curve_number_adj, {f}.curve_number_adj_pct, 0) / 100) and {s}.cn * (1 + ite({f}.curve_number_adj, {f}.curve_number_adj_pct, 0) / 100) <= 100",
                "implies({f}.bunds and {f}.z_bund > 0.001, {ic}.surface_storage <= {f}.z_bund)"], f=f, s=SOILO, ic=IC)


CROP_S = "param_struct.Seasonal_Crop_List[clock_struct.season_counter]"
CROP_F = "param_struct.Fallow_Crop"

STEP_REQ = (
    W.WF(P) + W.WF_LAYER(P) + [w.replace("prof", P) for w in W.WF_ZMID] + [
        "n >= 2", "length(%s.Comp) == n" % P, "%s.nComp == n" % SOILO, "%s.Layer[n-1] == %s.nLayer" % (P, SOILO),
        "forall(j, 0, n, {p}.dz[j] >= 0.01)".format(p=P), "forall(j, 0, n, {p}.th_fc[j] - {p}.th_wp[j] >= 0.01)".format(p=P),
        "implies(param_struct.water_table == 1, forall(j, 0, n, %s.aCR[j] != 0))" % P,
        "param_struct.water_table == 0 or param_struct.water_table == 1",
        "implies(param_struct.water_table == 1, forall(k, 0, n_steps, param_struct.z_gw[k] >= 0))",
        # clock
        "0 <= clock_struct.time_step_counter and clock_struct.time_step_counter < n_steps",
        "-1 <= %s and %s < n_seasons" % (SC, SC), "clock_struct.evap_time_steps >= 1",
        # weather of the day (prepare_weather clips ET0 at 0.1)
        "length(weather_step) == 5 or True", "weather_step[2] >= 0", "weather_step[3] >= 0",
        # soil parameters (valid_soil)
        "{s}.adj_cn == 0 or {s}.adj_cn == 1".format(s=SOILO), "0 < {s}.z_cn and {s}.z_cn <= {p}.dzsum[n-1]".format(s=SOILO, p=P),
        "{s}.z_top >= 0.01".format(s=SOILO),
        "0.01 <= {s}.z_germ and {s}.z_germ <= {p}.dzsum[n-1]".format(s=SOILO, p=P),
        "0 < {s}.evap_z_min and {s}.evap_z_min <= {s}.evap_z_max and {s}.evap_z_max + 0.001 <= {p}.dzsum[n-2]".format(s=SOILO, p=P),
        "gmin > 0", "forall(j, 0, n, {p}.th_fc[j] - {p}.th_dry[j] >= gmin)".format(p=P),
        "0 <= {s}.rew and {s}.rew < 1000 * gmin * {s}.evap_z_min".format(s=SOILO),
        "{s}.kex >= 0 and 0 <= {s}.fwcc and {s}.fwcc <= 100 and {s}.f_evap > 0".format(s=SOILO),
        "{s}.kex * weather_step[3] <= clock_struct.evap_time_steps * (1000 * gmin * {s}.evap_z_min - {s}.rew)".format(s=SOILO),
        # water state (water_inv) and evaporation state
        W.WATER_INV(IC + ".th", P),
        "forall(j, 0, n, {p}.th_fc[j] <= {ic}.th_fc_Adj[j] and {ic}.th_fc_Adj[j] <= {p}.th_s[j])".format(p=P, ic=IC),
        "{ic}.surface_storage >= 0".format(ic=IC), "{ic}.w_surf >= 0 and {ic}.w_stage_2 >= 0".format(ic=IC),
        "{s}.evap_z_min <= {ic}.evap_z and {ic}.evap_z <= {s}.evap_z_max + 0.001".format(s=SOILO, ic=IC),
        # crop state
        "{ic}.dap >= 0 and {ic}.delayed_cds >= 0 and {ic}.day_submerged >= 0 and {ic}.irr_cum >= 0".format(ic=IC),
        "implies({ic}.dap >= 1, 1 <= {ic}.growth_stage and {ic}.growth_stage <= 4)".format(ic=IC),
        "forall(j, 0, n, {ic}.aer_days_comp[j] >= 0)".format(ic=IC), "{ic}.aer_days >= 0".format(ic=IC),
        "{ic}.canopy_cover >= 0 and {ic}.canopy_cover_ns >= 0 and {ic}.cc0_adj >= 0 and {ic}.ccx_act_ns >= 0 and {ic}.ccx_w >= 0 and {ic}.ccx_w_ns >= 0 and {ic}.ccx_early_sen >= 0 and {ic}.t_early_sen >= 0".format(ic=IC),
        "0 <= {ic}.f_pol and {ic}.f_pol <= 1 and {ic}.biomass >= 0 and {ic}.biomass_ns >= 0".format(ic=IC),
        "0 <= {ic}.pct_lag_phase and {ic}.pct_lag_phase <= 100".format(ic=IC), "{ic}.r_cor >= 0 and {ic}.tr_ratio >= 0 and {ic}.z_root >= 0".format(ic=IC),
        "{ic}.canopy_cover <= 1 and {ic}.canopy_cover_ns <= 1 and {ic}.ccx_w <= 1 and {ic}.ccx_w_ns <= 1 and {ic}.ccx_act_ns <= 1".format(ic=IC),
        # season-crop related state (only meaningful once a season has started)
        "implies({sc} >= 0, 0 <= {ic}.HIfinal and {ic}.HIfinal <= {c}.HI0 and 0 <= {ic}.hi_ref and {ic}.hi_ref <= {c}.HI0)".format(sc=SC, ic=IC, c=CROP_S),
        "implies({sc} >= 0, {ic}.harvest_index <= {c}.HI0 and {ic}.harvest_index_adj <= {c}.HI0 * (1 + max({c}.dHI0, 0) / 100))".format(sc=SC, ic=IC, c=CROP_S),
        "implies({sc} >= 0, {ic}.aer_days <= {c}.LagAer and {ic}.cc0_adj <= {c}.CC0)".format(sc=SC, ic=IC, c=CROP_S),
        "implies({sc} >= 0 and {ic}.hi_ref > 0, {ic}.dap - {ic}.delayed_cds - {c}.HIstartCD - 1 > 0)".format(sc=SC, ic=IC, c=CROP_S),
        # valid_crop + calendar + weather assumptions on dynamic quantities (bounded checks only):
        #   the aged crop coefficient stays non-negative over the season; the exponential canopy start stays a fraction
        "implies({sc} >= 0, {c}.Kcb - (max({ic}.dap + 1 - {ic}.delayed_cds - {c}.MaxCanopyCD, {ic}.age_days, {ic}.age_days_ns) - 5) * ({c}.fage / 100) >= 0)".format(sc=SC, ic=IC, c=CROP_S),
        "implies({sc} >= 0, {c}.CC0 * exp({c}.CGC * ite({c}.CalendarType == 1, 1, {c}.Tupp - {c}.Tbase)) <= 1)".format(sc=SC, c=CROP_S),
        "param_struct.CO2.ref_concentration < 550 and param_struct.CO2.current_concentration - param_struct.CO2.ref_concentration <= 20 * (550 - param_struct.CO2.ref_concentration)",
    ]
    + VALID_IRR("param_struct.IrrMngt") + VALID_IRR("param_struct.FallowIrrMngt")
    + VALID_FIELD("param_struct.FieldMngt") + VALID_FIELD("param_struct.FallowFieldMngt")
    + ["implies(%s >= 0, %s)" % (SC, x) for x in fmt(VALID_CROP("{c}"), c=CROP_S)]
    + [x for x in fmt(VALID_CROP("{c}"), c=CROP_F) if ".Zmin" not in x and ".Aer" not in x]
)

_ROW = "written(outputs.water_flux, 0)[1]"
_S = lambda th: "wsum(%s.dz, %s, n)" % (P, th)
contract(TS + "run_single_timestep.py", "solution_single_time_step",
         params=dict(init_cond=OBJ("InitialCondition"), param_struct=OBJ("ParamStruct"), clock_struct=OBJ("ClockStruct"),
                     weather_step=ARR("Real", 5), outputs=OBJ("Output")),
         ghost=dict(n="Int", n_steps="Int", n_seasons="Int", gmin="Real"),
         requires=STEP_REQ,
         returns=[("NewCond", ("Param", "init_cond")), ("ps", ("Param", "param_struct")), ("outs", ("Param", "outputs"))],
         ensures=[
             ("C01.step_water_balance",
              "abs((%s + NewCond.surface_storage - old(%s) - old(init_cond.surface_storage)) - "
              "({r}[7] + ite(NewCond.growing_season and ite(%s >= 0, param_struct.IrrMngt.irrigation_method, param_struct.FallowIrrMngt.irrigation_method) == 4, {r}[6], 0) "
              "+ {r}[10] + {r}[11] - {r}[9] - {r}[12] - {r}[14])) <= 0.05 * %s.dzsum[n-1]".replace("{r}", _ROW)
              % (_S("NewCond.th"), _S("init_cond.th"), SC, P)),
             ("C03.step_water_inv", W.WATER_INV("NewCond.th", P)),
             ("C03.step_ponding_nonneg", "NewCond.surface_storage >= 0"),
             # state facts root_development starts from on the next day (inductive part of the step's own precondition)
             ("C05.step_root_state_inductive", "NewCond.tr_ratio >= 0 and NewCond.z_root >= 0 and NewCond.r_cor >= 0"),
             # the ponding limit is that of the field management in force on this day (the crop's in season, the fallow one otherwise)
             ("C03.step_ponding_le_bund_in_force", "implies(NewCond.growing_season, NewCond.surface_storage <= ite(param_struct.FieldMngt.bunds and param_struct.FieldMngt.z_bund > 0.001, param_struct.FieldMngt.z_bund, 0)) and "
                                                   "implies(not NewCond.growing_season, NewCond.surface_storage <= ite(param_struct.FallowFieldMngt.bunds and param_struct.FallowFieldMngt.z_bund > 0.001, param_struct.FallowFieldMngt.z_bund, 0))"),
             ("C03.step_root_zone_storage_nonneg", "written(outputs.water_flux, 0)[1][3] >= 0"),
             ("C03.step_fcadj_range", "forall(j, 0, n, param_struct.Soil.Profile.th_fc[j] <= NewCond.th_fc_Adj[j] and NewCond.th_fc_Adj[j] <= param_struct.Soil.Profile.th_s[j])"),
             ("C07.step_row_index", "written(outputs.water_flux, 0)[0] == clock_struct.time_step_counter and written(outputs.water_flux, 0)[1][0] == clock_struct.time_step_counter"),
             ("C07.step_rows_all_tables", "written(outputs.crop_growth, 0)[0] == clock_struct.time_step_counter and written(outputs.crop_growth, 0)[1][0] == clock_struct.time_step_counter "
                                          "and written(outputs.water_storage, 0)[0] == clock_struct.time_step_counter and nwrites(outputs.water_flux) == 1 and nwrites(outputs.crop_growth) == 1"),
             ("C07.step_dap_counts", "NewCond.dap == ite(NewCond.growing_season, old(init_cond.dap) + 1, 0) and written(outputs.water_flux, 0)[1][2] == NewCond.dap and written(outputs.crop_growth, 0)[1][2] == NewCond.dap"),
             ("C07.step_growing_season_def", "NewCond.growing_season == (clock_struct.season_counter >= 0 and clock_struct.planting_dates[clock_struct.season_counter] <= clock_struct.step_start_time and "
                                             "clock_struct.harvest_dates[clock_struct.season_counter] >= clock_struct.step_start_time and not old(init_cond.crop_mature) and not old(init_cond.crop_dead))"),
             ("C02.step_partition", "written(outputs.water_flux, 0)[1][7] + written(outputs.water_flux, 0)[1][8] == weather_step[2] + ite(NewCond.growing_season and ite(clock_struct.season_counter >= 0, param_struct.IrrMngt.irrigation_method, param_struct.FallowIrrMngt.irrigation_method) != 4, written(outputs.water_flux, 0)[1][6] * (ite(clock_struct.season_counter >= 0, param_struct.IrrMngt.AppEff, param_struct.FallowIrrMngt.AppEff) / 100), 0)"),
             ("C02.step_runoff_bounds", "0 <= written(outputs.water_flux, 0)[1][8] and written(outputs.water_flux, 0)[1][8] <= weather_step[2] + ite(NewCond.growing_season and ite(clock_struct.season_counter >= 0, param_struct.IrrMngt.irrigation_method, param_struct.FallowIrrMngt.irrigation_method) != 4, written(outputs.water_flux, 0)[1][6] * (ite(clock_struct.season_counter >= 0, param_struct.IrrMngt.AppEff, param_struct.FallowIrrMngt.AppEff) / 100), 0) + old(init_cond.surface_storage)"),
             ("C02.step_infiltration_lower", "written(outputs.water_flux, 0)[1][7] >= -old(init_cond.surface_storage)"),
             ("C04.step_flux_signs", "written(outputs.water_flux, 0)[1][8] >= 0 and written(outputs.water_flux, 0)[1][9] >= 0 and written(outputs.water_flux, 0)[1][10] >= 0 and written(outputs.water_flux, 0)[1][11] >= 0 and written(outputs.water_flux, 0)[1][12] >= 0 and written(outputs.water_flux, 0)[1][13] >= 0 and written(outputs.water_flux, 0)[1][14] >= 0 and written(outputs.water_flux, 0)[1][15] >= 0"),
             ("C04.step_actual_le_potential", "written(outputs.water_flux, 0)[1][12] <= written(outputs.water_flux, 0)[1][13] and written(outputs.water_flux, 0)[1][14] <= written(outputs.water_flux, 0)[1][15]"),
             ("C04.step_irrigation_nonneg", "implies(ite(clock_struct.season_counter >= 0, param_struct.IrrMngt.irrigation_method, param_struct.FallowIrrMngt.irrigation_method) != 4 or not NewCond.growing_season, written(outputs.water_flux, 0)[1][6] >= 0)"),
             ("C04.step_zero_out_of_season", "implies(not NewCond.growing_season, written(outputs.water_flux, 0)[1][14] == 0 and written(outputs.water_flux, 0)[1][15] == 0 and written(outputs.water_flux, 0)[1][6] == 0)"),
             ("C05.step_gdd", "implies(NewCond.growing_season, 0 <= written(outputs.crop_growth, 0)[1][3] and written(outputs.crop_growth, 0)[1][3] <= param_struct.Seasonal_Crop_List[clock_struct.season_counter].Tupp - param_struct.Seasonal_Crop_List[clock_struct.season_counter].Tbase and NewCond.gdd_cum == old(init_cond.gdd_cum) + written(outputs.crop_growth, 0)[1][3] and written(outputs.crop_growth, 0)[1][4] == NewCond.gdd_cum)"),
             ("C05.step_zero_out_of_season", "implies(not NewCond.growing_season, NewCond.dap == 0 and NewCond.canopy_cover == 0 and NewCond.biomass == 0 and NewCond.DryYield == 0 and NewCond.FreshYield == 0 and NewCond.gdd_cum == 0)"),
             ("C05.step_canopy", "0 <= NewCond.canopy_cover and NewCond.canopy_cover <= NewCond.canopy_cover_ns and written(outputs.crop_growth, 0)[1][6] == NewCond.canopy_cover and written(outputs.crop_growth, 0)[1][7] == NewCond.canopy_cover_ns"),
             ("C05.step_biomass_nondecreasing", "implies(NewCond.growing_season, NewCond.biomass >= old(init_cond.biomass) and NewCond.biomass_ns >= old(init_cond.biomass_ns))"),
             ("C05.step_hi_envelope", "implies(NewCond.growing_season, NewCond.harvest_index <= param_struct.Seasonal_Crop_List[clock_struct.season_counter].HI0 and NewCond.harvest_index_adj <= param_struct.Seasonal_Crop_List[clock_struct.season_counter].HI0 * (1 + max(param_struct.Seasonal_Crop_List[clock_struct.season_counter].dHI0, 0) / 100))"),
             ("C06.step_yields", "implies(NewCond.growing_season, NewCond.DryYield == NewCond.biomass / 100 * NewCond.harvest_index_adj and "
                                 "NewCond.FreshYield == NewCond.DryYield / (param_struct.Seasonal_Crop_List[clock_struct.season_counter].YldWC / 100)) and NewCond.YieldPot == NewCond.biomass_ns / 100 * NewCond.harvest_index"),
             ("C06.step_yield_row", "written(outputs.crop_growth, 0)[1][8] == NewCond.biomass and written(outputs.crop_growth, 0)[1][9] == NewCond.biomass_ns and written(outputs.crop_growth, 0)[1][10] == NewCond.harvest_index and written(outputs.crop_growth, 0)[1][11] == NewCond.harvest_index_adj and "
                                    "written(outputs.crop_growth, 0)[1][12] == NewCond.DryYield and written(outputs.crop_growth, 0)[1][13] == NewCond.FreshYield and written(outputs.crop_growth, 0)[1][14] == NewCond.YieldPot"),
             ("C06.step_biomass_gain", "implies(NewCond.growing_season and weather_step[3] > 0, NewCond.biomass - old(init_cond.biomass) <= param_struct.Seasonal_Crop_List[clock_struct.season_counter].WP * param_struct.Seasonal_Crop_List[clock_struct.season_counter].fCO2 * (written(outputs.water_flux, 0)[1][14] / weather_step[3]) and "
                                       "NewCond.biomass - old(init_cond.biomass) >= param_struct.Seasonal_Crop_List[clock_struct.season_counter].WP * (param_struct.Seasonal_Crop_List[clock_struct.season_counter].WPy / 100) * param_struct.Seasonal_Crop_List[clock_struct.season_counter].fCO2 * (written(outputs.water_flux, 0)[1][14] / weather_step[3]))"),
             ("C06.step_seasonal_irrigation", "implies(NewCond.growing_season, ite(ite(clock_struct.season_counter >= 0, param_struct.IrrMngt.irrigation_method, param_struct.FallowIrrMngt.irrigation_method) == 4, NewCond.irr_net_cum == old(init_cond.irr_net_cum) + written(outputs.water_flux, 0)[1][6], NewCond.irr_cum == old(init_cond.irr_cum) + written(outputs.water_flux, 0)[1][6]))"),
             ("C13.step_irrigation_limits", "implies(NewCond.growing_season and ite(clock_struct.season_counter >= 0, param_struct.IrrMngt.irrigation_method, param_struct.FallowIrrMngt.irrigation_method) != 4, written(outputs.water_flux, 0)[1][6] <= param_struct.IrrMngt.MaxIrr and NewCond.irr_cum <= max(param_struct.IrrMngt.MaxIrrSeason, old(init_cond.irr_cum)))"),
             ("C13.step_rainfed_none", "implies(ite(clock_struct.season_counter >= 0, param_struct.IrrMngt.irrigation_method, param_struct.FallowIrrMngt.irrigation_method) == 0 or not NewCond.growing_season, written(outputs.water_flux, 0)[1][6] == 0)"),
             # C06: the seasonal summary row is written exactly when the harvest flag is raised (once per season, at index season_counter) and
             # repeats the daily values of that day
             ("C06.step_summary_row_iff_harvest", "nwrites(outputs.final_stats) == ite(NewCond.harvest_flag and not old(init_cond.harvest_flag), 1, 0) and "
                                                  "implies(old(init_cond.harvest_flag), NewCond.harvest_flag) and implies(NewCond.harvest_flag and not old(init_cond.harvest_flag), clock_struct.season_counter >= 0)"),
             ("C06.step_summary_row_values", "implies(nwrites(outputs.final_stats) == 1, "
                                             "written(outputs.final_stats, 0)[0] == clock_struct.season_counter and written(outputs.final_stats, 0)[1][0] == clock_struct.season_counter and "
                                             "written(outputs.final_stats, 0)[1][2] == clock_struct.step_end_time and written(outputs.final_stats, 0)[1][3] == clock_struct.time_step_counter and "
                                             "written(outputs.final_stats, 0)[1][4] == NewCond.DryYield and written(outputs.final_stats, 0)[1][5] == NewCond.FreshYield and "
                                             "written(outputs.final_stats, 0)[1][6] == NewCond.YieldPot and "
                                             "written(outputs.final_stats, 0)[1][4] == written(outputs.crop_growth, 0)[1][12] and written(outputs.final_stats, 0)[1][5] == written(outputs.crop_growth, 0)[1][13] and "
                                             "written(outputs.final_stats, 0)[1][6] == written(outputs.crop_growth, 0)[1][14] and "
                                             "written(outputs.final_stats, 0)[1][7] == ite(ite(clock_struct.season_counter >= 0, param_struct.IrrMngt.irrigation_method, param_struct.FallowIrrMngt.irrigation_method) == 4, NewCond.irr_net_cum, NewCond.irr_cum))"),
             ("C20.step_irrigation_neutral", "implies(NewCond.growing_season and clock_struct.season_counter >= 0 and param_struct.IrrMngt.irrigation_method != 4 and "
              "(param_struct.IrrMngt.MaxIrr == 0 or (param_struct.IrrMngt.MaxIrrSeason == 0 and old(init_cond.irr_cum) == 0) or "
              "(param_struct.IrrMngt.irrigation_method == 5 and param_struct.IrrMngt.depth == 0) or "
              "(param_struct.IrrMngt.irrigation_method == 3 and param_struct.IrrMngt.Schedule[clock_struct.time_step_counter] == 0)), "
              "written(outputs.water_flux, 0)[1][6] == 0 and NewCond.irr_cum == old(init_cond.irr_cum))"),
             ("C19.step_no_table", "implies(param_struct.water_table == 0, written(outputs.water_flux, 0)[1][10] == 0 and written(outputs.water_flux, 0)[1][11] == 0)"),
             ("C19.step_table_depth", "implies(param_struct.water_table == 1, written(outputs.water_flux, 0)[1][4] == param_struct.z_gw[clock_struct.time_step_counter] and NewCond.z_gw == written(outputs.water_flux, 0)[1][4])"),
             ("C19.step_saturated_below_table", "implies(param_struct.water_table == 1, forall(j, 0, n, implies(param_struct.Soil.Profile.zMid[j] >= NewCond.z_gw, NewCond.th[j] == param_struct.Soil.Profile.th_s[j])))"),
             ("C07.step_maturity_flag", "implies(NewCond.growing_season and not old(init_cond.crop_mature), NewCond.crop_mature == "
                                        "((param_struct.Seasonal_Crop_List[clock_struct.season_counter].CalendarType == 1 and NewCond.dap >= param_struct.Seasonal_Crop_List[clock_struct.season_counter].Maturity) or (param_struct.Seasonal_Crop_List[clock_struct.season_counter].CalendarType == 2 and NewCond.gdd_cum >= param_struct.Seasonal_Crop_List[clock_struct.season_counter].Maturity)))"),
         ],
         assigns=["init_cond.**", "outputs.**", "param_struct.Fallow_Crop.Aer", "param_struct.Fallow_Crop.Zmin"],
         options=dict(merge_limit=None, table_cols=dict(water_flux=16, crop_growth=15, water_storage=3),
                      # calculation scheme of one day (reference manual ch. 3 / the numbered comments of the function): each process sees the
                      # state left by the processes before it. Checked on the call sites of the current source (kind call_order).
                      call_precedence=[("check_groundwater_table", "root_development"), ("root_development", "pre_irrigation"), ("pre_irrigation", "drainage"),
                                       ("drainage", "rainfall_partition"), ("rainfall_partition", "irrigation"), ("irrigation", "infiltration"),
                                       ("infiltration", "capillary_rise"), ("capillary_rise", "germination"), ("germination", "growth_stage"),
                                       ("growth_stage", "canopy_cover"), ("canopy_cover", "soil_evaporation"), ("soil_evaporation", "transpiration"),
                                       ("transpiration", "groundwater_inflow"), ("groundwater_inflow", "biomass_accumulation"),
                                       ("biomass_accumulation", "harvest_index")]),
         props=("C01", "C02", "C03", "C04", "C05", "C06", "C07", "C08", "C12", "C13", "C19", "C16"))

# ----------------------------------------------------------------------------- check_model_is_finished
contract(TS + "check_if_model_is_finished.py", "check_model_is_finished",
         params=dict(step_end_time="Int", simulation_end_date="Int", model_is_finished="Bool", season_counter="Int", n_seasons="Int", harvest_flag="Bool"),
         returns=[("finished", "Bool")],
         ensures=[("C07.finished_def", "finished == (step_end_time >= simulation_end_date or (harvest_flag and season_counter == n_seasons - 1))")],
         props=("C07", "C09", "C16"))

def _reset_assigns():
    """frame of the trusted reset contract, derived from the current source: every `InitCond.<field> = ...` target of the function"""
    import ast, os
    from vc.interp import REPO
    tree = ast.parse(open(os.path.join(REPO, TS + "reset_initial_conditions.py")).read())
    out = []
    for n in ast.walk(tree):
        if isinstance(n, ast.Assign):
            for t in n.targets:
                if isinstance(t, ast.Attribute) and isinstance(t.value, ast.Name) and t.value.id == "InitCond" and ("InitCond." + t.attr) not in out:
                    out.append("InitCond." + t.attr)
    return out


# ----------------------------------------------------------------------------- reset_initial_conditions (TRUSTED: numpy/pandas vector code)
contract(TS + "reset_initial_conditions.py", "reset_initial_conditions",
         params=dict(ClockStruct=OBJ("ClockStruct"), InitCond=OBJ("InitialCondition"), ParamStruct=OBJ("ParamStruct"), weather=("Opaque"), crop=OBJ("Crop")),
         returns=[("NewCond", ("Param", "InitCond")), ("ps", ("Param", "ParamStruct"))],
         ensures=[("C07.reset_counters", "NewCond.dap == 0 and not NewCond.harvest_flag and not NewCond.crop_mature and not NewCond.crop_dead and NewCond.irr_cum == 0 and NewCond.irr_net_cum == 0 and NewCond.gdd_cum == 0")],
         assigns=_reset_assigns(),
         trusted=True,
         note="summary used at update_time's call site: its frame is derived from the source on every run and its only clause is re-proved verbatim on the real body (reset_initial_conditions#body: C07.refines_summary.reset_counters)",
         props=("C07", "C08"))

# ----------------------------------------------------------------------------- update_time
_CLK = "clock_struct"
CLOCK_AX = [
    "n_steps >= 2", "forall(i, 0, n_steps, {c}.time_span[i] == {c}.time_span[0] + i)".format(c=_CLK),
    "0 <= {c}.time_step_counter and {c}.time_step_counter + 1 <= n_steps - 1".format(c=_CLK),
    "{c}.step_start_time == {c}.time_span[{c}.time_step_counter] and {c}.step_end_time == {c}.time_span[{c}.time_step_counter + 1]".format(c=_CLK),
    "{c}.simulation_end_date == {c}.time_span[n_steps - 1]".format(c=_CLK),
    "-1 <= {c}.season_counter and {c}.season_counter < {c}.n_seasons and {c}.n_seasons == n_seasons".format(c=_CLK),
    # schedule (established by the pandas initialisers: assumed, bounded C07 check): strictly increasing planting dates inside the calendar,
    # each strictly before the end date; the next one lies after today
    "forall(k, 0, n_seasons - 1, {c}.planting_dates[k] < {c}.planting_dates[k+1])".format(c=_CLK),
    "forall(k, 0, n_seasons, {c}.time_span[0] <= {c}.planting_dates[k] and {c}.planting_dates[k] < {c}.simulation_end_date)".format(c=_CLK),
    "implies({c}.season_counter + 1 < n_seasons, {c}.planting_dates[{c}.season_counter + 1] > {c}.step_start_time)".format(c=_CLK),
]
contract(TS + "update_time.py", "update_time",
         params=dict(clock_struct=OBJ("ClockStruct"), init_cond=OBJ("InitialCondition"), param_struct=OBJ("ParamStruct"), weather=("Opaque"), crop=OBJ("Crop")),
         ghost=dict(n_steps="Int", n_seasons="Int"),
         requires=CLOCK_AX + [
             "{c}.model_is_finished == ({c}.step_end_time >= {c}.simulation_end_date or (init_cond.harvest_flag and {c}.season_counter == n_seasons - 1))".format(c=_CLK),
         ],
         returns=[("clk", ("Param", "clock_struct")), ("cond", ("Param", "init_cond")), ("ps", ("Param", "param_struct"))],
         ensures=[
             ("C07.update_time_finished_is_noop", "implies(old({c}.model_is_finished), {c}.time_step_counter == old({c}.time_step_counter) and {c}.season_counter == old({c}.season_counter))".format(c=_CLK)),
             ("C07.update_time_finished_keeps_harvest_flag", "implies(old({c}.model_is_finished), cond.harvest_flag == old(init_cond.harvest_flag))".format(c=_CLK)),
             ("C07.update_time_strictly_forward", "implies(not old({c}.model_is_finished), {c}.time_step_counter > old({c}.time_step_counter))".format(c=_CLK)),
             ("C07.update_time_next_day", "implies(not old({c}.model_is_finished) and not (old(init_cond.harvest_flag) and not {c}.sim_off_season), {c}.time_step_counter == old({c}.time_step_counter) + 1)".format(c=_CLK)),
             ("C07.update_time_jump_to_planting", "implies(not old({c}.model_is_finished) and old(init_cond.harvest_flag) and not {c}.sim_off_season, "
              "{c}.season_counter == old({c}.season_counter) + 1 and {c}.step_start_time == {c}.planting_dates[{c}.season_counter])".format(c=_CLK)),
             ("C07.update_time_clock_consistent", "implies(not old({c}.model_is_finished), {c}.time_step_counter + 1 <= n_steps - 1 and {c}.step_start_time == {c}.time_span[{c}.time_step_counter] "
              "and {c}.step_end_time == {c}.time_span[{c}.time_step_counter + 1])".format(c=_CLK)),
             ("C07.update_time_season_starts_on_planting_date", "implies({c}.season_counter != old({c}.season_counter), {c}.season_counter == old({c}.season_counter) + 1 and "
              "{c}.step_start_time == {c}.planting_dates[{c}.season_counter] and cond.dap == 0 and not cond.harvest_flag)".format(c=_CLK)),
             ("C07.update_time_enters_season_on_planting_date", "implies(not old({c}.model_is_finished) and not (old(init_cond.harvest_flag) and not {c}.sim_off_season) and "
              "old({c}.season_counter) + 1 < n_seasons and {c}.time_span[old({c}.time_step_counter) + 1] == {c}.planting_dates[old({c}.season_counter) + 1], "
              "{c}.season_counter == old({c}.season_counter) + 1)".format(c=_CLK)),
             ("C01.update_time_carries_water", "implies({c}.season_counter == old({c}.season_counter), same(cond.th, old(init_cond.th)) and cond.surface_storage == old(init_cond.surface_storage))".format(c=_CLK)),
         ],
         assigns=["clock_struct.time_step_counter", "clock_struct.season_counter", "clock_struct.step_start_time", "clock_struct.step_end_time", "init_cond.**"],
         props=("C07", "C01", "C09", "C16"))

# ----------------------------------------------------------------------------- core.py: the run loop over an abstract step (C09)
CORE = "aquacrop/core.py"
declare_fields("AquaCropModel", default="Real", _clock_struct=OBJ("ClockStruct"), _init_cond=OBJ("InitialCondition"), _param_struct=OBJ("ParamStruct"),
               _outputs=OBJ("Output"), crop=OBJ("Crop"), ghost_steps="Int",
               __steps_are_finished="Bool", __has_model_executed="Bool", __has_model_finished="Bool")

contract(CORE, "AquaCropModel._perform_timestep",
         params=dict(self=OBJ("AquaCropModel")),
         returns=[("clk", ("Expr", "self._clock_struct")), ("cond", ("Expr", "self._init_cond")), ("ps", ("Expr", "self._param_struct")), ("outs", ("Expr", "self._outputs"))],
         ensures=[("C09.step_counts", "self.ghost_steps == old(self.ghost_steps) + 1"),
                  ("C09.step_finished_is_trajectory", "self._clock_struct.model_is_finished == fin(self.ghost_steps)")],
         assigns=["self.ghost_steps", "self._clock_struct.model_is_finished"],
         trusted=True,
         note="ABSTRACT step (assumed): one call performs exactly one time step of the deterministic trajectory; ghost_steps counts the steps performed "
              "since initialisation and fin(k) says whether the model is finished after k steps. That the step reads and writes nothing but the model's "
              "own state (no clock, environment, randomness) is the frame/determinism assumption shared with C10 (bounded check).",
         props=("C09",))

_G0 = "old(self.ghost_steps)"
contract(CORE, "AquaCropModel.run_model",
         params=dict(self=OBJ("AquaCropModel"), num_steps="Int", till_termination="Bool", initialize_model="Bool", process_outputs="Bool"),
         ghost=dict(N="Int"),
         cases=[dict(initialize_model=False)],
         requires=["self.ghost_steps >= 0", "self.ghost_steps < N", "fin(N)", "forall(j, 0, N, not fin(j))",
                   "self._clock_struct.model_is_finished == fin(self.ghost_steps)"],
         returns=[("ok", "Bool")],
         ensures=[
             ("C09.run_to_termination", "implies(till_termination, self.ghost_steps == N and self.__has_model_finished and self._clock_struct.model_is_finished)"),
             ("C09.run_steps_advance", "implies(not till_termination, self.ghost_steps == min(%s + num_steps, N))" % _G0),
             ("C09.run_status", "implies(not till_termination, self.__has_model_finished == (self.ghost_steps == N) and self.__has_model_executed)"),
             ("C09.run_clock_status", "self._clock_struct.model_is_finished == fin(self.ghost_steps)"),
         ],
         loops={
             "L1": dict(invariant=[("traj", "%s <= self.ghost_steps and self.ghost_steps <= N and self._clock_struct.model_is_finished == fin(self.ghost_steps)" % _G0)],
                        decreases="N - self.ghost_steps"),
             "L2": dict(invariant=[("traj", "self.ghost_steps == %s + i and self.ghost_steps < N and self._clock_struct.model_is_finished == fin(self.ghost_steps)" % _G0)]),
         },
         assigns=["self.**"],
         options=dict(allowed_raises=("ValueError",)),
         props=("C09", "C07", "C16"))

# ----------------------------------------------------------------------------- core.py: one time step of the model object (composition of step, finish test, clock)
contract(TS + "outputs_when_model_is_finished.py", "outputs_when_model_is_finished",
         params=dict(model_is_finished="Bool", flux_output=("Opaque"), water_output=("Opaque"), growth_outputs=("Opaque"), steps_are_finished="Bool"),
         returns=[("res", "Opaque")],
         ensures=[], assigns=[], trusted=True,
         note="ASSUMED: pure conversion of the three arrays into DataFrames (or False); pandas code, no effect on the model state",
         props=("C09",))


def _to_self(text):
    import re
    t = re.sub(r"\bweather_step\b", "self._weather[self._clock_struct.time_step_counter]", text)
    t = re.sub(r"\binit_cond\b", "self._init_cond", t)
    t = re.sub(r"\bparam_struct\b", "self._param_struct", t)
    t = re.sub(r"\bclock_struct\b", "self._clock_struct", t)
    t = re.sub(r"\boutputs\b", "self._outputs", t)
    return t


declare_fields("AquaCropModel", default="Real", _clock_struct=OBJ("ClockStruct"), _init_cond=OBJ("InitialCondition"), _param_struct=OBJ("ParamStruct"),
               _outputs=OBJ("Output"), crop=OBJ("Crop"), ghost_steps="Int", _weather=OBJ("List[WeatherRow]"),
               __steps_are_finished="Bool", __has_model_executed="Bool", __has_model_finished="Bool")

_SC = "self._clock_struct"
contract(CORE, "AquaCropModel._perform_timestep#body",
         params=dict(self=OBJ("AquaCropModel")),
         ghost=dict(n="Int", n_steps="Int", n_seasons="Int", gmin="Real"),
         requires=[_to_self(r) for r in STEP_REQ if "length(weather_step)" not in r] + [_to_self(r) for r in CLOCK_AX] + [
             "same(self._clock_struct, self._clock_struct)"],
         returns=[("clk", ("Expr", "self._clock_struct")), ("cond", ("Expr", "self._init_cond")), ("ps", ("Expr", "self._param_struct")), ("outs", ("Expr", "self._outputs"))],
         ensures=[
             ("C14.timestep_reads_only_todays_weather", "only_element_read(self._weather, old(%s.time_step_counter))" % _SC),
             ("C15.timestep_uses_the_row_of_the_step_counter", "only_element_read(self._weather, old(%s.time_step_counter))" % _SC),
             ("C07.timestep_finished_means", "implies({c}.model_is_finished, old({c}.step_end_time) >= {c}.simulation_end_date or "
                                             "(self._init_cond.harvest_flag and old({c}.season_counter) == n_seasons - 1))".format(c=_SC)),
             ("C07.timestep_unfinished_means", "implies(not {c}.model_is_finished, old({c}.step_end_time) < {c}.simulation_end_date)".format(c=_SC)),
             ("C07.timestep_strictly_forward", "implies(not {c}.model_is_finished, {c}.time_step_counter > old({c}.time_step_counter) and {c}.time_step_counter + 1 <= n_steps - 1)".format(c=_SC)),
             ("C07.timestep_finished_keeps_clock", "implies({c}.model_is_finished, {c}.time_step_counter == old({c}.time_step_counter))".format(c=_SC)),
         ],
         assigns=["self._init_cond.**", "self._outputs.**", "self._clock_struct.**", "self._param_struct.Fallow_Crop.Aer", "self._param_struct.Fallow_Crop.Zmin"],
         options=dict(function="AquaCropModel._perform_timestep", merge_limit=None, inline=("_weather_data_current_timestep",)),
         props=("C07", "C14", "C15", "C09", "C16"))

# ----------------------------------------------------------------------------- reset_initial_conditions: verified body (calendar-day part), C08 / C17
declare_fields("CO2", default="Real", constant_conc="Bool", co2_data_processed=OBJ("List[PosReal]"))   # assumed: tabulated CO2 concentrations are positive
_RESET_ZERO = ["age_days", "age_days_ns", "aer_days", "irr_cum", "delayed_gdds", "delayed_cds", "pct_lag_phase", "t_early_sen", "gdd_cum", "day_submerged",
               "irr_net_cum", "dap", "h1_cor_asum", "h1_cor_bsum", "f_pol", "s_cor1", "s_cor2", "growth_stage", "canopy_cover", "canopy_cover_adj",
               "canopy_cover_ns", "canopy_cover_adj_ns", "biomass", "biomass_ns", "harvest_index", "harvest_index_adj", "ccx_act", "ccx_act_ns", "ccx_w",
               "ccx_w_ns", "ccx_early_sen", "cc_prev", "sumET0EarlySen", "DryYield", "FreshYield", "t_pot", "e_pot"]
_RESET_FALSE = ["pre_adj", "crop_mature", "crop_dead", "germination", "premat_senes", "harvest_flag"]
_RESET_ONE = ["stage", "f_pre", "f_post", "fpost_dwn", "fpost_upp", "tr_ratio", "r_cor"]
_SCROP = "ParamStruct.Seasonal_Crop_List[ClockStruct.season_counter]"
contract(TS + "reset_initial_conditions.py", "reset_initial_conditions#body",
         params=dict(ClockStruct=OBJ("ClockStruct"), InitCond=OBJ("InitialCondition"), ParamStruct=OBJ("ParamStruct"), weather=("Opaque"), crop=OBJ("Crop")),
         ghost=dict(n="Int"),
         requires=["ParamStruct.Soil.nComp == n and n >= 1", "ParamStruct.CO2.ref_concentration > 0 and ParamStruct.CO2.ref_concentration < 550",
                   "0 <= %s.fsink and %s.fsink <= 1 and %s.bsted >= 0 and %s.bface >= 0" % ((_SCROP,) * 4),
                   "%s.bsted * ParamStruct.CO2.ref_concentration < 1" % _SCROP],
         returns=[("NewCond", ("Param", "InitCond")), ("ps", ("Param", "ParamStruct"))],
         ensures=[
             ("C08.reset_counters_zero", " and ".join("NewCond.%s == 0" % f for f in _RESET_ZERO)),
             ("C13.reset_clears_the_seasonal_irrigation_counters", "NewCond.irr_cum == 0 and NewCond.irr_net_cum == 0"),
             ("C07.reset_clears_crop_dead_and_maturity", "not NewCond.crop_dead and not NewCond.crop_mature and not NewCond.harvest_flag and NewCond.dap == 0"),
             ("C08.reset_flags_false", " and ".join("not NewCond.%s" % f for f in _RESET_FALSE)),
             ("C08.reset_factors_one", " and ".join("NewCond.%s == 1" % f for f in _RESET_ONE)),
             ("C08.reset_crop_dependent", "NewCond.cc0_adj == %s.CC0 and NewCond.HIfinal == %s.HI0 and not NewCond.protected_seed" % (_SCROP, _SCROP)),
             ("C08.reset_aeration_counters", "length(NewCond.aer_days_comp) == n and forall(j, 0, n, NewCond.aer_days_comp[j] == 0)"),
             ("C08.reset_water_content_is_private_copy", "implies(not ClockStruct.sim_off_season, not same(NewCond.th, NewCond.thini) and "
                                                         "forall(j, 0, n, NewCond.th[j] == old(InitCond.thini[j])) and forall(j, 0, n, NewCond.thini[j] == old(InitCond.thini[j])))"),
             ("C01.reset_keeps_water_with_off_season", "implies(ClockStruct.sim_off_season, same(NewCond.th, old(InitCond.th)) and NewCond.surface_storage == old(InitCond.surface_storage))"),
             ("C08.reset_ponding", "implies(not ClockStruct.sim_off_season, NewCond.surface_storage == ite(ParamStruct.FieldMngt.bunds and ParamStruct.FieldMngt.z_bund > 0.001, "
                                   "min(ParamStruct.FieldMngt.bund_water, ParamStruct.FieldMngt.z_bund), 0))"),
             ("C17.co2_factor_is_one_at_reference", "implies(ParamStruct.CO2.current_concentration == ParamStruct.CO2.ref_concentration, %s.fCO2 == 1)" % _SCROP),
             ("C20.reset_ponding_ignores_bund_settings_without_bunds", "implies(not ClockStruct.sim_off_season and not (ParamStruct.FieldMngt.bunds and ParamStruct.FieldMngt.z_bund > 0.001), NewCond.surface_storage == 0)"),
             # REFINEMENT: the clause the summary contract (assumed at update_time's call site) states, re-proved verbatim on the real body
             ("C07.refines_summary.reset_counters", "NewCond.dap == 0 and not NewCond.harvest_flag and not NewCond.crop_mature and not NewCond.crop_dead and NewCond.irr_cum == 0 and NewCond.irr_net_cum == 0 and NewCond.gdd_cum == 0"),
         ],
         assigns=["InitCond.**", "ParamStruct.CO2.current_concentration", "ParamStruct.Seasonal_Crop_List.**"],
         options=dict(function="reset_initial_conditions", merge_limit=None,
                      opaque_blocks=[dict(test_prefix="crop.CalendarType == 2",
                                          havoc=["crop.MaturityCD", "crop.MaxCanopyCD", "crop.CanopyDevEndCD", "crop.HIstartCD", "crop.HIendCD", "crop.YldFormCD",
                                                 "crop.FloweringCD", "crop.HIGC", "crop.tLinSwitch", "crop.dHILinear", "crop.FloweringEnd"])]),
         note="the thermal-calendar block (`if crop.CalendarType == 2:` ... vectorised numpy) is a TRUSTED block: only its frame (the season crop's calendar fields) is modelled",
         props=("C08", "C01", "C17", "C16", "C20", "C07"))
