"""Contracts of the soil-water process functions (C01 mass, C03 bounds, C04 signs, C12 frames, C16 safety)."""
from vc.spec import contract, ARR, OBJ, declare_fields

SOL = "aquacrop/solution/"

_PA = ARR("Real", "n")
declare_fields("SoilProfile", default="Real",
               dz=_PA, dzsum=_PA, th_fc=_PA, th_s=_PA, th_wp=_PA, th_dry=_PA, Ksat=_PA, tau=_PA, zBot=_PA, z_top=_PA, zMid=_PA,
               th_fc_Adj=_PA, aCR=_PA, bCR=_PA, Penetrability=_PA, Comp=ARR("Int", "n"), Layer=ARR("Int", "n"))


def WF(p="prof"):
    """wf_profile: what the process functions assume about an initialised soil profile (established by the pandas initialisers:
    assumed contract, evaluated on real profiles by the bounded C18 check)."""
    return [
        "n >= 1",
        "forall(j, 0, n, %s.dz[j] > 0)" % p,
        "%s.dzsum[0] == %s.dz[0]" % (p, p),
        "forall(j, 1, n, %s.dzsum[j] == %s.dzsum[j-1] + %s.dz[j])" % (p, p, p),
        "forall(j, 0, n, %s.dzsum[j] >= %s.dz[j])" % (p, p),
        "forall(j, 0, n, 0 <= %s.th_dry[j] and %s.th_dry[j] < %s.th_wp[j] and %s.th_wp[j] < %s.th_fc[j] and %s.th_fc[j] < %s.th_s[j] and %s.th_s[j] <= 1)" % ((p,) * 8),
        "forall(j, 0, n, %s.Ksat[j] > 0)" % p,
        "forall(j, 0, n, 0 < %s.tau[j] and %s.tau[j] <= 1)" % (p, p),
    ]


GHOST_N = {"n": "Int"}

# ----------------------------------------------------------------------------- drainage
_LOW = "min(th_init[j], prof.th_fc[j])"
contract(SOL + "drainage.py", "drainage",
         params=dict(prof=OBJ("SoilProfile"), th_init=_PA, th_fc_Adj_init=_PA),
         ghost=GHOST_N,
         requires=WF() + [
             "forall(j, 0, n, prof.th_fc[j] <= th_fc_Adj_init[j] and th_fc_Adj_init[j] <= prof.th_s[j])",
             "forall(j, 0, n, prof.th_dry[j] <= th_init[j] and th_init[j] <= prof.th_s[j])"],
         returns=[("thnew", _PA), ("DeepPerc", "Real"), ("FluxOut", _PA)],
         ensures=[
             ("C01.drainage_mass", "wsum(prof.dz, thnew, n) + DeepPerc == wsum(prof.dz, th_init, n)"),
             ("C03.drainage_bounds", "forall(j, 0, n, %s <= thnew[j] and thnew[j] <= prof.th_s[j])" % _LOW),
             ("C04.drainage_deep_perc_sign", "0 <= DeepPerc and DeepPerc <= prof.Ksat[n-1]"),
             ("C01.drainage_fluxout", "forall(j, 0, n, FluxOut[j] <= prof.Ksat[j])"),
             ("C12.drainage_fresh", "fresh(thnew) and fresh(FluxOut)"),
             ("C01.drainage_len", "length(thnew) == n and length(FluxOut) == n"),
         ],
         loops={
             "L1": dict(invariant=[
                 ("nonneg", "0 <= drainsum"),
                 ("cap", "implies(ii > 0, drainsum <= prof.Ksat[ii-1])"),
                 ("first", "implies(ii == 0, drainsum == 0)"),
                 ("mass", "wsum(prof.dz, thnew, ii) + drainsum == wsum(prof.dz, th_init, ii)"),
                 ("bounds", "forall(j, 0, ii, %s <= thnew[j] and thnew[j] <= prof.th_s[j])" % _LOW),
                 ("flux", "forall(j, 0, ii, FluxOut[j] <= prof.Ksat[j])"),
             ]),
             "L1.1": dict(invariant=[
                 ("range", "0 <= precomp and precomp <= ii + 1"),
                 ("excess", "excess >= 0"),
                 ("drainsum", "0 <= drainsum and drainsum <= prof.Ksat[ii]"),
                 ("mass", "wsum(prof.dz, thnew, ii + 1) + drainsum + excess == wsum(prof.dz, th_init, ii + 1)"),
                 ("sat_above", "forall(j, precomp, ii + 1, implies(excess > 0, thnew[j] == prof.th_s[j]))"),
                 ("bounds", "forall(j, 0, ii + 1, %s <= thnew[j] and thnew[j] <= prof.th_s[j])" % _LOW),
                 ("flux", "forall(j, 0, ii + 1, FluxOut[j] <= prof.Ksat[j])"),
             ], decreases="precomp",
                 # nothing is dropped at the soil surface: if every compartment above is saturated the column holds at least what it held
                 exit_lemmas=["sum_le(prof.dz, th_init, prof.th_s, ii + 1)", "sum_ext(prof.dz, thnew, prof.th_s, ii + 1)"]),
         },
         assigns=[],
         options=dict(merge_limit=10),
         props=("C01", "C03", "C04", "C12", "C16"))
