"""Contracts of the soil-water process functions (C01 mass, C03 bounds, C04 signs, C12 frames, C16 safety)."""
from vc.spec import contract, ARR, OBJ, declare_fields

SOL = "aquacrop/solution/"

_PA = ARR("Real", "n")
declare_fields("SoilProfile", default="Real",
               dz=_PA, dzsum=_PA, th_fc=_PA, th_s=_PA, th_wp=_PA, th_dry=_PA, Ksat=_PA, tau=_PA, zBot=_PA, z_top=_PA, zMid=_PA,
               th_fc_Adj=_PA, aCR=_PA, bCR=_PA, Penetrability=_PA, Comp=ARR("Int", "n"), Layer=ARR("Int", "n"))


def WF(p="prof"):
    """wf_profile: what the process functions assume about an initialised soil profile (established by the pandas initialisers:
    assumed contract, evaluated on real profiles by the bounded C18 check)."""
    return [
        "n >= 1",
        "forall(j, 0, n, %s.dz[j] > 0)" % p,
        "%s.dzsum[0] == %s.dz[0]" % (p, p),
        "forall(j, 1, n, %s.dzsum[j] == %s.dzsum[j-1] + %s.dz[j])" % (p, p, p),
        "forall(j, 0, n, %s.dzsum[j] >= %s.dz[j])" % (p, p),
        "forall(j, 0, n, 0 <= %s.th_dry[j] and %s.th_dry[j] < %s.th_wp[j] and %s.th_wp[j] < %s.th_fc[j] and %s.th_fc[j] < %s.th_s[j] and %s.th_s[j] <= 1)" % ((p,) * 8),
        "forall(j, 0, n, %s.Ksat[j] > 0)" % p,
        "forall(j, 0, n, 0 < %s.tau[j] and %s.tau[j] <= 1)" % (p, p),
    ]


GHOST_N = {"n": "Int"}

# ----------------------------------------------------------------------------- drainage
_LOW = "min(th_init[j], prof.th_fc[j])"
contract(SOL + "drainage.py", "drainage",
         params=dict(prof=OBJ("SoilProfile"), th_init=_PA, th_fc_Adj_init=_PA),
         ghost=GHOST_N,
         requires=WF() + [
             "forall(j, 0, n, prof.th_fc[j] <= th_fc_Adj_init[j] and th_fc_Adj_init[j] <= prof.th_s[j])",
             "forall(j, 0, n, prof.th_dry[j] <= th_init[j] and th_init[j] <= prof.th_s[j])"],
         returns=[("thnew", _PA), ("DeepPerc", "Real"), ("FluxOut", _PA)],
         ensures=[
             ("C01.drainage_mass", "wsum(prof.dz, thnew, n) + DeepPerc == wsum(prof.dz, th_init, n)"),
             ("C03.drainage_bounds", "forall(j, 0, n, %s <= thnew[j] and thnew[j] <= prof.th_s[j])" % _LOW),
             ("C04.drainage_deep_perc_sign", "0 <= DeepPerc and DeepPerc <= prof.Ksat[n-1]"),
             ("C01.drainage_fluxout", "forall(j, 0, n, FluxOut[j] <= prof.Ksat[j])"),
             ("C12.drainage_fresh", "fresh(thnew) and fresh(FluxOut)"),
             ("C01.drainage_len", "length(thnew) == n and length(FluxOut) == n"),
         ],
         loops={
             "L1": dict(invariant=[
                 ("nonneg", "0 <= drainsum"),
                 ("cap", "implies(ii > 0, drainsum <= prof.Ksat[ii-1])"),
                 ("first", "implies(ii == 0, drainsum == 0)"),
                 ("mass", "wsum(prof.dz, thnew, ii) + drainsum == wsum(prof.dz, th_init, ii)"),
                 ("bounds", "forall(j, 0, ii, %s <= thnew[j] and thnew[j] <= prof.th_s[j])" % _LOW),
                 ("flux", "forall(j, 0, ii, FluxOut[j] <= prof.Ksat[j])"),
             ]),
             "L1.1": dict(invariant=[
                 ("range", "0 <= precomp and precomp <= ii + 1"),
                 ("excess", "excess >= 0"),
                 ("drainsum", "0 <= drainsum and drainsum <= prof.Ksat[ii]"),
                 ("mass", "wsum(prof.dz, thnew, ii + 1) + drainsum + excess == wsum(prof.dz, th_init, ii + 1)"),
                 ("sat_above", "forall(j, precomp, ii + 1, implies(excess > 0, thnew[j] == prof.th_s[j]))"),
                 ("bounds", "forall(j, 0, ii + 1, %s <= thnew[j] and thnew[j] <= prof.th_s[j])" % _LOW),
                 ("flux", "forall(j, 0, ii + 1, FluxOut[j] <= prof.Ksat[j])"),
             ], decreases="precomp",
                 # nothing is dropped at the soil surface: if every compartment above is saturated the column holds at least what it held
                 exit_lemmas=["sum_le(prof.dz, th_init, prof.th_s, ii + 1)", "sum_ext(prof.dz, thnew, prof.th_s, ii + 1)"]),
         },
         assigns=[],
         options=dict(merge_limit=10),
         props=("C01", "C03", "C04", "C12", "C16"))

# ----------------------------------------------------------------------------- record classes
declare_fields("InitialCondition", default="Real",
               th=_PA, thini=_PA, th_fc_Adj=_PA, aer_days_comp=_PA,
               dap="Int", age_days="Int", age_days_ns="Int", aer_days="Real", day_submerged="Int", delayed_cds="Int", growth_stage="Int",
               time_step_counter="Int", stage="Int",
               pre_adj="Bool", crop_mature="Bool", crop_dead="Bool", germination="Bool", premat_senes="Bool", harvest_flag="Bool",
               growing_season="Bool", yield_form="Bool", stage2="Bool", wt_in_soil="Bool", protected_seed="Bool")
declare_fields("IrrMngtStruct", default="Real", irrigation_method="Int", IrrInterval="Int", SMT=ARR("Real", 4), Schedule=ARR("Real", "n_steps"))
declare_fields("FieldMngtStruct", default="Real", mulches="Bool", bunds="Bool", curve_number_adj="Bool", sr_inhb="Bool")


def WATER_INV(th, p="prof"):
    return "forall(j, 0, n, %s.th_dry[j] <= %s[j] and %s[j] <= %s.th_s[j])" % (p, th, th, p)


# ----------------------------------------------------------------------------- pre_irrigation
contract(SOL + "pre_irrigation.py", "pre_irrigation",
         params=dict(prof=OBJ("SoilProfile"), Crop=OBJ("Crop"), InitCond=OBJ("InitialCondition"), growing_season="Bool", IrrMngt=OBJ("IrrMngtStruct")),
         ghost=GHOST_N,
         requires=WF() + [WATER_INV("InitCond.th"),
                          "0 <= IrrMngt.NetIrrSMT and IrrMngt.NetIrrSMT <= 100",
                          "implies(growing_season, max(InitCond.z_root, Crop.Zmin) + 0.005 <= prof.dzsum[n-1])"],
         returns=[("NewCond", ("Param", "InitCond")), ("PreIrr", "Real")],
         ensures=[
             ("C01.pre_irrigation_mass", "wsum(prof.dz, NewCond.th, n) == old(wsum(prof.dz, InitCond.th, n)) + PreIrr"),
             ("C04.pre_irrigation_sign", "PreIrr >= 0"),
             ("C03.pre_irrigation_bounds", WATER_INV("NewCond.th")),
             ("C13.pre_irrigation_only_net_day1", "implies(not (growing_season and IrrMngt.irrigation_method == 4 and old(InitCond.dap) == 1), PreIrr == 0 and forall(j, 0, n, NewCond.th[j] == old(InitCond.th[j])))"),
             ("C03.pre_irrigation_monotone", "forall(j, 0, n, NewCond.th[j] >= old(InitCond.th[j]))"),
             ("C12.pre_irrigation_same_object", "same(NewCond, InitCond) and same(NewCond.th, old(InitCond.th))"),
         ],
         loops={"L1": dict(invariant=[
             ("sign", "PreIrr >= 0"),
             ("mass", "wsum(prof.dz, NewCond.th, n) == old(wsum(prof.dz, InitCond.th, n)) + PreIrr"),
             ("bounds", WATER_INV("NewCond.th")),
             ("monotone", "forall(j, 0, n, NewCond.th[j] >= old(InitCond.th[j]))"),
             ("hi", "compRz < n"),
         ])},
         assigns=["InitCond.th[*]"],
         props=("C01", "C03", "C04", "C08", "C12", "C13", "C16"))

# ----------------------------------------------------------------------------- groundwater_inflow
contract(SOL + "groundwater_inflow.py", "groundwater_inflow",
         params=dict(prof=OBJ("SoilProfile"), NewCond=OBJ("InitialCondition")),
         ghost=GHOST_N,
         requires=WF() + ["forall(j, 0, n - 1, prof.zMid[j] <= prof.zMid[j+1])", WATER_INV("NewCond.th"),
                          "length(prof.Comp) == n",
                          "implies(NewCond.wt_in_soil, prof.zMid[n-1] >= NewCond.z_gw)"],
         returns=[("Out", ("Param", "NewCond")), ("GwIn", "Real")],
         ensures=[
             ("C01.gw_inflow_mass", "wsum(prof.dz, Out.th, n) == old(wsum(prof.dz, NewCond.th, n)) + GwIn"),
             ("C04.gw_inflow_sign", "GwIn >= 0"),
             ("C03.gw_inflow_bounds", WATER_INV("Out.th")),
             ("C19.gw_inflow_saturates_below_table", "implies(NewCond.wt_in_soil, forall(j, 0, n, implies(prof.zMid[j] >= NewCond.z_gw, Out.th[j] == prof.th_s[j])))"),
             ("C19.gw_inflow_zero_without_table", "implies(not NewCond.wt_in_soil, GwIn == 0 and forall(j, 0, n, Out.th[j] == old(NewCond.th[j])))"),
         ],
         loops={"L1": dict(invariant=[
             ("sign", "GwIn >= 0"),
             ("mass", "wsum(prof.dz, NewCond.th, n) == old(wsum(prof.dz, NewCond.th, n)) + GwIn"),
             ("bounds", WATER_INV("NewCond.th")),
             ("sat", "forall(j, idx, ii, NewCond.th[j] == prof.th_s[j])"),
         ])},
         assigns=["NewCond.th[*]"],
         props=("C01", "C03", "C04", "C19", "C12", "C16"))

# ----------------------------------------------------------------------------- rainfall_partition
contract(SOL + "rainfall_partition.py", "rainfall_partition",
         params=dict(precipitation="Real", InitCond_th=_PA, NewCond_DaySubmerged="Int", FieldMngt_SRinhb="Bool", FieldMngt_Bunds="Bool",
                     FieldMngt_zBund="Real", FieldMngt_CNadjPct="Real", Soil_CN="Real", Soil_AdjCN="Int", Soil_zCN="Real", Soil_nComp="Int",
                     prof=OBJ("SoilProfile")),
         ghost=GHOST_N,
         requires=WF() + [
             "precipitation >= 0", "Soil_nComp == n",
             "Soil_AdjCN == 0 or Soil_AdjCN == 1",
             # the property's domain: an effective curve number in [1, 100]
             "1 <= Soil_CN * (1 + FieldMngt_CNadjPct / 100) and Soil_CN * (1 + FieldMngt_CNadjPct / 100) <= 100",
             "0 < Soil_zCN and Soil_zCN <= prof.dzsum[n-1]",
         ],
         returns=[("Runoff", "Real"), ("Infl", "Real"), ("DaySubmerged", "Int")],
         ensures=[
             ("C02.rain_partition_sum", "Runoff + Infl == precipitation"),
             ("C02.rain_partition_runoff_bounds", "0 <= Runoff and Runoff <= precipitation"),
             ("C02.rain_partition_zero", "implies(precipitation == 0, Runoff == 0 and Infl == 0)"),
             ("C03.rain_partition_day_submerged", "DaySubmerged == 0 or DaySubmerged == NewCond_DaySubmerged"),
             ("C02.rain_partition_inhibited", "implies(FieldMngt_SRinhb or (FieldMngt_Bunds and FieldMngt_zBund >= 0.001), Runoff == 0 and Infl == precipitation)"),
         ],
         loops={"L1": dict(invariant=[]), "L2": dict(invariant=[])},
         assigns=[],
         options=dict(reads_only_if={"FieldMngt_zBund": "FieldMngt_Bunds", "FieldMngt_CNadjPct": "not FieldMngt_SRinhb"}),
         props=("C02", "C12", "C16", "C20"))

# ----------------------------------------------------------------------------- root_zone_water
_RZW_RET = ["WrAct", "Dr_Zt", "Dr_Rz", "TAW_Zt", "TAW_Rz", "thRZ_Act", "thRZ_S", "thRZ_FC", "thRZ_WP", "thRZ_Dry", "thRZ_Aer"]
RZW_REQ = WF() + [
    "forall(j, 0, n, prof.dz[j] >= 0.01)",
    "forall(j, 0, n, prof.th_fc[j] - prof.th_wp[j] >= 0.01)",
    "forall(j, 0, n, InitCond_th[j] >= 0 and InitCond_th[j] <= prof.th_s[j])",
    "Crop_Zmin >= 0.02",
    # aeration threshold: a percentage >= 1 below saturation, or the "never" sentinel of the paddy crops (Aer <= 0)
    "Crop_Aer >= 1 or Crop_Aer <= 0",
    "max(InitCond_Zroot, Crop_Zmin) + 0.005 <= prof.dzsum[n-1]",
    "Soil_zTop >= 0.01",
]
contract(SOL + "root_zone_water.py", "root_zone_water",
         params=dict(prof=OBJ("SoilProfile"), InitCond_Zroot="Real", InitCond_th=_PA, Soil_zTop="Real", Crop_Zmin="Real", Crop_Aer="Real"),
         ghost=GHOST_N,
         requires=RZW_REQ,
         returns=[(r, "Real") for r in _RZW_RET],
         ensures=[
             ("C03.rzw_wr_nonneg", "WrAct >= 0"),
             ("C13.rzw_taw_positive", "TAW_Rz > 0"),
             ("C13.rzw_depletion_le_taw", "Dr_Rz <= TAW_Rz and Dr_Zt <= TAW_Zt"),
             ("C13.rzw_taw_top_positive", "TAW_Zt > 0"),
             ("C04.rzw_aer_lt_sat", "implies(Crop_Aer >= 1, thRZ_Aer < thRZ_S) and implies(Crop_Aer <= 0, thRZ_Aer >= thRZ_S)"),
             ("C04.rzw_act_le_sat", "thRZ_Act <= thRZ_S"),
             ("C04.rzw_act_nonneg", "thRZ_Act >= 0"),
             ("C04.rzw_wp_lt_fc", "thRZ_WP < thRZ_FC"),
         ],
         loops={
             "L1": dict(invariant=[
                 ("taw_lb", "implies(ii <= comp_sto, WrFC - WrWP >= 0.09 * ii)"),
                 ("taw_pos", "implies(ii == comp_sto + 1, WrFC - WrWP > 0)"),
                 ("comp", "0 <= comp_sto and comp_sto < n"),
                 ("rd", "rootdepth >= 0.015"),
                 ("aer_lb", "implies(Crop_Aer >= 1 and ii <= comp_sto, WrS - WrAer >= 0.09 * ii)"),
                 ("aer_pos", "implies(Crop_Aer >= 1 and ii == comp_sto + 1, WrS - WrAer > 0)"),
                 ("aer_never", "implies(Crop_Aer <= 0, WrAer >= WrS)"),
                 ("act_le_s", "WrAct <= WrS and WrS >= 0"),
             ]),
             "L2": dict(invariant=[("taw_top", "WrFC_Zt - WrWP_Zt >= 0 and implies(ii >= 1, WrFC_Zt - WrWP_Zt > 0)"),
                                   ("cs", "comp_sto >= 1 and comp_sto <= n and ztopdepth >= 0.005")]),
         },
         assigns=[],
         props=("C03", "C12", "C13", "C16"))

# ----------------------------------------------------------------------------- irrigation
_CAP = "min({x}, max(0, IrrMngt_MaxIrrSeason - NewCond_IrrCum))"
contract(SOL + "irrigation.py", "irrigation",
         params=dict(IrrMngt_IrrMethod="Int", IrrMngt_SMT=ARR("Real", 4), IrrMngt_AppEff="Real", IrrMngt_MaxIrr="Real", IrrMngt_IrrInterval="Int",
                     IrrMngt_Schedule=ARR("Real", "n_steps"), IrrMngt_depth="Real", IrrMngt_MaxIrrSeason="Real", NewCond_GrowthStage="Int",
                     NewCond_IrrCum="Real", NewCond_Epot="Real", NewCond_Tpot="Real", NewCond_Zroot="Real", NewCond_th=_PA, NewCond_DAP="Int",
                     NewCond_TimeStepCounter="Int", Crop=OBJ("Crop"), prof=OBJ("SoilProfile"), Soil_zTop="Real", growing_season="Bool",
                     Rain="Real", Runoff="Real"),
         ghost=dict(n="Int", n_steps="Int"),
         requires=[r.replace("InitCond_th", "NewCond_th").replace("InitCond_Zroot", "NewCond_Zroot").replace("Crop_Zmin", "Crop.Zmin").replace("Crop_Aer", "Crop.Aer") for r in RZW_REQ] + [
             "0 <= IrrMngt_IrrMethod and IrrMngt_IrrMethod <= 5",
             "0 <= IrrMngt_AppEff and IrrMngt_AppEff <= 100",
             "IrrMngt_MaxIrr >= 0", "IrrMngt_MaxIrrSeason >= 0", "IrrMngt_depth >= 0",
             "implies(IrrMngt_IrrMethod == 2, IrrMngt_IrrInterval >= 1)",
             "implies(growing_season, NewCond_DAP >= 1)",
             "implies(growing_season and NewCond_DAP != 1, 1 <= NewCond_GrowthStage and NewCond_GrowthStage <= 4)",
             "0 <= NewCond_TimeStepCounter and NewCond_TimeStepCounter < n_steps",
             "forall(k, 0, n_steps, IrrMngt_Schedule[k] >= 0)",
             "0 <= NewCond_IrrCum",
         ],
         returns=[("Depletion", "Real"), ("TAW", "Real"), ("IrrCum", "Real"), ("Irr", "Real")],
         ensures=[
             ("C13.irr_none_out_of_season", "implies(not growing_season, Irr == 0 and IrrCum == 0)"),
             ("C13.irr_none_rainfed_or_net", "implies(IrrMngt_IrrMethod == 0 or IrrMngt_IrrMethod == 4, Irr == 0)"),
             ("C04.irr_nonneg", "Irr >= 0"),
             ("C13.irr_daily_max", "Irr <= IrrMngt_MaxIrr"),
             ("C13.irr_cum", "implies(growing_season, IrrCum == NewCond_IrrCum + Irr)"),
             ("C06.irr_counter_accumulates_the_applied_depth", "implies(growing_season, IrrCum == NewCond_IrrCum + Irr) and implies(not growing_season, IrrCum == 0)"),
             ("C13.irr_season_max", "implies(NewCond_IrrCum <= IrrMngt_MaxIrrSeason, IrrCum <= IrrMngt_MaxIrrSeason)"),
             ("C13.irr_interval_days", "implies(growing_season and IrrMngt_IrrMethod == 2 and Irr > 0, (NewCond_DAP - 1) % IrrMngt_IrrInterval == 0)"),
             ("C13.irr_schedule_exact", "implies(growing_season and IrrMngt_IrrMethod == 3, Irr == " + _CAP.format(x="min(IrrMngt_MaxIrr, IrrMngt_Schedule[NewCond_TimeStepCounter])") + ")"),
             ("C13.irr_constant_depth", "implies(growing_season and IrrMngt_IrrMethod == 5, Irr == " + _CAP.format(x="min(IrrMngt_MaxIrr, IrrMngt_depth)") + ")"),
             ("C13.irr_smt_trigger", "implies(growing_season and IrrMngt_IrrMethod == 1, "
              "Irr == ite(Depletion / TAW > 1 - IrrMngt_SMT[ite(NewCond_DAP == 1, 1, NewCond_GrowthStage) - 1] / 100, "
              + _CAP.format(x="min(IrrMngt_MaxIrr, max(0, Depletion) * (2 - IrrMngt_AppEff / 100))") + ", 0))"),
             ("C13.irr_interval_amount", "implies(growing_season and IrrMngt_IrrMethod == 2, "
              "Irr == ite((NewCond_DAP - 1) % IrrMngt_IrrInterval == 0, " + _CAP.format(x="min(IrrMngt_MaxIrr, max(0, Depletion) * (2 - IrrMngt_AppEff / 100))") + ", 0))"),
             ("C13.irr_taw_positive", "implies(growing_season, TAW > 0)"),
             # C20: a strategy switched on at a neutral value applies nothing (daily / seasonal maximum 0, constant depth 0, nothing scheduled today)
             ("C20.irr_neutral_values_give_none", "implies(IrrMngt_MaxIrr == 0 or (IrrMngt_MaxIrrSeason == 0 and NewCond_IrrCum == 0) or "
              "(IrrMngt_IrrMethod == 5 and IrrMngt_depth == 0) or (IrrMngt_IrrMethod == 3 and IrrMngt_Schedule[NewCond_TimeStepCounter] == 0), Irr == 0 and IrrCum == ite(growing_season, NewCond_IrrCum, 0))"),
         ],
         options=dict(reads_only_if={"IrrMngt_SMT": "IrrMngt_IrrMethod == 1", "IrrMngt_IrrInterval": "IrrMngt_IrrMethod == 2",
                                     "IrrMngt_Schedule": "IrrMngt_IrrMethod == 3", "IrrMngt_depth": "IrrMngt_IrrMethod == 5",
                                     "IrrMngt_AppEff": "IrrMngt_IrrMethod == 1 or IrrMngt_IrrMethod == 2"}),
         assigns=[],
         props=("C13", "C04", "C06", "C20", "C12", "C16"))

# ----------------------------------------------------------------------------- infiltration
_IN = "(max(Infl, 0) + ite(growing_season, Irr * (IrrMngt_AppEff / 100), 0))"
_BE = "(FieldMngt_Bunds and FieldMngt_zBund > 0.001)"
_INF_INV = [
    ("range", "-1 <= ii and ii <= Soil_nComp - 1 and Soil_nComp == n"),
    ("signs", "ToStore >= 0 and Runoff >= 0"),
    ("mass", "wsum(prof.dz, thnew, n) + ToStore + Runoff == wsum(prof.dz, InitCond_th, n) + entry_L1_ToStore"),
    ("frame", "forall(j, ii + 1, n, thnew[j] == InitCond_th[j])"),
    ("bounds", "forall(j, 0, n, InitCond_th[j] <= thnew[j] and thnew[j] <= prof.th_s[j])"),
    ("flux", "forall(j, 0, n, FluxOut[j] <= prof.Ksat[j])"),
]
contract(SOL + "infiltration.py", "infiltration",
         params=dict(prof=OBJ("SoilProfile"), NewCond_SurfaceStorage="Real", NewCond_th_fc_Adj=_PA, NewCond_th=_PA, Infl="Real", Irr="Real",
                     IrrMngt_AppEff="Real", FieldMngt_Bunds="Bool", FieldMngt_zBund="Real", FluxOut=_PA, DeepPerc0="Real", Runoff0="Real",
                     growing_season="Bool"),
         ghost=GHOST_N,
         requires=WF() + [
             WATER_INV("NewCond_th"),
             "forall(j, 0, n, prof.th_fc[j] <= NewCond_th_fc_Adj[j] and NewCond_th_fc_Adj[j] <= prof.th_s[j])",
             "forall(j, 0, n, FluxOut[j] <= prof.Ksat[j])",
             "NewCond_SurfaceStorage >= 0", "Irr >= 0", "0 <= IrrMngt_AppEff and IrrMngt_AppEff <= 100", "FieldMngt_zBund >= 0",
             "implies(%s, NewCond_SurfaceStorage <= FieldMngt_zBund)" % _BE,
         ],
         returns=[("thnew", _PA), ("SS", "Real"), ("DeepPerc", "Real"), ("RunoffTot", "Real"), ("InflOut", "Real"), ("FluxOutR", ("Param", "FluxOut"))],
         ensures=[
             ("C01.infiltration_mass", "wsum(prof.dz, thnew, n) + SS + (RunoffTot - Runoff0) + (DeepPerc - DeepPerc0) == "
                                       "old(wsum(prof.dz, NewCond_th, n)) + NewCond_SurfaceStorage + " + _IN),
             ("C02.infiltration_partition", "InflOut + (RunoffTot - Runoff0) == " + _IN),
             ("C02.infiltration_runoff_bounds", "0 <= RunoffTot - Runoff0 and RunoffTot - Runoff0 <= NewCond_SurfaceStorage + " + _IN),
             ("C02.infiltration_negative_only_on_bund_removal", "InflOut >= -NewCond_SurfaceStorage and implies(InflOut < 0, not %s)" % _BE),
             ("C02.infiltration_zero", "implies(%s == 0 and NewCond_SurfaceStorage == 0, InflOut == 0 and RunoffTot == Runoff0)" % _IN),
             ("C03.infiltration_bounds", WATER_INV("thnew")),
             ("C03.infiltration_ponding", "SS >= 0 and implies(%s, SS <= FieldMngt_zBund) and implies(not %s, SS == 0)" % (_BE, _BE)),
             ("C04.infiltration_deep_perc_sign", "DeepPerc >= DeepPerc0"),
             ("C03.infiltration_monotone", "forall(j, 0, n, thnew[j] >= old(NewCond_th[j]))"),
             ("C12.infiltration_fresh", "fresh(thnew) and same(FluxOutR, FluxOut)"),
             ("C01.infiltration_flux", "forall(j, 0, n, FluxOutR[j] <= prof.Ksat[j])"),
         ],
         loops={
             "L1": dict(invariant=_INF_INV, decreases="Soil_nComp - 1 - ii",
                        # water only ever enters compartments: the column holds at least what it held (pointwise => sums)
                        exit_lemmas=["sum_le(prof.dz, InitCond_th, thnew, n)"]),
             "L1.1": dict(invariant=[
                 ("range", "0 <= precomp and precomp <= ii + 1 and 0 <= ii and ii <= n - 1 and Soil_nComp == n"),
                 ("signs", "ToStore >= 0 and Runoff >= 0 and excess >= 0"),
                 ("mass", "wsum(prof.dz, thnew, n) + ToStore + Runoff + excess == wsum(prof.dz, InitCond_th, n) + entry_L1_ToStore"),
                 ("frame", "forall(j, ii + 1, n, thnew[j] == InitCond_th[j])"),
                 ("bounds", "forall(j, 0, n, InitCond_th[j] <= thnew[j] and thnew[j] <= prof.th_s[j])"),
                 # FluxOut[ii] was incremented by the whole ToStore; the first back-up step (precomp == ii) takes the excess off again
                 ("flux", "forall(j, 0, n, FluxOut[j] - ite(j == ii and precomp == ii + 1, excess, 0) <= prof.Ksat[j])"),
             ], decreases="precomp"),
         },
         assigns=["FluxOut[*]"],
         options=dict(merge_limit=14, reads_only_if={"FieldMngt_zBund": "FieldMngt_Bunds", "IrrMngt_AppEff": "growing_season"}),
         props=("C01", "C02", "C03", "C04", "C12", "C16", "C20"))

# ----------------------------------------------------------------------------- check_groundwater_table
# mid-depths as STORED by the initialiser: only their order is assumed (after profile deepening the stored zMid of the appended
# compartments is a forward-filled copy, see known finding C18 zMid-after-deepening), never zMid == dzsum - dz/2
WF_ZMID = ["forall(j, 0, n - 1, prof.zMid[j] <= prof.zMid[j+1])"]
_XMAX = "ite(prof.th_fc[{j}] <= 0.1, 1, ite(prof.th_fc[{j}] >= 0.3, 2, exp((2 + 0.3 * (prof.th_fc[{j}] - 0.1) / 0.2) * log(10)) / 100))"
_FAR = "(z_gw - prof.zMid[n-1] >= " + _XMAX.format(j="n-1") + ")"
_CGT_B = "forall(j, {lo}, n, prof.th_fc[j] <= thfcAdj[j] and thfcAdj[j] <= prof.th_s[j])"
contract(SOL + "check_groundwater_table.py", "check_groundwater_table",
         params=dict(prof=OBJ("SoilProfile"), NewCond_zGW="Real", NewCond_th=_PA, NewCond_th_fc_Adj=_PA, water_table_presence="Int", z_gw="Real"),
         ghost=GHOST_N,
         requires=WF() + WF_ZMID + ["length(prof.Comp) == n", "water_table_presence == 0 or water_table_presence == 1",
                                    "implies(water_table_presence == 1, z_gw >= 0)"],
         returns=[("fcAdj", _PA), ("WTinSoil", "Bool"), ("zGW", "Real")],
         ensures=[
             ("C19.cgt_fcadj_range", "implies(water_table_presence == 1, forall(j, 0, n, prof.th_fc[j] <= fcAdj[j] and fcAdj[j] <= prof.th_s[j]))"),
             ("C19.cgt_far_table_is_fc", "implies(water_table_presence == 1 and %s, forall(j, 0, n, fcAdj[j] == prof.th_fc[j]))" % _FAR),
             ("C19.cgt_table_in_soil", "implies(water_table_presence == 1, WTinSoil == (prof.zMid[n-1] >= z_gw))"),
             ("C19.cgt_follows_observation", "implies(water_table_presence == 1, zGW == z_gw)"),
             ("C19.cgt_no_table_not_in_soil", "implies(water_table_presence == 0, not WTinSoil)"),
             ("C19.cgt_not_in_soil_means_all_above", "implies(water_table_presence == 1 and not WTinSoil, forall(j, 0, n, prof.zMid[j] < z_gw))"),
             ("C12.cgt_len", "implies(water_table_presence == 1, length(fcAdj) == n)"),
             ("C19.cgt_no_table_passthrough", "implies(water_table_presence == 0, length(fcAdj) == n and forall(j, 0, n, fcAdj[j] == NewCond_th_fc_Adj[j]))"),
         ],
         loops={
             "L1": dict(invariant=[
                 ("range", "-1 <= compi and compi <= n - 1"),
                 ("bounds", _CGT_B.format(lo="compi + 1")),
                 ("far", "implies(%s, compi == n - 1 or (compi == -1 and forall(j, 0, n, thfcAdj[j] == prof.th_fc[j])))" % _FAR.replace("z_gw", "NewCond_zGW")),
             ], decreases="compi + 1"),
             "L1.1": dict(invariant=[
                 ("range", "0 <= compi and compi <= n - 1"),
                 ("set", "forall(j, 0, ii, thfcAdj[j] == prof.th_fc[j])"),
                 ("bounds", _CGT_B.format(lo="compi + 1")),
                 ("far", "implies(%s, compi == n - 1)" % _FAR.replace("z_gw", "NewCond_zGW")),
             ]),
         },
         assigns=[],
         props=("C19", "C12", "C16"))

# ----------------------------------------------------------------------------- capillary_rise
_TH0 = "old(NewCond.th[j])"
_CR_ACT = "(wsum(prof.dz, {new}.th, n) - old(wsum(prof.dz, NewCond.th, n)))"
contract(SOL + "capillary_rise.py", "capillary_rise",
         params=dict(prof=OBJ("SoilProfile"), Soil_nLayer="Int", Soil_fshape_cr="Real", NewCond=OBJ("InitialCondition"), FluxOut=_PA,
                     water_table_presence="Int"),
         ghost=GHOST_N,
         requires=WF() + WF_ZMID + [
             WATER_INV("NewCond.th"),
             "forall(j, 0, n, prof.th_fc[j] <= NewCond.th_fc_Adj[j] and NewCond.th_fc_Adj[j] <= prof.th_s[j])",
             "length(prof.Comp) == n", "water_table_presence == 0 or water_table_presence == 1",
             "prof.Layer[n-1] == Soil_nLayer",
             "implies(water_table_presence == 1, forall(j, 0, n, prof.aCR[j] != 0))",
         ],
         returns=[("Out", ("Param", "NewCond")), ("CrTot", "Real")],
         ensures=[
             ("C01.capillary_rise_mass", "abs(CrTot - %s) <= 0.05 * prof.dzsum[n-1]" % _CR_ACT.format(new="Out")),
             ("C04.capillary_rise_sign", "CrTot >= 0"),
             ("C03.capillary_rise_lower", "forall(j, 0, n, Out.th[j] >= %s)" % _TH0),
             ("C03.capillary_rise_upper", "forall(j, 0, n, Out.th[j] <= prof.th_s[j])"),
             ("C19.capillary_rise_not_above_fcadj", "forall(j, 0, n, Out.th[j] <= max(%s, NewCond.th_fc_Adj[j]))" % _TH0),
             ("C19.capillary_rise_zero_without_table", "implies(water_table_presence == 0, CrTot == 0 and forall(j, 0, n, Out.th[j] == %s))" % _TH0),
             # "a water table far below the profile gives the same results as none": 4 m or more below the centre of the bottom compartment nothing rises
             ("C19.capillary_rise_zero_for_far_table", "implies(water_table_presence == 1 and NewCond.z_gw - prof.zMid[n-1] >= 4, CrTot == 0 and forall(j, 0, n, Out.th[j] == %s))" % _TH0),
         ],
         loops={
             "L3": dict(invariant=[
                 ("range", "-1 <= compi and compi <= n - 1"),
                 ("zbot", "zBot == ite(compi >= 0, prof.dzsum[compi], 0)"),
                 ("signs", "MaxCR >= 0 and WCr >= 0"),
                 ("mass", "abs(WCr - %s) <= 0.05 * (prof.dzsum[n-1] - zBot)" % _CR_ACT.format(new="NewCond")),
                 ("monotone", "forall(j, 0, n, NewCond.th[j] >= %s)" % _TH0),
                 ("upper", "forall(j, 0, n, NewCond.th[j] <= max(%s, NewCond.th_fc_Adj[j]))" % _TH0),
                 ("frame", "forall(j, 0, compi + 1, NewCond.th[j] == %s)" % _TH0),
                 ("far", "implies(NewCond.z_gw - prof.zMid[n-1] >= 4, MaxCR == 0 and WCr == 0 and forall(j, 0, n, NewCond.th[j] == %s))" % _TH0),
             ], decreases="compi + 1"),
         },
         assigns=["NewCond.th[*]"],
         props=("C01", "C03", "C04", "C19", "C12", "C16"))

# ----------------------------------------------------------------------------- evap_layer_water_content
# room of the evaporation layer above air-dry: at least 1000*gmin*z, where the ghost gmin is a uniform lower bound of th_fc - th_dry
_REWLB = "1000 * gmin * {z}"
GMIN_REQ = ["gmin > 0", "forall(j, 0, n, prof.th_fc[j] - prof.th_dry[j] >= gmin)"]
GHOST_NG = {"n": "Int", "gmin": "Real"}
contract(SOL + "evap_layer_water_content.py", "evap_layer_water_content",
         params=dict(InitCond_th=_PA, InitCond_EvapZ="Real", prof=OBJ("SoilProfile")),
         ghost=GHOST_NG,
         requires=WF() + GMIN_REQ + ["forall(j, 0, n, prof.th_dry[j] <= InitCond_th[j])", "InitCond_EvapZ > 0", "InitCond_EvapZ <= prof.dzsum[n-1]"],
         returns=[(x, "Real") for x in ("Wevap_Sat", "Wevap_Fc", "Wevap_Wp", "Wevap_Dry", "Wevap_Act")],
         ensures=[
             ("C03.evap_layer_order", "0 <= Wevap_Dry and Wevap_Dry < Wevap_Wp and Wevap_Wp < Wevap_Fc and Wevap_Fc < Wevap_Sat"),
             ("C03.evap_layer_act", "Wevap_Dry <= Wevap_Act"),
             ("C03.evap_layer_rew_room", "Wevap_Fc - Wevap_Dry >= " + _REWLB.format(z="InitCond_EvapZ")),
             # the totals are the weighted spec sums over the evaporation layer (ghost weights evw[j] = factor_j * dz[j])
             ("C03.evap_layer_act_sum", "Wevap_Act == wsum(evw(prof, InitCond_EvapZ), InitCond_th, count_lt(prof.dzsum, InitCond_EvapZ) + 1)"),
             ("C03.evap_layer_dry_sum", "Wevap_Dry == wsum(evw(prof, InitCond_EvapZ), prof.th_dry, count_lt(prof.dzsum, InitCond_EvapZ) + 1)"),
         ],
         loops={"L1": dict(invariant=[
             ("order", "0 <= Wevap_Dry and Wevap_Dry <= Wevap_Wp and Wevap_Wp <= Wevap_Fc and Wevap_Fc <= Wevap_Sat"),
             ("strict", "implies(ii >= 1, Wevap_Dry < Wevap_Wp and Wevap_Wp < Wevap_Fc and Wevap_Fc < Wevap_Sat)"),
             ("act", "Wevap_Dry <= Wevap_Act"),
             ("room", "implies(ii >= 1, Wevap_Fc - Wevap_Dry >= " + _REWLB.format(z="min(prof.dzsum[ii-1], InitCond_EvapZ)") + ")"),
             ("cs", "1 <= comp_sto and comp_sto <= n and comp_sto == count_lt(prof.dzsum, InitCond_EvapZ) + 1"),
             ("act_sum", "Wevap_Act == wsum(evw(prof, InitCond_EvapZ), InitCond_th, ii)"),
             ("dry_sum", "Wevap_Dry == wsum(evw(prof, InitCond_EvapZ), prof.th_dry, ii)"),
         ])},
         assigns=[],
         props=("C03", "C12", "C16"))

# ----------------------------------------------------------------------------- soil_evaporation
_SE_P = dict(ClockStruct_EvapTimeSteps="Int", ClockStruct_SimOffSeason="Bool", ClockStruct_TimeStepCounter="Int", prof=OBJ("SoilProfile"),
             Soil_EvapZmin="Real", Soil_EvapZmax="Real", Soil_REW="Real", Soil_Kex="Real", Soil_fwcc="Real", Soil_fWrelExp="Real", Soil_fevap="Real",
             Crop_CalendarType="Int", Crop_Senescence="Real", IrrMngt_IrrMethod="Int", IrrMngt_WetSurf="Real", FieldMngt_Mulches="Bool",
             FieldMngt_fMulch="Real", FieldMngt_MulchPct="Real", NewCond_DAP="Int", NewCond_Wsurf="Real", NewCond_EvapZ="Real", NewCond_Stage2="Bool",
             NewCond_th=_PA, NewCond_DelayedCDs="Int", NewCond_GDDcum="Real", NewCond_DelayedGDDs="Real", NewCond_CCxW="Real", NewCond_CCadj="Real",
             NewCond_CCxAct="Real", NewCond_CC="Real", NewCond_PrematSenes="Bool", NewCond_SurfaceStorage="Real", NewCond_Wstage2="Real",
             NewCond_Epot="Real", et0="Real", Infl="Real", Rain="Real", Irr="Real", growing_season="Bool")
_SE_MASS = "wsum(prof.dz, NewCond_th, n) + EsAct + NewCond_SurfaceStorage == old(wsum(prof.dz, NewCond_th, n)) + old(NewCond_SurfaceStorage)"
_SE_COMMON = [
    ("budget", "EsAct + ToExtract == EsPot"),
    ("lower", "forall(j, 0, n, prof.th_dry[j] <= NewCond_th[j])"),
    ("upper", "forall(j, 0, n, NewCond_th[j] <= old(NewCond_th[j]))"),
    ("esact", "EsAct >= 0"),
    ("evapz", "Soil_EvapZmin <= NewCond_EvapZ and NewCond_EvapZ <= Soil_EvapZmax + 0.001"),
    ("ws2", "NewCond_Wstage2 >= 0"),
]
contract(SOL + "soil_evaporation.py", "soil_evaporation",
         params=_SE_P, ghost=GHOST_NG,
         requires=WF() + GMIN_REQ + [
             WATER_INV("NewCond_th"), "n >= 2",
             "ClockStruct_EvapTimeSteps >= 1",
             "0 < Soil_EvapZmin and Soil_EvapZmin <= Soil_EvapZmax and Soil_EvapZmax + 0.001 <= prof.dzsum[n-2]",
             "0 <= Soil_REW and Soil_REW < " + _REWLB.format(z="Soil_EvapZmin"),
             "Soil_Kex >= 0", "0 <= Soil_fwcc and Soil_fwcc <= 100", "Soil_fevap > 0",
             # one stage-2 sub-step never asks for more than the evaporation layer holds above air-dry (valid_soil; checked for the built-in soils)
             "Soil_Kex * et0 <= ClockStruct_EvapTimeSteps * (" + _REWLB.format(z="Soil_EvapZmin") + " - Soil_REW)",
             "0 <= NewCond_CCxW and NewCond_CCxW <= 1", "0 <= NewCond_CCadj and NewCond_CCadj <= 1",
             "0 <= NewCond_CC", "et0 >= 0",
             "0 <= FieldMngt_fMulch and FieldMngt_fMulch <= 1", "0 <= FieldMngt_MulchPct and FieldMngt_MulchPct <= 100",
             "0 <= IrrMngt_WetSurf and IrrMngt_WetSurf <= 100",
             "NewCond_SurfaceStorage >= 0", "NewCond_Wsurf >= 0", "NewCond_Wstage2 >= 0",
             "Soil_EvapZmin <= NewCond_EvapZ and NewCond_EvapZ <= Soil_EvapZmax + 0.001",
             "implies(growing_season, Crop_CalendarType == 1 or Crop_CalendarType == 2)",
         ],
         returns=[("Epot", "Real"), ("th_out", ("Param", "NewCond_th")), ("Stage2", "Bool"), ("Wstage2", "Real"), ("Wsurf", "Real"), ("SS", "Real"), ("EvapZ", "Real"),
                  ("EsAct", "Real"), ("EsPot", "Real")],
         ensures=[
             ("C04.evap_pot_nonneg", "EsPot >= 0 and Epot == EsPot"),
             ("C04.evap_act_le_pot", "EsAct <= EsPot"),
             ("C01.evap_mass", "wsum(prof.dz, th_out, n) + SS + EsAct == old(wsum(prof.dz, NewCond_th, n)) + NewCond_SurfaceStorage"),
             ("C03.evap_lower", "forall(j, 0, n, prof.th_dry[j] <= th_out[j])"),
             ("C03.evap_upper", "forall(j, 0, n, th_out[j] <= old(NewCond_th[j]))"),
             ("C04.evap_act_nonneg", "EsAct >= 0"),
             ("C03.evap_ponding", "0 <= SS and SS <= NewCond_SurfaceStorage"),
             # C02: infiltration can only be negative by releasing ponded water; that needs the ponding to stay non-negative through the day
             ("C02.evap_ponding_stays_nonneg", "0 <= SS and SS <= NewCond_SurfaceStorage"),
             ("C12.evap_in_place", "same(th_out, NewCond_th)"),
             ("C03.evap_state", "Soil_EvapZmin <= EvapZ and EvapZ <= Soil_EvapZmax + 0.001 and Wstage2 >= 0 and Wsurf >= 0"),
         ],
         loops={
             "L1": dict(invariant=_SE_COMMON + [
                 ("range", "-1 <= comp and comp <= comp_sto and comp_sto <= n - 1"),
                 ("pot", "ExtractPotStg1 >= 0 and ToExtract >= ExtractPotStg1 and EsPot >= 0"),
                 ("mass", _SE_MASS.format(e="entry_L1_EsAct")),
                 ("ss", "NewCond_Wsurf >= 0 and EsAct >= entry_L1_EsAct"),
             ], decreases="comp_sto - comp"),
             "L2": dict(invariant=_SE_COMMON + [
                 ("remaining", "ToExtract >= Edt * (ClockStruct_EvapTimeSteps - jj) and Edt >= 0 and EsPot >= 0"),
                 ("edt", "Edt <= " + _REWLB.format(z="Soil_EvapZmin") + " - Soil_REW"),
                 ("mass", _SE_MASS.format(e="entry_L2_EsAct")),
             ]),
             "L2.1": dict(invariant=_SE_COMMON + [
                 ("wrel", "Wupper - Wlower > 0 and Wrel >= 0 and Wupper - Wlower >= Edt and Wlower == Wevap_Dry and Wrel == (Wevap_Act - Wlower) / (Wupper - Wlower)"),
                 ("sums", "Wevap_Act == wsum(evw(prof, NewCond_EvapZ), NewCond_th, count_lt(prof.dzsum, NewCond_EvapZ) + 1) and "
                          "Wevap_Dry == wsum(evw(prof, NewCond_EvapZ), prof.th_dry, count_lt(prof.dzsum, NewCond_EvapZ) + 1)"),
                 ("edt", "Edt <= " + _REWLB.format(z="Soil_EvapZmin") + " - Soil_REW"),
                 ("keep", "ToExtract >= Edt * (ClockStruct_EvapTimeSteps - jj) and Edt >= 0 and EsPot >= 0 and 0 <= jj and jj < ClockStruct_EvapTimeSteps"),
                 ("mass", _SE_MASS.format(e="entry_L2_EsAct")),
             ], decreases="Soil_EvapZmax - NewCond_EvapZ", decreases_step=0.001),
             "L2.2": dict(invariant=_SE_COMMON + [
                 ("range", "-1 <= comp and comp <= comp_sto - 1 and comp_sto <= n - 1 and comp_sto == count_lt(prof.dzsum, NewCond_EvapZ) + 1"),
                 ("enough", "ToExtractStg2 <= max(0, %s - %s)" % ("(wsum(evw(prof, NewCond_EvapZ), NewCond_th, comp_sto) - wsum(evw(prof, NewCond_EvapZ), prof.th_dry, comp_sto))", "(wsum(evw(prof, NewCond_EvapZ), NewCond_th, comp + 1) - wsum(evw(prof, NewCond_EvapZ), prof.th_dry, comp + 1))")),
                 ("stg2", "ToExtractStg2 >= 0 and ToExtract >= Edt * (ClockStruct_EvapTimeSteps - jj - 1) + ToExtractStg2 and Edt >= 0 and EsPot >= 0 and 0 <= jj and jj < ClockStruct_EvapTimeSteps"),
                 ("mass", _SE_MASS.format(e="entry_L2_EsAct")),
             ], decreases="comp_sto - comp",
                 # the sub-step demand Kr*Edt never exceeds what the evaporation layer holds above air-dry:
                 # Kr <= Wrel by convexity of exp (chord), Edt <= Wupper - Wlower by the soil precondition
                 init_asserts=["Kr >= 0 and Kr <= 1", "ToExtractStg2 == Kr * Edt", "ToExtractStg2 <= Edt",
                               "Wrel * (Wupper - Wlower) == Wevap_Act - Wlower",
                               "implies(Wrel <= 1, Kr <= Wrel)",
                               "implies(Wrel <= 1, ToExtractStg2 <= Wrel * (Wupper - Wlower))",
                               "implies(Wrel > 1, ToExtractStg2 <= Wrel * (Wupper - Wlower))",
                               "ToExtractStg2 <= Wevap_Act - Wevap_Dry"]),
         },
         assigns=["NewCond_th[*]"],
         options=dict(merge_limit=None, reads_only_if={"FieldMngt_fMulch": "FieldMngt_Mulches", "FieldMngt_MulchPct": "FieldMngt_Mulches",
                                                       "IrrMngt_WetSurf": "Irr > 0 and IrrMngt_IrrMethod != 4"},
                      # C20: at the point where the two adjusted potentials are combined (the only consumers of the mulch / wetted-surface parameters),
                      # neutral settings give the unadjusted potential; nothing is forgotten at this cut
                      cuts=[# C08: on the first simulated day and on day 1 of a season entered without off-season simulation the evaporation-layer state is
                            # re-initialised, whatever state the previous season left (assertion-only cut after the re-initialisation block)
                            dict(before="if Rain > 0 or",
                                 **{"assert": ["implies(ClockStruct_TimeStepCounter == 0 or (NewCond_DAP == 1 and not ClockStruct_SimOffSeason), "
                                               "NewCond_Wsurf == 0 and NewCond_EvapZ == Soil_EvapZmin and NewCond_Stage2 and NewCond_Wstage2 >= 0)"]},
                                 havoc=[]),
                            dict(before="EsPot = min(EsPotIrr, EsPotMul)",
                                 **{"assert": ["implies(not FieldMngt_Mulches or FieldMngt_MulchPct == 0 or FieldMngt_fMulch == 0, EsPotMul == EsPot)",
                                               "implies(not (Irr > 0 and IrrMngt_IrrMethod != 4) or IrrMngt_WetSurf == 100, EsPotIrr == EsPot)",
                                               "EsPotMul <= EsPot and EsPotIrr <= EsPot"]},
                                 havoc=[]),
                            # ... and the combined potential is the other adjustment's value when one of them is neutral
                            dict(before="EsAct = 0",
                                 **{"assert": ["implies(not FieldMngt_Mulches or FieldMngt_MulchPct == 0 or FieldMngt_fMulch == 0, EsPot == EsPotIrr)",
                                               "implies(not (Irr > 0 and IrrMngt_IrrMethod != 4) or IrrMngt_WetSurf == 100, EsPot == EsPotMul)"]},
                                 havoc=[])]),
         props=("C01", "C03", "C04", "C12", "C16", "C20"))

# ----------------------------------------------------------------------------- transpiration
declare_fields("CO2", default="Real")
WF_LAYER = lambda p: [
    "%s.Layer[0] >= 1" % p,
    "forall(j, 1, n, %s.Layer[j] >= %s.Layer[j-1] and implies(%s.Layer[j] == %s.Layer[j-1], %s.th_wp[j] == %s.th_wp[j-1] and %s.th_fc[j] == %s.th_fc[j-1]))" % ((p,) * 8),
]
_TR_MASS = ("wsum(Soil_Profile.dz, NewCond.th, n) + TrAct + NewCond.surface_storage + TrAct0 == "
            "old(wsum(Soil_Profile.dz, InitCond.th, n)) + old(InitCond.surface_storage)")
_AGE = "max(InitCond.dap - InitCond.delayed_cds - Crop.MaxCanopyCD, {a})"
contract(SOL + "transpiration.py", "transpiration",
         params=dict(Soil_Profile=OBJ("SoilProfile"), Soil_nComp="Int", Soil_zTop="Real", Crop=OBJ("Crop"), IrrMngt_IrrMethod="Int",
                     IrrMngt_NetIrrSMT="Real", InitCond=OBJ("InitialCondition"), et0="Real", CO2=OBJ("CO2"), growing_season="Bool", gdd="Real"),
         ghost=GHOST_N,
         requires=WF("Soil_Profile") + WF_LAYER("Soil_Profile") + [
             "Soil_nComp == n",
             WATER_INV("InitCond.th", "Soil_Profile"),
             "forall(j, 0, n, Soil_Profile.dz[j] >= 0.01)", "forall(j, 0, n, Soil_Profile.th_fc[j] - Soil_Profile.th_wp[j] >= 0.01)",
             "Crop.Zmin >= 0.02", "Crop.Aer >= 1 or Crop.Aer <= 0", "Crop.Aer <= 100",
             "max(InitCond.z_root, Crop.Zmin) + 0.005 <= Soil_Profile.dzsum[n-1]",
             "Soil_zTop >= 0.01",
             "InitCond.surface_storage >= 0", "et0 >= 0",
             "0 <= IrrMngt_NetIrrSMT and IrrMngt_NetIrrSMT <= 100", "0 <= IrrMngt_IrrMethod and IrrMngt_IrrMethod <= 5",
             # crop validity (valid_crop; catalogue obligation) and crop state (canopy_inv, established by canopy_cover): only needed in season
             "implies(growing_season, Crop.Kcb >= 0)",
             "implies(growing_season, Crop.fage >= 0)",
             "implies(growing_season, Crop.a_Tr > 0)",
             "implies(growing_season, 0 <= InitCond.ccx_w and InitCond.ccx_w <= 1)",
             "implies(growing_season, 0 <= InitCond.ccx_w_ns and InitCond.ccx_w_ns <= 1)",
             "implies(growing_season, Crop.Kcb - (" + _AGE.format(a="InitCond.age_days") + " - 5) * (Crop.fage / 100) * InitCond.ccx_w >= 0)",
             "implies(growing_season, Crop.Kcb - (" + _AGE.format(a="InitCond.age_days_ns") + " - 5) * (Crop.fage / 100) * InitCond.ccx_w_ns >= 0)",
             "implies(growing_season, CO2.ref_concentration < 550 and CO2.current_concentration - CO2.ref_concentration <= 20 * (550 - CO2.ref_concentration))",
             "implies(growing_season, 0 <= InitCond.canopy_cover_adj and InitCond.canopy_cover_adj <= 1)",
             "implies(growing_season, 0 <= InitCond.canopy_cover_adj_ns and InitCond.canopy_cover_adj_ns <= 1)",
             "implies(growing_season, InitCond.canopy_cover >= 0 and InitCond.canopy_cover_ns >= 0)",
             "implies(growing_season, Crop.TrColdStress == 0 or Crop.TrColdStress == 1)",
             "implies(growing_season and Crop.TrColdStress == 1, Crop.GDD_lo < Crop.GDD_up)",
             "implies(growing_season, Crop.ETadj == 0 or Crop.ETadj == 1)",
             "implies(growing_season, Crop.LagAer >= 2)",
             "implies(growing_season, InitCond.day_submerged >= 0)",
             "implies(growing_season, 0 <= InitCond.aer_days and InitCond.aer_days <= Crop.LagAer)",
             "implies(growing_season, forall(j, 0, n, InitCond.aer_days_comp[j] >= 0))",
             "implies(growing_season, forall(k, 0, 4, 0 <= Crop.p_up[k] and Crop.p_up[k] <= 1))",
             "implies(growing_season, forall(k, 0, 4, 0 <= Crop.p_lo[k] and Crop.p_lo[k] <= 1))",
             "implies(growing_season, forall(k, 0, 3, Crop.fshape_w[k] != 0))",
             "implies(growing_season, Crop.p_up[1] < Crop.p_lo[1])",
             "implies(growing_season, Crop.SxTop >= 0 and Crop.SxBot >= 0 and InitCond.r_cor >= 0)",
         ],
         returns=[("TrAct", "Real"), ("TrPot_NS", "Real"), ("TrPot0", "Real"), ("NewCond", ("Param", "InitCond")), ("IrrNet", "Real")],
         ensures=[
             ("C04.transpiration_pot_nonneg", "TrPot0 >= 0 and TrPot_NS >= 0"),
             ("C04.transpiration_act_range", "0 <= TrAct and TrAct <= TrPot0"),
             ("C04.transpiration_zero_out_of_season", "implies(not growing_season, TrAct == 0 and TrPot0 == 0 and TrPot_NS == 0 and IrrNet == 0)"),
             ("C01.transpiration_mass", "wsum(Soil_Profile.dz, NewCond.th, n) + NewCond.surface_storage + TrAct == "
                                        "old(wsum(Soil_Profile.dz, InitCond.th, n)) + old(InitCond.surface_storage) + IrrNet"),
             ("C03.transpiration_bounds", WATER_INV("NewCond.th", "Soil_Profile")),
             ("C03.transpiration_ponding", "0 <= NewCond.surface_storage and NewCond.surface_storage <= old(InitCond.surface_storage)"),
             ("C02.transpiration_ponding_stays_nonneg", "0 <= NewCond.surface_storage and NewCond.surface_storage <= old(InitCond.surface_storage)"),
             ("C13.transpiration_net_only_method4", "implies(IrrMngt_IrrMethod != 4, IrrNet == 0)"),
             ("C06.transpiration_net_cum", "NewCond.irr_net_cum == ite(growing_season and IrrMngt_IrrMethod == 4, old(InitCond.irr_net_cum) + IrrNet, 0)"),
             ("C06.transpiration_tpot_state", "NewCond.t_pot == TrPot0"),
             # the canopy is only ever set back to yesterday's value (no transpiration although the canopy grew)
             ("C05.transpiration_canopy", "NewCond.canopy_cover == old(InitCond.canopy_cover) or "
                                          "(growing_season and NewCond.canopy_cover == old(InitCond.cc_prev) and old(InitCond.cc_prev) < old(InitCond.canopy_cover))"),
             ("C04.transpiration_aer_days", "implies(growing_season, 0 <= NewCond.aer_days and NewCond.aer_days <= Crop.LagAer and NewCond.day_submerged >= 0 and forall(j, 0, n, NewCond.aer_days_comp[j] >= 0))"),
             ("C12.transpiration_same_object", "same(NewCond, InitCond) and same(NewCond.th, old(InitCond.th))"),
             # the transpiration ratio (read by root_development on the next day) is a fraction in season and is not touched outside it
             ("C05.transpiration_tr_ratio_fraction", "implies(growing_season, 0 <= NewCond.tr_ratio and NewCond.tr_ratio <= 1) and implies(not growing_season, NewCond.tr_ratio == old(InitCond.tr_ratio))"),
         ],
         loops={
             "L1": dict(invariant=[("adc", "forall(j, 0, n, NewCond.aer_days_comp[j] >= 0)")]),
             "L2": dict(invariant=[("rf", "forall(j, 0, n, 0 <= RootFact[j] and RootFact[j] <= 1)"),
                                   ("cs", "1 <= comp_sto and comp_sto <= n and comp_sto <= count_lt(Soil_Profile.dzsum, rootdepth) + 1")]),
             "L3": dict(invariant=[("sx", "forall(j, 0, n, SxComp[j] >= 0)")]),
             "L4": dict(invariant=[("sx", "forall(j, 0, n, SxComp[j] >= 0)"), ("bot", "SxCompBot >= 0")]),
             "L5": dict(invariant=[
                 ("range", "-1 <= comp and comp <= comp_sto - 1 and 1 <= comp_sto and comp_sto <= n"),
                 # the stress coefficient can be negative for an aeration lag above 3 days: then nothing is extracted at all
                 ("budget", "ToExtract + TrAct == TrPot and TrAct >= 0 and (ToExtract >= 0 or TrAct == 0)"),
                 ("mass", _TR_MASS),
                 ("bounds", "forall(j, 0, n, Soil_Profile.th_dry[j] <= NewCond.th[j] and NewCond.th[j] <= old(InitCond.th[j]))"),
                 ("adc", "forall(j, 0, n, NewCond.aer_days_comp[j] >= 0)"),
                 ("rf", "forall(j, 0, n, 0 <= RootFact[j] and RootFact[j] <= 1 and SxComp[j] >= 0)"),
             ], decreases="comp_sto - 1 - comp"),
             "L6": dict(invariant=[
                 ("mass", "wsum(Soil_Profile.dz, NewCond.th, n) + TrAct + NewCond.surface_storage + TrAct0 == "
                          "old(wsum(Soil_Profile.dz, InitCond.th, n)) + old(InitCond.surface_storage) + IrrNet"),
                 ("bounds", WATER_INV("NewCond.th", "Soil_Profile")),
                 ("layer", "prelayer == ite(ii == 0, 0, Soil_Profile.Layer[ii-1])"),
                 ("crit", "implies(ii >= 1, thCrit == Soil_Profile.th_wp[ii-1] + IrrMngt_NetIrrSMT / 100 * (Soil_Profile.th_fc[ii-1] - Soil_Profile.th_wp[ii-1]))"),
                 ("rf", "forall(j, 0, n, 0 <= RootFact[j] and RootFact[j] <= 1)"),
                 ("cs", "comp_sto <= n"),
             ]),
         },
         assigns=["InitCond.th[*]", "InitCond.aer_days_comp[*]", "InitCond.age_days", "InitCond.age_days_ns", "InitCond.day_submerged",
                  "InitCond.surface_storage", "InitCond.aer_days", "InitCond.depletion", "InitCond.taw", "InitCond.irr_net_cum",
                  "InitCond.canopy_cover", "InitCond.tr_ratio", "InitCond.t_pot"],
         options=dict(merge_limit=None),
         props=("C01", "C03", "C04", "C06", "C12", "C13", "C16"))
