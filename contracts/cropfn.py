"""Contracts of the crop-yield functions (C05 envelopes, C06 yield algebra, C16 safety)."""
from vc.spec import contract, ARR, OBJ, declare_fields
import contracts.scalar      # Crop field types
import contracts.water       # SoilProfile / InitialCondition field types

SOL = "aquacrop/solution/"
declare_fields("Ksw", default="Real")
declare_fields("Kst", default="Real")

# ----------------------------------------------------------------------------- biomass_accumulation
_HIT = "(NewCond_DAP - NewCond_DelayedCDs - Crop.HIstartCD - 1)"
contract(SOL + "biomass_accumulation.py", "biomass_accumulation",
         params=dict(Crop=OBJ("Crop"), NewCond_DAP="Int", NewCond_DelayedCDs="Int", NewCond_HIref="Real", NewCond_PctLagPhase="Real",
                     NewCond_B="Real", NewCond_B_NS="Real", Tr="Real", TrPot="Real", et0="Real", growing_season="Bool"),
         requires=["implies(growing_season, et0 >= 0 and Tr >= 0 and TrPot >= 0 and Crop.WP >= 0 and 0 <= Crop.WPy and Crop.WPy <= 100 and Crop.fCO2 >= 0)",
                   "0 <= NewCond_PctLagPhase and NewCond_PctLagPhase <= 100",
                   "implies(growing_season, (Crop.CropType == 1 or Crop.CropType == 2 or Crop.CropType == 3) and Crop.YldFormCD > 0)",
                   # state invariant established by HIref_current_day: a positive reference harvest index means yield formation has started
                   "implies(NewCond_HIref > 0, %s > 0)" % _HIT],
         returns=[("B", "Real"), ("B_NS", "Real")],
         ensures=[
             ("C05.biomass_nondecreasing", "implies(growing_season, B >= NewCond_B and B_NS >= NewCond_B_NS)"),
             ("C06.biomass_gain_upper", "implies(growing_season and et0 > 0, B - NewCond_B <= Crop.WP * Crop.fCO2 * (Tr / et0))"),
             ("C06.biomass_gain_lower", "implies(growing_season and et0 > 0, B - NewCond_B >= Crop.WP * (Crop.WPy / 100) * Crop.fCO2 * (Tr / et0))"),
             ("C06.biomass_no_gain_without_demand", "implies(growing_season and et0 == 0, B == NewCond_B and B_NS == NewCond_B_NS)"),
             ("C06.biomass_ns_gain", "implies(growing_season and et0 > 0, B_NS - NewCond_B_NS <= Crop.WP * Crop.fCO2 * (TrPot / et0) and "
                                     "B_NS - NewCond_B_NS >= Crop.WP * (Crop.WPy / 100) * Crop.fCO2 * (TrPot / et0))"),
             ("C05.biomass_zero_out_of_season", "implies(not growing_season, B == 0 and B_NS == 0)"),
         ],
         props=("C05", "C06", "C16"))

# ----------------------------------------------------------------------------- HIref_current_day
_HIT2 = "(NewCond_DAP - NewCond_DelayedCDs - Crop.HIstartCD - 1)"
contract(SOL + "HIref_current_day.py", "HIref_current_day",
         params=dict(NewCond_HIref="Real", NewCond_HIfinal="Real", NewCond_DAP="Int", NewCond_DelayedCDs="Int", NewCond_YieldForm="Bool",
                     NewCond_PctLagPhase="Real", NewCond_CC="Real", NewCond_CC_prev="Real", NewCond_CCxW="Real", Crop=OBJ("Crop"), growing_season="Bool"),
         requires=["implies(growing_season, 0 < Crop.HIini and Crop.HIini < Crop.HI0 and Crop.HIGC >= 0 and 0 <= NewCond_HIfinal and NewCond_HIfinal <= Crop.HI0)",
                   "implies(growing_season, (Crop.CropType == 1 or Crop.CropType == 2 or Crop.CropType == 3) and Crop.dHILinear >= 0 and Crop.tLinSwitch >= 0)",
                   "0 <= NewCond_PctLagPhase and NewCond_PctLagPhase <= 100", "Crop.HI0 >= 0"],
         returns=[("HIref", "Real"), ("YieldForm", "Bool"), ("PctLagPhase", "Real")],
         ensures=[
             ("C05.hiref_range", "0 <= HIref and HIref <= Crop.HI0"),
             ("C05.hiref_le_final", "implies(growing_season, HIref <= NewCond_HIfinal)"),
             ("C06.hiref_positive_means_yield_formation", "implies(HIref > 0, %s > 0)" % _HIT2),
             ("C05.hiref_lag_range", "0 <= PctLagPhase and PctLagPhase <= 100"),
             ("C05.hiref_zero_out_of_season", "implies(not growing_season, HIref == 0)"),
             ("C07.yield_form_flag", "implies(growing_season, YieldForm == (NewCond_DAP - NewCond_DelayedCDs > Crop.HIstartCD))"),
         ],
         # two days of the same season (same crop, same final harvest index): the reference harvest index of the later adjusted day is not smaller
         options=dict(relational=[dict(vary=["NewCond_DAP", "NewCond_DelayedCDs", "NewCond_CC", "NewCond_CC_prev", "NewCond_CCxW", "NewCond_HIref",
                                             "NewCond_YieldForm", "NewCond_PctLagPhase"],
                                       pre="growing_season and NewCond_DAP_1 - NewCond_DelayedCDs_1 <= NewCond_DAP_2 - NewCond_DelayedCDs_2",
                                       split=["Crop.CropType == 3",
                                              "NewCond_DAP_1 - NewCond_DelayedCDs_1 - Crop.HIstartCD - 1 <= 0",
                                              "NewCond_DAP_1 - NewCond_DelayedCDs_1 - Crop.HIstartCD - 1 < Crop.tLinSwitch",
                                              "NewCond_DAP_2 - NewCond_DelayedCDs_2 - Crop.HIstartCD - 1 < Crop.tLinSwitch"],
                                       post=[("C05.hiref_nondecreasing_in_adjusted_time", "HIref_1 <= HIref_2"),
                                             ("C05.yield_formation_once_started_stays", "implies(YieldForm_1, YieldForm_2)")])]),
         props=("C05", "C06", "C16"))

# ----------------------------------------------------------------------------- HIadj_pre_anthesis / pollination / post_anthesis
contract(SOL + "HIadj_pre_anthesis.py", "HIadj_pre_anthesis",
         params=dict(NewCond_B="Real", NewCond_B_NS="Real", NewCond_CC="Real", Crop_dHI_pre="Real"),
         requires=["implies(Crop_dHI_pre > 0, Crop_dHI_pre > 1)", "NewCond_B >= 0"],
         returns=[("Fpre", "Real")],
         ensures=[("C05.fpre_range", "0 <= Fpre and Fpre <= 1 + max(Crop_dHI_pre, 0) / 100")],
         options=dict(tier_b_sites=[("div_nonzero", "NewCond_B / NewCond_B_NS")]),
         note="B/B_NS: the no-stress biomass at the start of yield formation is positive in every season with any potential transpiration; not a state invariant "
              "that is proved here, so the division is served by the bounded C16 check only",
         props=("C05", "C16"))

contract(SOL + "HIadj_pollination.py", "HIadj_pollination",
         params=dict(NewCond_CC="Real", NewCond_Fpol="Real", Crop_FloweringCD="Real", Crop_CCmin="Real", Crop_exc="Real", Ksw=OBJ("Ksw"), Kst=OBJ("Kst"),
                     HIt="Int"),
         requires=["HIt >= 0", "Crop_FloweringCD > 0", "0 <= NewCond_Fpol and NewCond_Fpol <= 1", "Crop_exc >= -100",
                   "Ksw.pol >= 0 and Kst.PolC >= 0 and Kst.PolH >= 0"],
         returns=[("Fpol", "Real")],
         ensures=[("C05.fpol_range", "0 <= Fpol and Fpol <= 1")],
         props=("C05", "C16"))

contract(SOL + "HIadj_post_anthesis.py", "HIadj_post_anthesis",
         params=dict(NewCond_DelayedCDs="Int", NewCond_sCor1="Real", NewCond_sCor2="Real", NewCond_DAP="Int", NewCond_Fpre="Real", NewCond_CC="Real",
                     NewCond_fpost_upp="Real", NewCond_fpost_dwn="Real", Crop=OBJ("Crop"), Ksw=OBJ("Ksw")),
         requires=["NewCond_DAP - NewCond_DelayedCDs - 1 - Crop.HIstartCD > 0", "0 <= Ksw.sto"],
         returns=[("sCor1", "Real"), ("sCor2", "Real"), ("fpost_upp", "Real"), ("fpost_dwn", "Real"), ("Fpost", "Real")],
         ensures=[],
         props=("C05", "C16"))

# ----------------------------------------------------------------------------- harvest_index
_HI_HIT = "(InitCond.dap - InitCond.delayed_cds - Crop.HIstartCD - 1)"
contract(SOL + "harvest_index.py", "harvest_index",
         params=dict(prof=OBJ("SoilProfile"), Soil_zTop="Real", Crop=OBJ("Crop"), InitCond=OBJ("InitialCondition"), et0="Real", temp_max="Real",
                     temp_min="Real", growing_season="Bool"),
         ghost={"n": "Int"},
         requires=contracts.water.WF() + [
             contracts.water.WATER_INV("InitCond.th"),
             "forall(j, 0, n, prof.dz[j] >= 0.01)", "forall(j, 0, n, prof.th_fc[j] - prof.th_wp[j] >= 0.01)",
             "Crop.Zmin >= 0.02", "Crop.Aer >= 1 or Crop.Aer <= 0",
             "max(InitCond.z_root, Crop.Zmin) + 0.005 <= prof.dzsum[n-1]",
             "Soil_zTop >= 0.01",
             "forall(k, 0, 4, 0 <= Crop.p_up[k] and Crop.p_up[k] <= 1)", "forall(k, 0, 4, 0 <= Crop.p_lo[k] and Crop.p_lo[k] <= 1)",
             "forall(k, 0, 3, Crop.fshape_w[k] != 0)",
             "Crop.PolHeatStress == 0 or Crop.PolHeatStress == 1", "Crop.PolColdStress == 0 or Crop.PolColdStress == 1",
             "Crop.Tmin_lo < Crop.Tmin_up", "Crop.fshape_b >= 0",
             "Crop.CropType == 1 or Crop.CropType == 2 or Crop.CropType == 3",
             "Crop.HI0 >= 0", "Crop.dHI0 >= -100", "Crop.FloweringCD > 0",
             "implies(Crop.dHI_pre > 0, Crop.dHI_pre > 1)",
             # crop state invariants (established by the previous steps of the day / earlier days)
             "implies(growing_season, 0 <= InitCond.hi_ref and InitCond.hi_ref <= Crop.HI0)",
             "implies(growing_season, InitCond.harvest_index <= Crop.HI0 and InitCond.harvest_index_adj <= Crop.HI0 * (1 + max(Crop.dHI0, 0) / 100))",
             "0 <= InitCond.f_pol and InitCond.f_pol <= 1", "InitCond.biomass >= 0", "Crop.exc >= -100",
         ],
         returns=[("NewCond", ("Param", "InitCond"))],
         ensures=[
             ("C05.hi_le_reference", "NewCond.harvest_index <= Crop.HI0"),
             ("C05.hi_adj_le_reference_plus_max_increase", "NewCond.harvest_index_adj <= Crop.HI0 * (1 + max(Crop.dHI0, 0) / 100)"),
             ("C05.hi_tracks_reference", "implies(growing_season, NewCond.harvest_index == NewCond.hi_ref or NewCond.harvest_index == old(InitCond.harvest_index))"),
             ("C05.hi_zero_out_of_season", "implies(not growing_season, NewCond.harvest_index == 0 and NewCond.harvest_index_adj == 0)"),
             ("C05.hi_fpol_range", "0 <= NewCond.f_pol and NewCond.f_pol <= 1"),
             ("C12.hi_same_object", "same(NewCond, InitCond)"),
         ],
         assigns=["InitCond.pre_adj", "InitCond.f_pre", "InitCond.f_pol", "InitCond.s_cor1", "InitCond.s_cor2", "InitCond.fpost_upp", "InitCond.fpost_dwn",
                  "InitCond.f_post", "InitCond.harvest_index", "InitCond.harvest_index_adj"],
         props=("C05", "C12", "C16"))

# ----------------------------------------------------------------------------- growth_stage
contract(SOL + "growth_stage.py", "growth_stage",
         params=dict(Crop=OBJ("Crop"), InitCond=OBJ("InitialCondition"), growing_season="Bool"),
         requires=["implies(growing_season, Crop.CalendarType == 1 or Crop.CalendarType == 2)"],
         returns=[("NewCond", ("Param", "InitCond"))],
         ensures=[("C13.growth_stage_range", "implies(growing_season, 1 <= NewCond.growth_stage and NewCond.growth_stage <= 4)"),
                  # the stage (which selects the soil-moisture threshold of irrigation strategy 1) follows the crop calendar in the crop's own time
                  # unit: days after planting minus delayed days, or cumulative degree days minus delayed degree days
                  ("C13.growth_stage_follows_crop_calendar",
                   "implies(growing_season, NewCond.growth_stage == "
                   "ite({t} <= Crop.Canopy10Pct, 1, ite({t} <= Crop.MaxCanopy, 2, ite({t} <= Crop.Senescence, 3, 4))))".format(
                       t="ite(Crop.CalendarType == 1, old(InitCond.dap) - old(InitCond.delayed_cds), old(InitCond.gdd_cum) - old(InitCond.delayed_gdds))")),
                  ("C13.growth_stage_zero_out_of_season", "implies(not growing_season, NewCond.growth_stage == 0)"),
                  ("C12.growth_stage_same_object", "same(NewCond, InitCond)")],
         assigns=["InitCond.growth_stage"],
         props=("C13", "C12", "C16"))

# ----------------------------------------------------------------------------- germination
contract(SOL + "germination.py", "germination",
         params=dict(InitCond=OBJ("InitialCondition"), Soil_zGerm="Real", prof=OBJ("SoilProfile"), Crop_GermThr="Real", Crop_PlantMethod="Int",
                     gdd="Real", growing_season="Bool"),
         ghost={"n": "Int"},
         requires=contracts.water.WF() + ["0 < Soil_zGerm and Soil_zGerm <= prof.dzsum[n-1]",
                                          "forall(j, 0, n, prof.dz[j] >= 0.01)", "forall(j, 0, n, prof.th_fc[j] - prof.th_wp[j] >= 0.01)",
                                          "Soil_zGerm >= 0.01",
                                          "InitCond.delayed_cds >= 0"],
         returns=[("NewCond", ("Param", "InitCond"))],
         ensures=[("C12.germination_same_object", "same(NewCond, InitCond)"),
                  ("C05.germination_reset_out_of_season", "implies(not growing_season, not NewCond.germination and NewCond.delayed_cds == 0 and NewCond.delayed_gdds == 0)"),
                  ("C07.germination_delay_counts", "NewCond.delayed_cds >= 0 and implies(growing_season and old(InitCond.germination), NewCond.delayed_cds == old(InitCond.delayed_cds))"),
                  ("C07.germination_delay_step", "implies(growing_season, NewCond.delayed_cds >= old(InitCond.delayed_cds) and NewCond.delayed_cds <= old(InitCond.delayed_cds) + 1)")],
         loops={"L1": dict(invariant=[("cs", "0 <= comp_sto and comp_sto < n"),
                                      ("lb", "implies(ii <= comp_sto, WrFC - WrWP >= 0.099 * ii)"),
                                      ("pos", "implies(ii == comp_sto + 1, WrFC - WrWP > 0)")])},
         assigns=["InitCond.germination", "InitCond.protected_seed", "InitCond.delayed_cds", "InitCond.delayed_gdds"],
         props=("C05", "C07", "C12", "C16"))

# ----------------------------------------------------------------------------- canopy_cover
_CC_NN = ["InitCond.canopy_cover >= 0", "InitCond.canopy_cover_ns >= 0", "InitCond.cc0_adj >= 0", "InitCond.ccx_act_ns >= 0",
          "InitCond.ccx_w >= 0", "InitCond.ccx_w_ns >= 0", "InitCond.ccx_early_sen >= 0", "InitCond.t_early_sen >= 0"]
contract(SOL + "canopy_cover.py", "canopy_cover",
         params=dict(Crop=OBJ("Crop"), prof=OBJ("SoilProfile"), Soil_zTop="Real", InitCond=OBJ("InitialCondition"), gdd="Real", et0="Real",
                     growing_season="Bool"),
         ghost={"n": "Int"},
         requires=contracts.water.WF() + [
             contracts.water.WATER_INV("InitCond.th"),
             "forall(j, 0, n, prof.dz[j] >= 0.01)", "forall(j, 0, n, prof.th_fc[j] - prof.th_wp[j] >= 0.01)",
             "Crop.Zmin >= 0.02", "Crop.Aer >= 1 or Crop.Aer <= 0",
             "max(InitCond.z_root, Crop.Zmin) + 0.005 <= prof.dzsum[n-1]",
             "Soil_zTop >= 0.01",
             "forall(k, 0, 4, 0 <= Crop.p_up[k] and Crop.p_up[k] <= 1)", "forall(k, 0, 4, 0 <= Crop.p_lo[k] and Crop.p_lo[k] <= 1)",
             "forall(k, 0, 3, Crop.fshape_w[k] != 0)",
             "implies(growing_season, Crop.CalendarType == 1 or Crop.CalendarType == 2)",
             "implies(growing_season, 0 < Crop.CC0 and Crop.CC0 < Crop.CCx and Crop.CCx <= 1 and Crop.CGC > 0 and Crop.CDC > 0 and gdd >= 0)",
             # the exponential start of the canopy stays a fraction (valid_crop + weather: checked for the built-in crops over their degree-day range)
             "implies(growing_season, Crop.CC0 * exp(Crop.CGC * ite(Crop.CalendarType == 1, 1, gdd)) <= 1)",
             "implies(growing_season, InitCond.cc0_adj <= Crop.CC0)", "InitCond.canopy_cover <= 1 and InitCond.canopy_cover_ns <= 1 and InitCond.ccx_w <= 1 and InitCond.ccx_w_ns <= 1 and InitCond.ccx_act_ns <= 1",
         ] + _CC_NN,
         returns=[("NewCond", ("Param", "InitCond"))],
         ensures=[
             ("C05.canopy_nonneg", "NewCond.canopy_cover >= 0 and NewCond.canopy_cover_ns >= 0"),
             ("C05.canopy_le_no_stress", "NewCond.canopy_cover <= NewCond.canopy_cover_ns"),
             ("C04.canopy_adj_range", "0 <= NewCond.canopy_cover_adj and NewCond.canopy_cover_adj <= 1 and 0 <= NewCond.canopy_cover_adj_ns and NewCond.canopy_cover_adj_ns <= 1"),
             ("C05.canopy_zero_out_of_season", "implies(not growing_season, NewCond.canopy_cover == 0 and NewCond.canopy_cover_ns == 0 and NewCond.canopy_cover_adj == 0 and NewCond.ccx_w == 0)"),
             ("C05.canopy_state_nonneg", "NewCond.cc0_adj >= 0 and NewCond.ccx_act_ns >= 0 and NewCond.ccx_w >= 0 and NewCond.ccx_w_ns >= 0 and NewCond.ccx_early_sen >= 0 and NewCond.t_early_sen >= 0"),
             ("C05.canopy_le_1", "NewCond.canopy_cover <= 1 and NewCond.canopy_cover_ns <= 1 and NewCond.ccx_w <= 1 and NewCond.ccx_w_ns <= 1 and NewCond.ccx_act_ns <= 1 and implies(growing_season, NewCond.cc0_adj <= Crop.CC0)"),
             ("C06.canopy_prev", "NewCond.cc_prev == old(InitCond.canopy_cover)"),
             ("C12.canopy_same_object", "same(NewCond, InitCond)"),
         ],
         assigns=["InitCond.cc_prev", "InitCond.canopy_cover", "InitCond.canopy_cover_ns", "InitCond.canopy_cover_adj", "InitCond.canopy_cover_adj_ns",
                  "InitCond.ccx_act", "InitCond.ccx_act_ns", "InitCond.ccx_w", "InitCond.ccx_w_ns", "InitCond.cc0_adj", "InitCond.protected_seed",
                  "InitCond.crop_dead", "InitCond.premat_senes", "InitCond.ccx_early_sen", "InitCond.t_early_sen"],
         options=dict(inline=("cc_development", "cc_required_time", "adjust_CCx", "update_CCx_CDC"),
                      # the sites that depend on crop-state invariants not proved inductive here (canopy below the cover at the start of early senescence;
                      # previous-day canopy strictly between the initial cover and CCx inside cc_required_time): every other log/division site IS claimed
                      tier_b_sites=[("div_nonzero", "cc_prev / CCo"), ("log_positive", "cc_prev / CCo"), ("div_nonzero", "CCx - cc_prev"), ("log_positive", "CCx - cc_prev"), ("div_nonzero", "0.25 * CCx * CCx / CCo"), ("div_nonzero", "cc_prev / (1 - 0.05"),
                                    ("log_positive", "InitCond_CC / NewCond.ccx_early_sen")],
                      # cut before the adjusted covers are computed: only the sign/order facts of the two covers are carried over
                      cuts=[dict(before="NewCond.canopy_cover_adj = <anything but the constant 0>", before_re=r"NewCond\.canopy_cover_adj = (?!0$)",
                                 **{"assert": ["NewCond.canopy_cover >= 0", "NewCond.canopy_cover_ns >= NewCond.canopy_cover",
                                               "NewCond.canopy_cover <= 1", "NewCond.canopy_cover_ns <= 1", "NewCond.cc0_adj <= Crop.CC0", "NewCond.ccx_w <= 1", "NewCond.ccx_w_ns <= 1", "NewCond.ccx_act_ns <= 1",
                                               "NewCond.cc0_adj >= 0", "NewCond.ccx_act_ns >= 0", "NewCond.ccx_w >= 0",
                                               "NewCond.ccx_w_ns >= 0", "NewCond.ccx_early_sen >= 0", "NewCond.t_early_sen >= 0"]},
                                 havoc=["NewCond.canopy_cover", "NewCond.canopy_cover_ns", "NewCond.cc0_adj", "NewCond.ccx_act", "NewCond.ccx_act_ns",
                                        "NewCond.ccx_w", "NewCond.ccx_w_ns", "NewCond.ccx_early_sen", "NewCond.t_early_sen"])]),
         note="seven log/division sites (inside cc_required_time, update_CCx_CDC and the early-senescence branch) depend on a crop-state invariant (previous-day canopy strictly "
              "between the initial cover and CCx, canopy below the cover at the start of early senescence, bounded elapsed time) that is not proved inductive here: those "
              "sites are served by the bounded C16 check only; every other log/division site of the function and of its inlined helpers is claimed and discharged",
         props=("C04", "C05", "C12", "C16"))

# ----------------------------------------------------------------------------- root_development  (summary contract ASSUMED at the daily step's call site; body verified below)
contract(SOL + "root_development.py", "root_development",
         params=dict(Crop=OBJ("Crop"), prof=OBJ("SoilProfile"), NewCond_DAP="Int", NewCond_Zroot="Real", NewCond_DelayedCDs="Int", NewCond_GDDcum="Real",
                     NewCond_DelayedGDDs="Real", NewCond_TrRatio="Real", NewCond_th=ARR("Real", "n"), NewCond_CC="Real", NewCond_CC_NS="Real",
                     NewCond_Germination="Bool", NewCond_rCor="Real", NewCond_Tpot="Real", NewCond_zGW="Real", gdd="Real", growing_season="Bool",
                     water_table_presence="Int"),
         ghost={"n": "Int"},
         # the state facts the proof of the real body (root_development#body) starts from are obligations of the daily step at its call site
         requires=[("root_state_tr_ratio_nonneg", "NewCond_TrRatio >= 0"), ("root_state_depth_nonneg", "NewCond_Zroot >= 0"), ("root_degree_days_nonneg", "gdd >= 0"),
                   ("root_state_rcor_nonneg", "NewCond_rCor >= 0")],
         returns=[("Zroot", "Real"), ("rCor", "Real")],
         ensures=[("C05.root_trusted_range", "implies(not growing_season, Zroot == 0)"),
                  ("C05.root_trusted_nonneg", "Zroot >= 0"),
                  ("C05.root_trusted_rcor", "rCor >= 0"),
                  ("C05.root_trusted_depth", "max(Zroot, Crop.Zmin) + 0.005 <= prof.dzsum[n-1]")],
         assigns=[],
         trusted=True,
         note="ASSUMED summary used at the call site of the daily step (no heap effect; the facts the other callees need about the returned depth). The first two clauses "
              "are also PROVED on the real body (root_development#body: C05.root_zero_out_of_season, C05.root_rcor_at_least_one_in_season / root_rcor_kept_out_of_season); "
              "the third (the depth stays inside the profile) depends on the whole-history upper envelope Zroot <= Zmax and on profile deepening at initialisation: bounded only",
         props=("C05",))

# the layer walk of root_development: ASSUMED contract (index-array sums over the soil horizons are outside the engine's subset). For the profile of the
# call the result is a function rdepth(Zr, Zmin) of the potential depth; the solver front end instantiates what is assumed about it: between Zmin and Zr,
# non-decreasing in Zr. The assumption is evaluated on the real helper by the bounded module e3/root_helper.py (never counted as proved).
contract(SOL + "root_development.py", "_depth_after_restrictive_horizons",
         params=dict(Zr="Real", Zmin="Real", prof=OBJ("SoilProfile"), Soil_nLayer="Int"),
         requires=[("walk_starts_at_or_below_zmin", "Zr >= Zmin")],
         returns=[("ZrOUT", "Real")],
         ensures=[("C05.layer_walk_is_a_function", "ZrOUT == rdepth(Zr, Zmin)"),
                  ("C05.layer_walk_range", "Zmin <= ZrOUT and ZrOUT <= Zr")],
         assigns=[],
         trusted=True,
         note="ASSUMED contract of the helper (bounded-checked by e3/root_helper.py): pure, result between Zmin and Zr, non-decreasing in Zr for a fixed profile",
         props=("C05",))

# root_development, real body, verified against the assumed contract of its layer-walk helper
contract(SOL + "root_development.py", "root_development#body",
         params=dict(Crop=OBJ("Crop"), prof=OBJ("SoilProfile"), NewCond_DAP="Int", NewCond_Zroot="Real", NewCond_DelayedCDs="Int", NewCond_GDDcum="Real",
                     NewCond_DelayedGDDs="Real", NewCond_TrRatio="Real", NewCond_th=ARR("Real", "n"), NewCond_CC="Real", NewCond_CC_NS="Real",
                     NewCond_Germination="Bool", NewCond_rCor="Real", NewCond_Tpot="Real", NewCond_zGW="Real", gdd="Real", growing_season="Bool",
                     water_table_presence="Int"),
         ghost={"n": "Int"},
         requires=contracts.water.WF() + [
             "forall(j, 0, n, prof.th_fc[j] - prof.th_wp[j] >= 0.01)",
             "implies(growing_season, Crop.CalendarType == 1 or Crop.CalendarType == 2)",
             "Crop.Zmin > 0 and Crop.Zmin <= Crop.Zmax", "Crop.fshape_r > 0", "0 <= Crop.PctZmin and Crop.PctZmin <= 100",
             "Crop.MaxRooting > Crop.Emergence and Crop.Emergence >= 0",
             "0 <= Crop.p_up[1] and Crop.p_up[1] < 1", "Crop.fshape_w[1] != 0", "Crop.fshape_ex != 0",
             "Crop.SxBot > 0", "Crop.SxTop >= 0", "NewCond_Zroot >= 0", "gdd >= 0", "0 <= NewCond_TrRatio", "NewCond_rCor >= 0",
             # state invariant carried from the previous day (established by this function: clause C05.root_at_least_zmin)
             "implies(growing_season and NewCond_DAP != 1, NewCond_Zroot >= Crop.Zmin)",
             "implies(growing_season, max(NewCond_Zroot, Crop.Zmin) + Crop.Zmax <= prof.dzsum[n-1])",
         ],
         returns=[("Zroot", "Real"), ("rCor", "Real")],
         ensures=[("C05.root_zero_out_of_season", "implies(not growing_season, Zroot == 0)"),
                  ("C05.root_not_below_water_table", "implies(growing_season and water_table_presence == 1 and NewCond_zGW > 0, Zroot <= max(NewCond_zGW, Crop.Zmin))"),
                  ("C05.root_no_expansion_before_germination", "implies(growing_season and not NewCond_Germination, Zroot <= ite(NewCond_DAP == 1, Crop.Zmin, max(NewCond_Zroot, Crop.Zmin)))"),
                  ("C05.root_no_expansion_in_early_senescence", "implies(growing_season and NewCond_CC <= 0 and NewCond_CC_NS > 0.5, Zroot <= ite(NewCond_DAP == 1, Crop.Zmin, max(NewCond_Zroot, Crop.Zmin)))"),
                  ("C05.root_at_least_zmin", "implies(growing_season, Zroot >= Crop.Zmin)"),
                  ("C05.root_never_shrinks_without_water_table", "implies(growing_season and not (water_table_presence == 1 and NewCond_zGW > 0), Zroot >= ite(NewCond_DAP == 1, Crop.Zmin, NewCond_Zroot))"),
                  ("C05.root_shrinks_only_to_the_water_table", "implies(growing_season and NewCond_DAP != 1 and Zroot < NewCond_Zroot, water_table_presence == 1 and Zroot >= NewCond_zGW)"),
                  ("C05.root_daily_gain_at_most_potential", "implies(growing_season, Zroot <= ite(NewCond_DAP == 1, Crop.Zmin, NewCond_Zroot) + Crop.Zmax - Crop.Zmin)"),
                  ("C05.root_rcor_at_least_one_in_season", "implies(growing_season, rCor >= 1)"),
                  ("C05.root_rcor_kept_out_of_season", "implies(not growing_season, rCor == NewCond_rCor)"),
                  # REFINEMENT: the clauses of the summary contract (assumed at the daily step's call site) re-proved verbatim on the real body; the summary's
                  # fourth clause (depth inside the profile) is not among them: whole-history envelope, bounded only
                  ("C05.refines_summary.root_trusted_range", "implies(not growing_season, Zroot == 0)"),
                  ("C05.refines_summary.root_trusted_nonneg", "Zroot >= 0"),
                  ("C05.refines_summary.root_trusted_rcor", "rCor >= 0"),
                  ],
         assigns=[],
         options=dict(function="root_development",
                      # assert/havoc/assume cuts: only "the increment is non-negative and at most the width of the envelope" is carried from one stage of
                      # the computation (layer walk -> transpiration reduction -> dry-soil reduction -> flags) to the next
                      cuts=[dict(before="if NewCond_TrRatio < 0.9999", **{"assert": ["dZr >= 0", "dZr <= Crop.Zmax - Crop.Zmin"]}, havoc=["dZr"]),
                            dict(before="if dZr > 0.001", **{"assert": ["dZr >= 0", "dZr <= Crop.Zmax - Crop.Zmin"]}, havoc=["dZr"]),
                            dict(before="if NewCond_CC <= 0 and NewCond_CC_NS > 0.5", **{"assert": ["dZr >= 0", "dZr <= Crop.Zmax - Crop.Zmin"]}, havoc=["dZr"])]),
         note="the layer walk (helper _depth_after_restrictive_horizons) is called through its ASSUMED contract (function of the potential depth, between Zmin and "
              "that depth, non-decreasing; bounded-checked), so the statements around it - which depth is converted, the increment, the stress reductions, the "
              "clamps - are verified: never below Zmin, never shrinks except onto a water table, water-table clamp, no expansion before germination / in early "
              "senescence. The upper envelope Zroot <= Zmax is a whole-history invariant (bounded monitors)",
         props=("C05", "C19"))

# ----------------------------------------------------------------------------- initialisers that are plain scalar loops: calculate_HIGC, calculate_HI_linear
INIT = "aquacrop/initialize/"
_C0 = "(crop_HIini * (1 / 0.98 - 1) / (crop_HI0 - crop_HIini))"          # the loop of calculate_HIGC runs while exp(-HIGC*tHI) >= c0
contract(INIT + "calculate_HIGC.py", "calculate_HIGC",
         params=dict(crop_YldFormCD="Int", crop_HI0="Real", crop_HIini="Real"),
         requires=["crop_YldFormCD >= 1", "0 < crop_HIini", "crop_HIini < 0.98 * crop_HI0", "crop_HI0 <= 1"],
         returns=[("HIGC", "Real")],
         ensures=[("C05.higc_positive", "HIGC > 0")],
         loops={"L1": dict(invariant=[("pos", "HIGC >= 0.001 and tHI == crop_YldFormCD"),
                                      ("link", "(HIest == 0 and HIGC == 0.001) or (HIGC >= 0.002 and HIest == crop_HIini * crop_HI0 / (crop_HIini + (crop_HI0 - crop_HIini) * exp(-HIGC * tHI)))")],
                           # terminates: the guard HIest <= 0.98*HI0 is equivalent to HIGC <= -log(c0)/tHI, and HIGC grows by 0.001 per iteration
                           decreases="-log(%s) / tHI - HIGC + 0.001" % _C0, decreases_step=0.001)},
         note="termination needs YldFormCD >= 1: for YldFormCD <= 0 (known finding C16, SwitchGDD=1 in a cool window) the loop never ends",
         props=("C05", "C16"))

contract(INIT + "calculate_HI_linear.py", "calculate_HI_linear",
         params=dict(crop_YldFormCD="Int", crop_HIini="Real", crop_HI0="Real", crop_HIGC="Real"),
         requires=["crop_YldFormCD >= 1", "0 < crop_HIini", "crop_HIini < crop_HI0", "crop_HIGC >= 0"],
         returns=[("tLinSwitch", "Int"), ("dHILinear", "Real")],
         ensures=[("C05.hi_linear_switch_range", "tLinSwitch >= 0 and tLinSwitch < crop_YldFormCD")],
         loops={"L1": dict(invariant=[("range", "0 <= ti and ti <= tmax and tmax == crop_YldFormCD"), ("first", "ti >= 1 or HIest == 0")], decreases="tmax - ti")},
         props=("C05", "C16"))
