"""Contracts of the crop-yield functions (C05 envelopes, C06 yield algebra, C16 safety)."""
from vc.spec import contract, ARR, OBJ, declare_fields
import contracts.scalar      # Crop field types
import contracts.water       # SoilProfile / InitialCondition field types

SOL = "aquacrop/solution/"
declare_fields("Ksw", default="Real")
declare_fields("Kst", default="Real")

# ----------------------------------------------------------------------------- biomass_accumulation
_HIT = "(NewCond_DAP - NewCond_DelayedCDs - Crop.HIstartCD - 1)"
contract(SOL + "biomass_accumulation.py", "biomass_accumulation",
         params=dict(Crop=OBJ("Crop"), NewCond_DAP="Int", NewCond_DelayedCDs="Int", NewCond_HIref="Real", NewCond_PctLagPhase="Real",
                     NewCond_B="Real", NewCond_B_NS="Real", Tr="Real", TrPot="Real", et0="Real", growing_season="Bool"),
         requires=["et0 > 0", "Tr >= 0", "TrPot >= 0", "Crop.WP >= 0", "0 <= Crop.WPy and Crop.WPy <= 100", "Crop.fCO2 >= 0",
                   "0 <= NewCond_PctLagPhase and NewCond_PctLagPhase <= 100",
                   "Crop.CropType == 1 or Crop.CropType == 2 or Crop.CropType == 3",
                   "Crop.YldFormCD > 0",
                   # state invariant established by HIref_current_day: a positive reference harvest index means yield formation has started
                   "implies(NewCond_HIref > 0, %s > 0)" % _HIT],
         returns=[("B", "Real"), ("B_NS", "Real")],
         ensures=[
             ("C05.biomass_nondecreasing", "implies(growing_season, B >= NewCond_B and B_NS >= NewCond_B_NS)"),
             ("C06.biomass_gain_upper", "implies(growing_season, B - NewCond_B <= Crop.WP * Crop.fCO2 * (Tr / et0))"),
             ("C06.biomass_gain_lower", "implies(growing_season, B - NewCond_B >= Crop.WP * (Crop.WPy / 100) * Crop.fCO2 * (Tr / et0))"),
             ("C06.biomass_ns_gain", "implies(growing_season, B_NS - NewCond_B_NS <= Crop.WP * Crop.fCO2 * (TrPot / et0) and "
                                     "B_NS - NewCond_B_NS >= Crop.WP * (Crop.WPy / 100) * Crop.fCO2 * (TrPot / et0))"),
             ("C05.biomass_zero_out_of_season", "implies(not growing_season, B == 0 and B_NS == 0)"),
         ],
         props=("C05", "C06", "C16"))

# ----------------------------------------------------------------------------- HIref_current_day
_HIT2 = "(NewCond_DAP - NewCond_DelayedCDs - Crop.HIstartCD - 1)"
contract(SOL + "HIref_current_day.py", "HIref_current_day",
         params=dict(NewCond_HIref="Real", NewCond_HIfinal="Real", NewCond_DAP="Int", NewCond_DelayedCDs="Int", NewCond_YieldForm="Bool",
                     NewCond_PctLagPhase="Real", NewCond_CC="Real", NewCond_CC_prev="Real", NewCond_CCxW="Real", Crop=OBJ("Crop"), growing_season="Bool"),
         requires=["0 < Crop.HIini and Crop.HIini < Crop.HI0", "Crop.HIGC >= 0", "0 <= NewCond_HIfinal and NewCond_HIfinal <= Crop.HI0",
                   "Crop.CropType == 1 or Crop.CropType == 2 or Crop.CropType == 3", "Crop.dHILinear >= 0", "Crop.tLinSwitch >= 0"],
         returns=[("HIref", "Real"), ("YieldForm", "Bool"), ("PctLagPhase", "Real")],
         ensures=[
             ("C05.hiref_range", "0 <= HIref and HIref <= Crop.HI0"),
             ("C05.hiref_le_final", "HIref <= NewCond_HIfinal"),
             ("C06.hiref_positive_means_yield_formation", "implies(HIref > 0, %s > 0)" % _HIT2),
             ("C05.hiref_lag_range", "implies(growing_season and %s > 0, 0 <= PctLagPhase and PctLagPhase <= 100)" % _HIT2),
             ("C05.hiref_zero_out_of_season", "implies(not growing_season, HIref == 0)"),
             ("C07.yield_form_flag", "implies(growing_season, YieldForm == (NewCond_DAP - NewCond_DelayedCDs > Crop.HIstartCD))"),
         ],
         props=("C05", "C06", "C16"))

# ----------------------------------------------------------------------------- HIadj_pre_anthesis / pollination / post_anthesis
contract(SOL + "HIadj_pre_anthesis.py", "HIadj_pre_anthesis",
         params=dict(NewCond_B="Real", NewCond_B_NS="Real", NewCond_CC="Real", Crop_dHI_pre="Real"),
         requires=["implies(Crop_dHI_pre > 0, NewCond_B_NS > 0 and Crop_dHI_pre > 1)", "NewCond_B >= 0"],
         returns=[("Fpre", "Real")],
         ensures=[("C05.fpre_range", "0 <= Fpre and Fpre <= 1 + max(Crop_dHI_pre, 0) / 100")],
         props=("C05", "C16"))

contract(SOL + "HIadj_pollination.py", "HIadj_pollination",
         params=dict(NewCond_CC="Real", NewCond_Fpol="Real", Crop_FloweringCD="Real", Crop_CCmin="Real", Crop_exc="Real", Ksw=OBJ("Ksw"), Kst=OBJ("Kst"),
                     HIt="Int"),
         requires=["HIt >= 0", "Crop_FloweringCD > 0", "0 <= NewCond_Fpol and NewCond_Fpol <= 1", "Crop_exc >= -100",
                   "Ksw.pol >= 0 and Kst.PolC >= 0 and Kst.PolH >= 0"],
         returns=[("Fpol", "Real")],
         ensures=[("C05.fpol_range", "0 <= Fpol and Fpol <= 1")],
         props=("C05", "C16"))

contract(SOL + "HIadj_post_anthesis.py", "HIadj_post_anthesis",
         params=dict(NewCond_DelayedCDs="Int", NewCond_sCor1="Real", NewCond_sCor2="Real", NewCond_DAP="Int", NewCond_Fpre="Real", NewCond_CC="Real",
                     NewCond_fpost_upp="Real", NewCond_fpost_dwn="Real", Crop=OBJ("Crop"), Ksw=OBJ("Ksw")),
         requires=["NewCond_DAP - NewCond_DelayedCDs - 1 - Crop.HIstartCD > 0", "0 <= Ksw.sto"],
         returns=[("sCor1", "Real"), ("sCor2", "Real"), ("fpost_upp", "Real"), ("fpost_dwn", "Real"), ("Fpost", "Real")],
         ensures=[],
         props=("C05", "C16"))

# ----------------------------------------------------------------------------- harvest_index
_HI_HIT = "(InitCond.dap - InitCond.delayed_cds - Crop.HIstartCD - 1)"
contract(SOL + "harvest_index.py", "harvest_index",
         params=dict(prof=OBJ("SoilProfile"), Soil_zTop="Real", Crop=OBJ("Crop"), InitCond=OBJ("InitialCondition"), et0="Real", temp_max="Real",
                     temp_min="Real", growing_season="Bool"),
         ghost={"n": "Int"},
         requires=contracts.water.WF() + [
             contracts.water.WATER_INV("InitCond.th"),
             "forall(j, 0, n, prof.dz[j] >= 0.01)", "forall(j, 0, n, prof.th_fc[j] - prof.th_wp[j] >= 0.01)",
             "Crop.Zmin >= 0.02", "Crop.Aer >= 1",
             "max(InitCond.z_root, Crop.Zmin) + 0.005 <= prof.dzsum[n-1]",
             "Soil_zTop >= prof.dzsum[0] + 0.005 or (is_int(100 * Soil_zTop) and Soil_zTop >= prof.dzsum[0])",
             "forall(k, 0, 4, 0 <= Crop.p_up[k] and Crop.p_up[k] <= 1)", "forall(k, 0, 4, 0 <= Crop.p_lo[k] and Crop.p_lo[k] <= 1)",
             "forall(k, 0, 3, Crop.fshape_w[k] != 0)",
             "Crop.PolHeatStress == 0 or Crop.PolHeatStress == 1", "Crop.PolColdStress == 0 or Crop.PolColdStress == 1",
             "Crop.Tmin_lo < Crop.Tmin_up", "Crop.fshape_b >= 0",
             "Crop.CropType == 1 or Crop.CropType == 2 or Crop.CropType == 3",
             "Crop.HI0 >= 0", "Crop.dHI0 >= 0", "Crop.FloweringCD > 0",
             "implies(Crop.dHI_pre > 0, Crop.dHI_pre > 1)",
             # crop state invariants (established by the previous steps of the day / earlier days)
             "0 <= InitCond.hi_ref and InitCond.hi_ref <= Crop.HI0",
             "InitCond.harvest_index <= Crop.HI0 and InitCond.harvest_index_adj <= Crop.HI0 * (1 + Crop.dHI0 / 100)",
             "0 <= InitCond.f_pol and InitCond.f_pol <= 1", "InitCond.biomass >= 0", "Crop.exc >= -100",
             "implies(growing_season and InitCond.yield_form and %s >= 0 and not InitCond.pre_adj and Crop.dHI_pre > 0, InitCond.biomass_ns > 0)" % _HI_HIT,
         ],
         returns=[("NewCond", ("Param", "InitCond"))],
         ensures=[
             ("C05.hi_le_reference", "NewCond.harvest_index <= Crop.HI0"),
             ("C05.hi_adj_le_reference_plus_max_increase", "NewCond.harvest_index_adj <= Crop.HI0 * (1 + Crop.dHI0 / 100)"),
             ("C05.hi_zero_out_of_season", "implies(not growing_season, NewCond.harvest_index == 0 and NewCond.harvest_index_adj == 0)"),
             ("C05.hi_fpol_range", "0 <= NewCond.f_pol and NewCond.f_pol <= 1"),
             ("C12.hi_same_object", "same(NewCond, InitCond)"),
         ],
         assigns=["InitCond.pre_adj", "InitCond.f_pre", "InitCond.f_pol", "InitCond.s_cor1", "InitCond.s_cor2", "InitCond.fpost_upp", "InitCond.fpost_dwn",
                  "InitCond.f_post", "InitCond.harvest_index", "InitCond.harvest_index_adj"],
         props=("C05", "C12", "C16"))

# ----------------------------------------------------------------------------- growth_stage
contract(SOL + "growth_stage.py", "growth_stage",
         params=dict(Crop=OBJ("Crop"), InitCond=OBJ("InitialCondition"), growing_season="Bool"),
         requires=["implies(growing_season, Crop.CalendarType == 1 or Crop.CalendarType == 2)"],
         returns=[("NewCond", ("Param", "InitCond"))],
         ensures=[("C13.growth_stage_range", "implies(growing_season, 1 <= NewCond.growth_stage and NewCond.growth_stage <= 4)"),
                  ("C13.growth_stage_zero_out_of_season", "implies(not growing_season, NewCond.growth_stage == 0)"),
                  ("C12.growth_stage_same_object", "same(NewCond, InitCond)")],
         assigns=["InitCond.growth_stage"],
         props=("C13", "C12", "C16"))

# ----------------------------------------------------------------------------- germination
contract(SOL + "germination.py", "germination",
         params=dict(InitCond=OBJ("InitialCondition"), Soil_zGerm="Real", prof=OBJ("SoilProfile"), Crop_GermThr="Real", Crop_PlantMethod="Int",
                     gdd="Real", growing_season="Bool"),
         ghost={"n": "Int"},
         requires=contracts.water.WF() + ["0 < Soil_zGerm and Soil_zGerm <= prof.dzsum[n-1]",
                                          "forall(j, 0, n, prof.dz[j] >= 0.01)", "forall(j, 0, n, prof.th_fc[j] - prof.th_wp[j] >= 0.01)",
                                          "Soil_zGerm >= 0.01",
                                          "InitCond.delayed_cds >= 0"],
         returns=[("NewCond", ("Param", "InitCond"))],
         ensures=[("C12.germination_same_object", "same(NewCond, InitCond)"),
                  ("C05.germination_reset_out_of_season", "implies(not growing_season, not NewCond.germination and NewCond.delayed_cds == 0 and NewCond.delayed_gdds == 0)"),
                  ("C07.germination_delay_counts", "NewCond.delayed_cds >= 0 and implies(growing_season and old(InitCond.germination), NewCond.delayed_cds == old(InitCond.delayed_cds))")],
         loops={"L1": dict(invariant=[("cs", "0 <= comp_sto and comp_sto < n"),
                                      ("lb", "implies(ii <= comp_sto, WrFC - WrWP >= 0.099 * ii)"),
                                      ("pos", "implies(ii == comp_sto + 1, WrFC - WrWP > 0)")])},
         assigns=["InitCond.germination", "InitCond.protected_seed", "InitCond.delayed_cds", "InitCond.delayed_gdds"],
         props=("C05", "C07", "C12", "C16"))
