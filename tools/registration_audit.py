#!/usr/bin/env python3
"""Audit: every obligation generated from any contract must be registered under at least one property check
(otherwise a proof step - e.g. the assert half of a cut, an exit lemma - would never be discharged by a registered command)."""
import os, sys, collections
V = os.path.dirname(os.path.dirname(os.path.abspath(__file__)))
sys.path.insert(0, V)
from multiprocessing import Pool
from vc import runner


def main():
    props = runner.load_contracts()
    from vc.spec import REGISTRY
    keys = [k for k, c in REGISTRY.by_key.items() if not c.trusted]
    with Pool(16) as pool:
        res = pool.map(runner._gen_worker, keys)
    unreg = collections.Counter(); total = 0
    examples = {}
    for r in res:
        c = REGISTRY.by_key[r["key"]]
        for ob in r["obligations"]:
            total += 1
            where = [p for p, spec in props.PROPS.items() if (c.name in spec.get("functions", [])) and props.registered(p, ob)]
            if not where:
                unreg[(c.name, ob["kind"])] += 1
                examples.setdefault((c.name, ob["kind"]), ob["name"])
    print("obligations generated:", total, "unregistered:", sum(unreg.values()))
    for k, n in sorted(unreg.items()):
        print("  ", k, n, examples[k])
    return 1 if unreg else 0


if __name__ == "__main__":
    sys.exit(main())
