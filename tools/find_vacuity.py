"""Find the first top-level statement after which the path condition becomes contradictory."""
import sys, ast
sys.path.insert(0, "/verif")
from vc import runner
runner.load_contracts()
from vc.spec import REGISTRY
from vc import driver, solve, interp
name = sys.argv[1]
c = REGISTRY.by_name[name][0]
orig = interp.Interp.exec_block
depth = [0]
def patched(self, stmts, st):
    if depth[0] > 0:
        return orig(self, stmts, st)
    depth[0] += 1
    try:
        outs = []
        cur = [st]
        for s in stmts:
            nxt = []
            for cst in cur:
                for (k, s2, v) in self.exec_stmt(s, cst):
                    if k == "fall": nxt.append(s2)
            cur = nxt
            for i, cs in enumerate(cur):
                bad = solve.quick_unsat(cs.pc, 8000)
                print("line %d %-60s state %d pc=%d %s" % (s.lineno, ast.unparse(s)[:60].replace("\n"," "), i, len(cs.pc), "UNSAT <<<<" if bad else "ok"))
                sys.stdout.flush()
                if bad: raise SystemExit
        return [("fall", x, None) for x in cur]
    finally:
        depth[0] -= 1
interp.Interp.exec_block = patched
driver.generate(c)
