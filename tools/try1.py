import sys, time
sys.path.insert(0, "/verif")
import importlib
from vc.spec import REGISTRY
from vc import driver, solve
import z3
mods = sys.argv[1].split(",")
for m in mods:
    importlib.import_module("contracts." + m)
only = sys.argv[2] if len(sys.argv) > 2 else None
for key, c in REGISTRY.by_key.items():
    if only and c.name != only: continue
    rep = driver.generate(c)
    print("==", c.name, "obligations", len(rep.obligations), "returns", rep.returns, "merges", rep.merges, "gen %.2fs" % rep.gen_time, "TOOL LIMIT: " + rep.tool_limit if rep.tool_limit else "")
    for n in rep.notes: print("   note:", n)
    bad = 0
    t0 = time.time()
    for ob in rep.obligations:
        r = solve.discharge_smt2(solve.to_smt2(ob.hyps, ob.goal), timeout_s=10)
        if r["verdict"] != "unsat":
            bad += 1
            print("  ", r["verdict"].upper(), ob.name, ob.note[:100], r["attempts"], r.get("error", ""))
            if r.get("model") and len(sys.argv) > 3:
                print("      model:", {k: v for k, v in list(r["model"].items())[:40]})
    for name, pc in rep.vacuity:
        if solve.quick_unsat(pc, 3000):
            print("   VACUOUS:", name)
    print("   -> %d/%d discharged in %.1fs" % (len(rep.obligations) - bad, len(rep.obligations), time.time() - t0))
