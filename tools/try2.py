import sys, time
sys.path.insert(0, "/verif")
import importlib
from vc.spec import REGISTRY
from vc import driver, solve
mods = sys.argv[1].split(",")
for m in mods:
    importlib.import_module("contracts." + m)
only = sys.argv[2]
pat = sys.argv[3] if len(sys.argv) > 3 else ""
tmo = float(sys.argv[4]) if len(sys.argv) > 4 else 10
for key, c in REGISTRY.by_key.items():
    if c.name != only: continue
    rep = driver.generate(c)
    if rep.tool_limit: print("TOOL LIMIT", rep.tool_limit)
    for ob in rep.obligations:
        if pat not in ob.name: continue
        r = solve.discharge_smt2(solve.to_smt2(ob.hyps, ob.goal), timeout_s=tmo)
        print("%-8s %6.2fs %s %s %s" % (r["verdict"], r["time"], ob.name, r["attempts"], r["stats"].get("ackermann")))
        if r["verdict"]=="sat" and len(sys.argv)>5: print(r["model"])
