#!/usr/bin/env python3
"""Regenerate /verif/MANIFEST.json from contracts/props.py (claimed checks) + tools/not_applicable.json (reasons for the rest)."""
import json, os, sys
V = os.path.dirname(os.path.dirname(os.path.abspath(__file__)))
sys.path.insert(0, V)
import importlib.util
spec = importlib.util.spec_from_file_location("props", os.path.join(V, "contracts", "props.py"))
props = importlib.util.module_from_spec(spec); spec.loader.exec_module(props)
ids = [json.loads(l)["id"] for l in open(os.path.join(V, "properties.jsonl"))]
na = json.load(open(os.path.join(V, "tools", "not_applicable.json")))
checks = []
for pid in ids:
    if pid not in props.PROPS:
        continue
    sp = props.PROPS[pid]
    checks.append({
        "property_id": pid,
        "quick_cmd": "./vcheck %s --tier quick" % pid,
        "thorough_cmd": "./vcheck %s --tier thorough" % pid,
        "evidence_file": "evidence/%s.json" % pid,
        "replay_cmd_template": "./vcheck replay {path}",
        "engine": "E1" + ("+E3" if sp.get("bounded") else ""),
        "level_claimed": {"category": sp.get("level", "proof"), "text": sp.get("level_text", sp.get("explanation", "")), "design_ref": "DESIGN.md section 4 " + pid},
        "level_note": sp.get("level_note", "assumes: reals for floats, uninterpreted exp/log with instantiated axioms, wf_profile/valid_* preconditions established by the pandas initialisers (assumed contract, bounded check only), z3/cvc5 and the VC generator trusted; see evidence 'assumptions'"),
        "technique": sp.get("technique", "contract-based deductive verification: side-car contracts on the real functions, VCs generated from /repo's AST on every run, discharged by z3 (QF pipeline) with cvc5 as second back end"),
    })
m = {
    "version": 1,
    "setup_cmd": "python3-vt -c \"import z3, cvc5; print('solvers ok')\" && /venv/bin/python -c \"import aquacrop, numpy, pandas; print('repo ok')\"",
    "hooks": {"guard": "AQUACROP_VERIF", "enable": "no hooks: contracts are side-car files under /verif/contracts; /repo is read (ast) and imported unmodified; no guarded source commits", "baseline_off_cmd": "cd /repo && /venv/bin/python -m pytest -ra -q -p no:cacheprovider --timeout=900 --continue-on-collection-errors", "source_commits": [], "add_only": True},
    "engines": [
        {"name": "E1", "path": "vc/", "serves_properties": [c["property_id"] for c in checks], "kind_free_text": "Python-AST -> SMT verification-condition generator with side-car contracts (requires/ensures/loop invariants/variants/lemmas/frames), z3 + cvc5"},
        {"name": "E3", "path": "e3/", "serves_properties": [p for p in ids if props.PROPS.get(p, {}).get("bounded")], "kind_free_text": "bounded stand-in: contract clauses evaluated on real model runs over an enumerated finite input set; replay of counter-models on the real functions"},
    ],
    "checks": checks,
    "notes": "Exit codes of every check: 0 held, 1 VIOLATION (refuted obligation / failed bounded case not listed in known_findings.txt), 2 undecided, 3 tool limit or checker error. Fix commits in /repo are listed in known_findings.txt.",
    "not_applicable": [{"property_id": p, "reason": na.get(p, "check not built yet")} for p in ids if p not in props.PROPS],
}
json.dump(m, open(os.path.join(V, "MANIFEST.json"), "w"), indent=1)
print("claimed:", [c["property_id"] for c in checks], "n/a:", [x["property_id"] for x in m["not_applicable"]])
