import ast,sys
for f in sys.argv[1:]:
    src=open(f).read(); t=ast.parse(src)
    for n in ast.walk(t):
        if isinstance(n,(ast.FunctionDef,ast.ClassDef,ast.Module)) and n.body and isinstance(n.body[0],ast.Expr) and isinstance(getattr(n.body[0],'value',None),ast.Constant) and isinstance(n.body[0].value.value,str):
            n.body=n.body[1:] or [ast.Pass()]
    print('#####',f); print(ast.unparse(t))
