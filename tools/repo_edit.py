#!/usr/bin/env python3
"""repo_edit.py <file> <old> <new>  : exact single replacement preserving the file's line endings (old/new given with \n)."""
import sys
p, old, new = sys.argv[1], sys.argv[2], sys.argv[3]
s = open(p, newline='').read()
crlf = "\r\n" in s
old = old.encode().decode('unicode_escape'); new = new.encode().decode('unicode_escape')
if crlf:
    old = old.replace("\n", "\r\n"); new = new.replace("\n", "\r\n")
assert s.count(old) == 1, "old text occurs %d times" % s.count(old)
open(p, 'w', newline='').write(s.replace(old, new))
print("edited", p, "(CRLF)" if crlf else "(LF)")
