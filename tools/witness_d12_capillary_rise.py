import numpy as np, types
from aquacrop.solution.capillary_rise import capillary_rise
n=2
prof=types.SimpleNamespace(dz=np.array([0.1,0.1]),dzsum=np.array([0.1,0.2]),zMid=np.array([0.05,0.15]),th_wp=np.array([0.1,0.1]),th_fc=np.array([0.2,0.2]),
  th_s=np.array([0.41,0.41]),th_dry=np.array([0.05,0.05]),Ksat=np.array([500.,500.]),aCR=np.array([-0.5,-0.5]),bCR=np.array([0.,0.]),Layer=np.array([1,1]),Comp=np.array([0,1]))
best=None
for zgw in np.linspace(0.16,3.9,4000):
    nc=types.SimpleNamespace(z_gw=zgw, th=np.array([0.15,0.40992]), th_fc_Adj=np.array([0.2,0.40998]))
    th0=nc.th.copy()
    out,cr=capillary_rise(prof,1,16.0,nc,np.zeros(2),1)
    if out.th[1] > nc.th_fc_Adj[1] + 1e-9:
        best=(zgw,out.th[1],nc.th_fc_Adj[1],cr); break
print(best)
