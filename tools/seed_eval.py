#!/usr/bin/env python3
"""Evaluate seeded property-breaking changes (from independent sub-agents) against the checks.

For each seeded/_incoming/<prop>/<variant>/ (patch.diff, demo.py, meta.json):
  1. scratch worktree of /repo HEAD under /tmp/seedwt: demo passes (exit 0) on the clean tree,
  2. patch applied there: the 33 tests still pass and the demo fails (exit 1),
  3. patch applied to /repo itself (git apply), the property's quick check is run, /repo is restored (git checkout -- .),
  4. result recorded in seeded/<prop>_<variant>/ (patch.diff, demo.py, meta.json with what was run and which obligation / bounded case caught it).
The scratch worktree is removed at the end.
"""
import json, os, subprocess, sys, shutil, time, re

V = os.path.dirname(os.path.dirname(os.path.abspath(__file__)))
WT = "/tmp/seedwt"
PY = "/venv/bin/python"


def sh(cmd, cwd=None, env=None, timeout=3600):
    p = subprocess.run(cmd, shell=True, cwd=cwd, env=env, capture_output=True, text=True, timeout=timeout)
    return p.returncode, p.stdout + p.stderr


def apply_patch(repo, patch):
    for opt in ("", "-C1"):
        rc, out = sh("git -C %s apply %s %s" % (repo, opt, patch))
        if rc == 0:
            return True, opt or "plain"
        sh("git -C %s checkout -- ." % repo)
    return False, out[-300:]


def main():
    only = [a for a in sys.argv[1:] if not a.startswith("--")]
    validate_only = "--validate-only" in sys.argv   # redo steps 1-2 only, keep the recorded check result
    inc = os.path.join(V, "seeded", "_incoming")
    sh("git -C /repo worktree remove --force %s" % WT)
    rc, out = sh("git -C /repo worktree add -f %s HEAD" % WT)
    env = dict(os.environ, PYTHONPATH=WT, PYTHONWARNINGS="ignore")
    results = []
    for prop in sorted(os.listdir(inc)):
        pd = os.path.join(inc, prop)
        if not os.path.isdir(pd):
            continue
        for var in sorted(os.listdir(pd)):
            sid = "%s_%s" % (prop, var)
            if only and sid not in only and prop not in only:
                continue
            d = os.path.join(pd, var)
            patch, demo = os.path.join(d, "patch.diff"), os.path.join(d, "demo.py")
            if not (os.path.exists(patch) and os.path.exists(demo)):
                continue
            rec = dict(id=sid, property=prop, ran=[])
            try:
                meta = json.load(open(os.path.join(d, "meta.json")))
            except Exception:
                meta = {}
            rec["summary"] = meta.get("summary", "")
            rec["needs_to_manifest"] = meta.get("needs_to_manifest", "")
            sh("git -C %s reset --hard -q HEAD" % WT)
            rc0, out0 = sh("%s %s" % (PY, demo), cwd=WT, env=env, timeout=1800)
            rec["demo_clean_exit"] = rc0
            rec["ran"].append("demo on clean worktree (HEAD incl. fix: commits): exit %d" % rc0)
            ok, how = apply_patch(WT, patch)
            rec["patch_applies"] = ok
            rec["apply_mode"] = how
            if not ok:
                rec["status"] = "patch no longer applies to the repaired tree (context changed by a fix: commit)"
                results.append(rec)
                continue
            rct, outt = sh("%s -m pytest -q -p no:cacheprovider --timeout=900 tests" % PY, cwd=WT, env=env, timeout=3600)
            m = re.search(r"(\d+) passed", outt)
            rec["tests_passed"] = int(m.group(1)) if m else 0
            rec["tests_failed"] = bool(re.search(r"\d+ failed", outt))
            rec["ran"].append("test suite on patched worktree: %s" % (outt.strip().splitlines()[-1] if outt.strip() else rct))
            rc1, out1 = sh("%s %s" % (PY, demo), cwd=WT, env=env, timeout=1800)
            rec["demo_patched_exit"] = rc1
            rec["demo_patched_output"] = out1.strip()[-400:]
            rec["ran"].append("demo on patched worktree: exit %d" % rc1)
            sh("git -C %s reset --hard -q HEAD" % WT)
            valid = (rc0 == 0 and rc1 != 0 and rec["tests_passed"] >= 33 and not rec["tests_failed"])
            rec["valid_seed"] = valid
            # ---- run the property's check against /repo with the patch applied
            out_dir = os.path.join(V, "seeded", sid)
            if validate_only and os.path.exists(os.path.join(out_dir, "meta.json")):
                old = json.load(open(os.path.join(out_dir, "meta.json")))
                old["confirmed_by_me"] = dict(demo_clean_exit=rc0, demo_patched_exit=rc1, tests_passed_with_patch=rec["tests_passed"], valid_seed=valid)
                old["ran"] = rec["ran"] + [r for r in old.get("ran", []) if "vcheck" in r]
                json.dump(old, open(os.path.join(out_dir, "meta.json"), "w"), indent=1)
                print(sid, "revalidated", "valid" if valid else "INVALID-SEED", rc0, rc1, rec["tests_passed"], flush=True)
                continue
            ok2, how2 = apply_patch("/repo", patch)
            if ok2:
                t0 = time.time()
                evf = os.path.join(V, "evidence", "%s.json" % prop)
                saved = open(evf).read() if os.path.exists(evf) else None     # the committed evidence must describe the UNCHANGED tree
                rcc, outc = sh("./vcheck %s --tier quick" % prop, cwd=V, env=dict(os.environ, VERIF_SEED="1", VERIF_TIER="quick"), timeout=7200)   # as the checks are run in use
                if os.path.exists(evf):
                    shutil.copy(evf, os.path.join(V, "seeded", sid + ".evidence.json") if os.path.isdir(os.path.join(V, "seeded")) else evf)
                if saved is not None:
                    open(evf, "w").write(saved)
                rec["check_exit"] = rcc
                rec["check_wall_s"] = round(time.time() - t0, 1)
                viol = [l for l in outc.splitlines() if l.startswith("VIOLATION")]
                det = [l.strip() for l in outc.splitlines() if l.strip().startswith("obligation ") or l.strip().startswith("bounded case ")]
                rec["violation_lines"] = viol[:6]
                obl = [l for l in det if l.startswith("obligation ")]
                bnd = [l for l in det if l.startswith("bounded case ")]
                rec["caught_by"] = obl[:4] + bnd[:3]
                rec["n_obligations_refuted"] = len(obl)
                rec["n_bounded_cases"] = len(bnd)
                rec["known_lines"] = len([l for l in outc.splitlines() if l.startswith("KNOWN-FINDING")])
                rec["other_lines"] = [l for l in outc.splitlines() if l.startswith(("TOOL-LIMIT", "NOTE tool limit", "UNDECIDED", "CHECKER-ERROR", "SOLVER-ERROR"))][:4]
                rec["ran"].append("git -C /repo apply; ./vcheck %s --tier quick: exit %d; git -C /repo checkout -- ." % (prop, rcc))
            sh("git -C /repo checkout -- .")
            rec["status"] = "caught" if rec.get("check_exit") == 1 else ("not caught (exit %s)" % rec.get("check_exit"))
            results.append(rec)
            out_dir = os.path.join(V, "seeded", sid)
            os.makedirs(out_dir, exist_ok=True)
            shutil.copy(patch, os.path.join(out_dir, "patch.diff"))
            shutil.copy(demo, os.path.join(out_dir, "demo.py"))
            json.dump(dict(property=prop, what=rec["summary"], needs_to_manifest=rec["needs_to_manifest"], confirmed_by_me=dict(
                demo_clean_exit=rc0, demo_patched_exit=rc1, tests_passed_with_patch=rec["tests_passed"], valid_seed=valid),
                check=dict(exit=rec.get("check_exit"), obligations_refuted=rec.get("n_obligations_refuted"), bounded_cases_failed=rec.get("n_bounded_cases"), caught_by=rec.get("caught_by"), violation_lines=rec.get("violation_lines"), other=rec.get("other_lines")),
                ran=rec["ran"], origin="written by an independent sub-agent that saw only the property text and its own worktree"),
                open(os.path.join(out_dir, "meta.json"), "w"), indent=1)
            print(sid, rec["status"], "valid" if valid else "INVALID-SEED", rec.get("caught_by", [])[:1], flush=True)
    sh("git -C /repo worktree remove --force %s" % WT)
    if not validate_only and not only:
        json.dump(results, open(os.path.join(V, "seeded", "results.json"), "w"), indent=1)


if __name__ == "__main__":
    main()
